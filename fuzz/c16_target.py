#!/venv/bin/python
"""atheris target for C16: bytes -> latin-1 text (<=20 chars) -> reference classifier oracle.
Usage: c16_target.py <artifact_dir> [libFuzzer args]; a violating input is saved by libFuzzer
as <artifact_dir>/crash-*."""
import os, sys, warnings
warnings.filterwarnings('ignore')
HERE = os.path.dirname(os.path.dirname(os.path.abspath(__file__)))
sys.path.insert(0, HERE)
from vlib import core
core.setup_paths()
import atheris
with atheris.instrument_imports(include=['fixed_format_file', 'refs.fnum']):
    import fixed_format_file  # noqa
    from refs import fnum  # noqa: the oracle's hand-written recogniser gives the coverage gradient
from props import c16


class Violation(Exception):
    pass


def TestOneInput(data):
    s = data.decode('latin-1')[:20]
    R = core.Res()
    c16.run_case({'kind': 'str', 's': s}, R)
    if R.findings:
        raise Violation(repr(R.findings[0]))


if __name__ == '__main__':
    atheris.Setup(sys.argv, TestOneInput)
    atheris.Fuzz()
