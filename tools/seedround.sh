#!/bin/sh
# tools/seedround.sh ROUND ID : collect the seeded changes of a sub-agent from /tmp/seed<ROUND>_ID/_seed/{a,b}
# into seeded/ID/r<ROUND>a, r<ROUND>b, verify demo + pinned tests + run the check; then remove the scratch worktree.
r=$1; id=$2
[ -f /tmp/seed${r}_$id/_seed/a/meta.json ] && [ -f /tmp/seed${r}_$id/_seed/b/meta.json ] || { echo "$id: agent has not delivered yet (worktree kept)"; exit 0; }
for v in a b; do
  src=/tmp/seed${r}_$id/_seed/$v
  [ -f $src/patch.diff ] || { echo "$id/$v: no patch"; continue; }
  dst=/verif/seeded/$id/r$r$v
  mkdir -p $dst; cp $src/patch.diff $src/demo.py $src/meta.json $dst/ 2>/dev/null
  echo "=== $id r$r$v: $(/venv/bin/python -c "import json;print(json.load(open('$dst/meta.json')).get('summary','')[:200])" 2>/dev/null)"
  /verif/tools/mut.py $dst/patch.diff $id --tests --demo $dst/demo.py 2>&1 | cut -c1-330 | grep -v KNOWN | head -6
done
git -C /repo worktree remove --force /tmp/seed${r}_$id 2>/dev/null
