#!/usr/bin/env python3
"""tools/mkseedprompts.py ROUND : create the scratch worktrees /tmp/seed<ROUND>_<ID> of /repo and the prompt files
/tmp/seed<ROUND>_prompt_<ID>.txt for the blind seeding agents.  A prompt holds the text of ONE property, the path of the
agent's own worktree, the test commands, and one-line summaries of the changes earlier agents produced for that property
(so that mechanisms are not repeated) - nothing of the checks in /verif."""
import json, os, subprocess, sys, glob

rnd = sys.argv[1]
EMPHASIS = {
    '4': ("PREFER mechanisms of these kinds, which are the hardest to notice: (i) an alternative way of reaching the same "
          "functionality that behaves differently from the main way (keyword vs positional argument, a string where a list is "
          "also accepted, a numpy array where a list is accepted, an integer index vs a name, a file object vs a file name, a "
          "property setter vs the method behind it, a derived class or a second simulator flavour); (ii) the interaction of "
          "two features or sections each of which still works alone; (iii) what happens when something optional is absent, "
          "empty or has exactly one element (no wells, no surface section, one layer, one column, an empty table, a model "
          "without generators) or is present twice; (iv) second-order effects: an argument object or a shared sub-object that "
          "is modified, two objects created by one call that share a reference, an attribute of the INPUT that changes; "
          "(v) values exactly on a documented limit, signed zeros, the largest value a field can hold, names containing blanks "
          "in unusual positions. "),
    '5': ("PREFER mechanisms of these kinds, which are the hardest to notice: (i) a slip in a small HELPER the property's code "
          "path relies on (a geometry primitive, a name/number conversion helper, a format-specification table entry, a "
          "reader/skip routine, a sort key) rather than in the headline method; (ii) the first or the last element of a loop "
          "treated differently (off-by-one at an end, `range` bound, `<` vs `<=`, a slice that drops or repeats an element); "
          "(iii) a shallow copy where a deep one is needed (or the reverse: identity lost where it matters), a default value "
          "changed for one variant only; (iv) type coercion: int vs float, numpy scalar vs Python number, str vs padded str, "
          "list vs tuple vs numpy array as input or output; (v) behaviour specific to ONE variant that the property "
          "quantifies over and that ordinary use rarely picks (one naming convention, one atmosphere type, one simulator "
          "flavour, one block ordering, left-justified names, upper-case letters, a unit system); (vi) a tolerance, threshold "
          "or rounding changed so that only values near it are affected. "),
    '6': ("Make each change look like ORDINARY MAINTENANCE done for another reason, of one of these kinds: (i) modernisation "
          "(f-strings or str.format replacing % formatting, pathlib / context managers, `//` vs `/`, `is None` clean-ups, "
          "dict/set comprehension replacing a loop, `sorted()` / `enumerate()` / `zip()` rewrites, removing a 'redundant' "
          "copy or list() call, replacing a deprecated numpy idiom); (ii) vectorising a Python loop with numpy (broadcasting, "
          "integer dtype truncation, in-place operations on a view, argsort / unique changing an order, boolean masks); "
          "(iii) a new optional parameter or feature whose default is meant to keep old behaviour but does not in one case; "
          "(iv) a bug fix or robustness tweak for a DIFFERENT, plausible problem (a guard against None or empty input, "
          "clearer error, tolerance for untidy files) that regresses this property for some legal inputs; (v) de-duplication: "
          "two similar branches or functions merged into one that is right for only one of the callers. The diff should read "
          "like a pull request a reviewer would wave through. "),
    '7': ("Think like an adversary of a careful tester who generates many inputs and compares results with an independent "
          "re-implementation. Aim at what such a tester is least likely to produce or to look at: (i) inputs a generator "
          "would plausibly never build - a numeric coincidence between two different fields (equal values, one exactly twice "
          "the other, a sum that is exactly a layer boundary), a size just past an internal chunk or line length (the 5th "
          "value of a 4-per-line table, the 9th layer, 27 or 677 columns), a string shape that is legal but odd (all blanks, "
          "embedded blank, mixed case, a name that looks like a number or a keyword), objects only obtainable through a "
          "particular sequence of public API calls; (ii) observations a tester would plausibly not make - a secondary "
          "attribute or cached property of the result, the return value of a mutating method, the state of an object that "
          "was only passed as an argument, the iteration order of a dictionary, what a second identical call returns, what "
          "happens to the same data reached through a less-used public accessor. The change itself must still look like a "
          "plausible maintainer edit. "),
    '8': ("Your opponent is a tester who generates thousands of inputs per property, compares against an independent "
          "re-implementation, replays editing and call histories, and has already seen the obvious ideas. PREFER: (i) state "
          "shared between TWO LIVE OBJECTS of the same class (module-level or class-level tables, default-argument objects, "
          "aliasing of a sub-object handed from one object to another), so that using one object changes what the other "
          "returns or writes; (ii) what a method leaves behind when it REFUSES or fails midway (a documented exception or a "
          "False return after the object has already been partly modified), or when it is called with nothing to do (empty "
          "selection, zero-length list); (iii) less-travelled but documented ARGUMENT FORMS: negative indices, numpy integer or "
          "numpy string types where Python ones are usual, tuples vs lists, generators / dict views instead of lists, keyword "
          "names, objects vs their names, a file name with a directory part or an upper-case name; (iv) numerically SINGULAR "
          "or TIED situations inside the documented range: a denominator or leading coefficient that vanishes at one interior "
          "value, two candidates exactly equidistant, a value exactly representable vs one ulp off, a sum of spacings that "
          "differs from the total by round-off; (v) a defect that needs a CHAIN of at least three public calls in a particular "
          "order, each harmless alone; (vi) legal-but-untidy INPUT FILES as other programs write them: short lines not padded "
          "to the field width, trailing blanks, CRLF line ends, blank lines where the format allows them, optional trailing "
          "sections, values in a different but legal Fortran rendering. The change itself must still look like a plausible "
          "maintainer edit, and the failing input must be inside the quantified domain. "),
    '9': ("Your opponent generates thousands of inputs per property, compares with an independent re-implementation, replays "
          "call and editing histories (also across two live objects and after refused calls), and has seen eight rounds of "
          "ideas. PREFER: (i) SIZE EXTREMES: empty things (no blocks, no connections, no generators, a table with no rows, one "
          "result time, one column, one layer), exactly one element, and sizes where a vectorised or chunked shortcut differs "
          "(exactly a multiple of a chunk, 10^3..10^4 items); (ii) ORDER as part of the contract: results that come back in "
          "another order, sets or dictionaries iterated where a list order is promised, sorting that is not stable, names that "
          "sort differently as text and as numbers; (iii) COPIES: an object that has been through copy.copy / copy.deepcopy / "
          "pickle, `+`, slicing or a 'from another object' constructor must behave like the original - and the original must "
          "not change when the copy does; (iv) rarely used OPTIONAL PARAMETERS of the very methods the property is about "
          "(documented keyword arguments whose default path is well trodden but whose other values are not); (v) numerically "
          "DELICATE code: a rewrite that changes the last digits only, so that a threshold, tie-break, or `==` between two "
          "computed numbers flips for a few inputs; accumulated round-off over many items; angles near 0/90/180/360 degrees; "
          "(vi) the OUTPUT SIDE of a conversion: what is written rather than what is returned (column alignment of a field that "
          "parsers skip, trailing blanks, the last line, a header count that no longer matches the body). The change itself must "
          "still look like a plausible maintainer edit, and the failing input must be inside the quantified domain. "),
    '10': ("Your opponent generates thousands of inputs per property, compares with an independent re-implementation, replays "
           "call / editing histories (two live objects, refused calls, copies, other argument forms, empty and single-element "
           "things) and has seen nine rounds of ideas. PREFER: (i) SPECIAL VALUES AS DATA where the format or algorithm "
           "carries them: -0.0, subnormals, 1e308, values equal to a default or to a sentinel the code uses internally (0, -1, "
           "1e25, a blank name), two different fields holding the same value; (ii) TEXT at and around its width: a title of "
           "exactly 80 / 81 characters, names with leading blanks, a name equal to another name up to case or padding, text "
           "that contains the record's own keyword; (iii) PYTHON PROTOCOL METHODS of the library's classes that other library "
           "code silently relies on (__repr__, __len__, __contains__, __iter__, __getitem__ with a slice, __eq__ / hash, "
           "__add__), changed in a reasonable-looking way; (iv) INTEGER / FLOAT / BOOLEAN types where something is counted or "
           "indexed (3.0 given for 3, numpy integers, True for 1), integer division and rounding of counts (`//`, round(), "
           "int() of a negative number); (v) IDEMPOTENCE and REPEATABILITY: a documented normalising or set-up operation done "
           "twice, a property read twice, a file written twice to the same name, a section deleted and added again; (vi) the "
           "LAST and the ONLY: the last record of a section, the last section of a file, the last table of a listing, the "
           "only column / layer / time - handled by a branch of their own. The change itself must still look like a plausible "
           "maintainer edit, and the failing input must be inside the quantified domain. "),
}[rnd]
props = [json.loads(l) for l in open('/verif/properties.jsonl')]
for p in props:
    pid = p['id']
    wt = '/tmp/seed%s_%s' % (rnd, pid)
    if not os.path.isdir(wt):
        subprocess.check_call(['git', '-C', '/repo', 'worktree', 'add', '--detach', '-f', wt, 'HEAD'],
                              stdout=subprocess.DEVNULL, stderr=subprocess.DEVNULL)
    open('/tmp/prop_%s.txt' % pid, 'w').write(
        'PROPERTY %s: %s\n\nSTATEMENT: %s\n\nQUANTIFIED OVER: %s\n\nWHY THE EXISTING TESTS CANNOT SETTLE IT: %s\n\n'
        'CODE ANCHORS: %s\n' % (pid, p.get('title', ''), p['statement'], (p.get('quantifier') or {}).get('text', '') if isinstance(p.get('quantifier'), dict) else p.get('quantifier', ''), p.get('why_tests_cant', ''),
                                json.dumps(p.get('anchors', ''))))
    tried = []
    for m in sorted(glob.glob('/verif/seeded/%s/meta.json' % pid) + glob.glob('/verif/seeded/%s/r*/meta.json' % pid)):
        try: tried.append(json.load(open(m)).get('summary', '')[:260].replace('\n', ' '))
        except Exception: pass
    tried_txt = ' | '.join('(%d) %s' % (i + 1, t) for i, t in enumerate(tried))
    txt = ("You are a careful adversarial software engineer. In the scratch git worktree {wt} (a checkout of the Python "
           "library PyTOUGH; work ONLY inside that directory; do NOT read or touch /verif or /repo) produce TWO different, "
           "independent, small, realistic changes to the library source (the top-level *.py modules, not the tests), each of "
           "which BREAKS the semantic property described in the file /tmp/prop_{pid}.txt (read it first). The two changes must "
           "use different mechanisms and violate the property through different code paths (ideally different clauses of the "
           "statement). Ideas that have ALREADY been tried and must not be repeated (find genuinely different mechanisms and "
           "code paths): {tried} Do NOT use `git stash` (the stash is shared between worktrees): save your diff with "
           "`git diff > file` and restore with `git apply -R file` or `git checkout -- .`. Each change, applied alone to the "
           "clean checkout, must satisfy:\n (a) the code still imports and the existing test suites still pass exactly as "
           "before. Run them like this (PYTHONPATH is essential, otherwise an installed copy of the library is imported "
           "instead of your worktree): `cd {wt} && PYTHONPATH={wt} /venv/bin/python -m pytest -q -p no:cacheprovider "
           "--timeout=900 --continue-on-collection-errors 2>&1 | tail -3` — unmodified: \"67 failed, 38 passed\" (the 67 "
           "failures are pre-existing, caused by relative data paths; the same 38 must pass: compare test-name sets with "
           "`-rA`). ALSO from the tests directory, where the data paths resolve: `cd {wt}/tests && PYTHONPATH={wt} "
           "/venv/bin/python -m pytest -q -p no:cacheprovider 2>&1 | tail -4` — unmodified: \"1 failed, 104 passed\" "
           "(test_layermesh); all 104 must still pass.\n (b) {emph}The breakage needs something SPECIFIC to manifest — an "
           "unusual but legal input, a particular combination of options, a multi-step sequence of operations, call history, "
           "a boundary value, or two cooperating code sites that each look fine alone — not something ordinary use or a "
           "casual smoke test would expose at once. Think like a plausible maintainer mistake or refactoring slip, not "
           "sabotage like `raise Exception`.\n (c) it is a genuine violation of the property as stated (the failing input "
           "must lie inside the quantified domain).\n\nDeliverables: two directories {wt}/_seed/a/ and {wt}/_seed/b/, each "
           "containing\n 1. patch.diff — the `git diff` of that ONE change against the clean checkout (must apply with `git "
           "apply` to a clean checkout of the same commit; the two patches are alternatives, not cumulative);\n 2. demo.py — "
           "a small standalone program using only the library's public API (run as `PYTHONPATH=<checkout> /venv/bin/python "
           "demo.py`) that exits 0 and prints PASS on the unmodified code and exits 1 and prints FAIL on the code with that "
           "change; comments say which clause is violated. Verify both directions yourself;\n 3. meta.json — {{\"property\": "
           "\"{pid}\", \"summary\": ..., \"needs\": ..., \"files_changed\": [...], \"ran\": [commands and one-line "
           "results]}}.\nLeave the worktree clean (git checkout -- . after producing each patch) except for the _seed "
           "directory. Use /venv/bin/python (numpy, scipy, hypothesis available; no network). Keep scratch files inside "
           "{wt}/_seed or delete them. Final message: for each change the summary, the 'needs', and confirmation of (a) with "
           "the pass counts you observed.").format(wt=wt, pid=pid, tried=tried_txt, emph=EMPHASIS)
    open('/tmp/seed%s_prompt_%s.txt' % (rnd, pid), 'w').write(txt)
print('prompts written for', len(props), 'properties')
