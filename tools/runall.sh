#!/bin/sh
# tools/runall.sh [tier] : run every check registered in MANIFEST.json once; one status line each
tier=${1:-quick}
cd "$(dirname "$0")/.."
for id in $(/venv/bin/python -c "import json; print(' '.join(c['property_id'] for c in json.load(open('MANIFEST.json'))['checks']))"); do
  start=$(date +%s)
  out=$(./check.py $id --tier $tier 2>&1); rc=$?
  end=$(date +%s)
  echo "$id exit=$rc $((end-start))s $(echo "$out" | grep -c '^VIOLATION') violations $(echo "$out" | grep -c '^KNOWN-FINDING') known | $(echo "$out" | grep ' tier=' | cut -c1-90)"
done
