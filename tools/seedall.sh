#!/bin/sh
# tools/seedall.sh [JOBS] : re-verify every seeded change against the CURRENT tree: applies?, pinned tests, demo both ways,
# check verdict (JOBS scratch copies in parallel, default 5)
cd "$(dirname "$0")/.."
one() {
  p=$1; d=$(dirname $p); id=$(echo $d | cut -d/ -f2)
  out=$(tools/mut.py $p $id --tests --demo $d/demo.py 2>&1)
  tests=$(echo "$out" | grep -c "all 37 stable tests pass")
  demo=$(echo "$out" | grep "^demo:" | sed 's/(\([^)]*\))//g' | cut -c1-60)
  verdict=$(echo "$out" | grep -E "^$id exit=" | head -1)
  sig=$(echo "$out" | grep "signature=" | head -1 | sed 's/ cases=.*//; s/ *signature=//')
  echo "$d | tests_ok=$tests | $demo | $verdict | $sig" | cut -c1-240
}
if [ "$1" = "--one" ]; then one $2; exit; fi
ls seeded/*/patch.diff seeded/*/r[0-9]*/patch.diff | xargs -P ${1:-5} -n 1 "$0" --one | sort
