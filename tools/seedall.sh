#!/bin/sh
# tools/seedall.sh : re-verify every seeded change against the CURRENT tree: applies?, pinned tests, demo both ways, check verdict
cd "$(dirname "$0")/.."
for p in seeded/*/patch.diff seeded/*/r[0-9]*/patch.diff; do
  d=$(dirname $p); id=$(echo $d | cut -d/ -f2)
  out=$(tools/mut.py $p $id --tests --demo $d/demo.py 2>&1)
  tests=$(echo "$out" | grep -c "all 37 stable tests pass")
  demo=$(echo "$out" | grep "^demo:" | sed 's/(\([^)]*\))//g' | cut -c1-60)
  verdict=$(echo "$out" | grep -E "^$id exit=" | head -1)
  sig=$(echo "$out" | grep "signature=" | head -1 | sed 's/ cases=.*//; s/ *signature=//')
  echo "$d | tests_ok=$tests | $demo | $verdict | $sig" | cut -c1-240
done
