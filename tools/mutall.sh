#!/bin/sh
# tools/mutall.sh ID [ID...] : run every mutants/ID/*.patch against check ID; prints one line per mutant
for id in "$@"; do
  for m in /verif/mutants/$id/*.patch; do
    out=$(/verif/tools/mut.py $m $id 2>&1)
    st=$(echo "$out" | grep -E "^$id exit=" | head -1)
    sig=$(echo "$out" | grep "signature=" | head -2 | sed 's/ cases=.*//' | tr '\n' ' ')
    echo "$(basename $m): $st $sig" | cut -c1-260
  done
done
