#!/bin/sh
# tools/seed2.sh ID : collect the round-2 seeded changes of a sub-agent from /tmp/seed2_ID/_seed/{a,b}
# into seeded/ID/r2a, r2b, verify demo + pinned tests + run the check; then remove the scratch worktree.
id=$1
for v in a b; do
  src=/tmp/seed2_$id/_seed/$v
  [ -f $src/patch.diff ] || { echo "$id/$v: no patch"; continue; }
  dst=/verif/seeded/$id/r2$v
  mkdir -p $dst; cp $src/patch.diff $src/demo.py $src/meta.json $dst/ 2>/dev/null
  echo "=== $id r2$v: $(/venv/bin/python -c "import json;print(json.load(open('$dst/meta.json')).get('summary','')[:200])" 2>/dev/null)"
  /verif/tools/mut.py $dst/patch.diff $id --tests --demo $dst/demo.py 2>&1 | cut -c1-330 | grep -v KNOWN | head -6
done
git -C /repo worktree remove --force /tmp/seed2_$id 2>/dev/null
