#!/venv/bin/python
"""mkmut.py ID NAME FILE OLD NEW [--count N] : writes mutants/ID/NAME.patch replacing the literal OLD by NEW
(exactly one occurrence unless --nth k selects the k-th, 1-based) in /repo/FILE."""
import sys, os, difflib
VERIF = os.path.dirname(os.path.dirname(os.path.abspath(__file__)))
pid, name, fn, old, new = sys.argv[1:6]
nth = None
if '--nth' in sys.argv: nth = int(sys.argv[sys.argv.index('--nth') + 1])
old = old.encode().decode('unicode_escape'); new = new.encode().decode('unicode_escape')
src = open(os.path.join('/repo', fn)).read()
n = src.count(old)
if n == 0 or (n > 1 and nth is None):
    sys.exit('OLD occurs %d times in %s' % (n, fn))
if nth is None: dst = src.replace(old, new)
else:
    parts = src.split(old)
    dst = old.join(parts[:nth]) + new + old.join(parts[nth:])
d = ''.join(difflib.unified_diff(src.splitlines(True), dst.splitlines(True), 'a/' + fn, 'b/' + fn))
os.makedirs(os.path.join(VERIF, 'mutants', pid), exist_ok=True)
open(os.path.join(VERIF, 'mutants', pid, name + '.patch'), 'w').write(d)
print('wrote mutants/%s/%s.patch (%d lines)' % (pid, name, d.count('\n')))
