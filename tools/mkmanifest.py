#!/venv/bin/python
"""Regenerates MANIFEST.json from the metadata constants in props/cNN.py."""
import os, sys, json, importlib
VERIF = os.path.dirname(os.path.dirname(os.path.abspath(__file__)))
sys.path.insert(0, VERIF)
from vlib import core
core.setup_paths()
ids = [json.loads(l)['id'] for l in open(os.path.join(VERIF, 'properties.jsonl'))]
PENDING = {}
pend = os.path.join(VERIF, 'tools', 'pending.json')
if os.path.exists(pend): PENDING = json.load(open(pend))
checks, na = [], []
for pid in ids:
    path = os.path.join(VERIF, 'props', pid.lower() + '.py')
    if not os.path.exists(path) or pid in PENDING:
        na.append({'property_id': pid, 'reason': PENDING.get(pid, 'check not built yet in this session (planned, see DESIGN.md section 5); not claimed until it runs clean and kills its mutants')})
        continue
    m = importlib.import_module('props.' + pid.lower())
    checks.append({
        'property_id': pid,
        'quick_cmd': './check.py %s --tier quick' % pid,
        'thorough_cmd': './check.py %s --tier thorough' % pid,
        'evidence_file': 'evidence/%s.json' % pid,
        'replay_cmd_template': './check.py %s --replay {path}' % pid,
        'engine': 'pbt',
        'level_claimed': {'category': 'exploration', 'text': m.LEVEL_TEXT,
                          'design_ref': 'DESIGN.md section 5, %s' % pid},
        'level_note': m.LEVEL_NOTE,
        'technique': m.TECHNIQUE,
    })
man = {
    'version': 1,
    'setup_cmd': '/venv/bin/pip install -q --no-index --find-links /opt/veriftools/wheels hypothesis && '
                 '/venv/bin/pip install -q --no-index --find-links /opt/veriftools/wheels --upgrade --target /verif/.deps atheris',
    'hooks': {'guard': 'PYTOUGH_VERIF', 'enable': 'no hooks are needed: every observation point is a public attribute, return value or written file; checks import /repo\'s working tree directly (sys.path[0] = /repo)',
              'baseline_off_cmd': 'cd /repo && /venv/bin/python -m pytest -ra -q -p no:cacheprovider --timeout=900 --continue-on-collection-errors',
              'source_commits': [], 'add_only': True},
    'engines': [{'name': 'pbt', 'path': 'vlib/core.py', 'serves_properties': [c['property_id'] for c in checks],
                 'kind_free_text': 'Hypothesis strategies + exhaustive enumeration (+ atheris for C16) over JSON cases, '
                                   'explicit oracle per property, findings bucketed by root-cause signature, '
                                   'shrunk and written as replay files; known_findings.json adjudication'}],
    'checks': checks,
    'not_applicable': na,
    'notes': 'All checks: exit 0 held / 1 VIOLATION / 2 harness error. VERIF_SEED honoured. See DESIGN.md.',
}
json.dump(man, open(os.path.join(VERIF, 'MANIFEST.json'), 'w'), indent=1)
try:
    import jsonschema
    jsonschema.validate(man, json.load(open('/root/.vp/MANIFEST.schema.json')))
    print('manifest valid;', len(checks), 'checks,', len(na), 'not_applicable')
except ImportError:
    print('written (jsonschema not available to validate);', len(checks), 'checks')
