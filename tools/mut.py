#!/venv/bin/python
"""Sensitivity runner: apply a patch to a scratch copy of /repo (outside /repo and /verif),
optionally run the pinned tests there, run the named checks against it, remove the copy.

  tools/mut.py PATCH ID[,ID...] [--tier quick] [--tests] [--keep]

Exit status 0 if every named check reported a VIOLATION (mutant killed), 1 otherwise.
Evidence and replays of these runs go to the scratch directory, never to /verif/evidence."""
import os, sys, subprocess, tempfile, shutil, json, argparse, glob

VERIF = os.path.dirname(os.path.dirname(os.path.abspath(__file__)))


def make_scratch():
    d = tempfile.mkdtemp(prefix='pytough_mut_')
    for f in glob.glob('/repo/*.py') + ['/repo/pyproject.toml']:
        shutil.copy(f, d)
    os.symlink('/repo/tests', os.path.join(d, 'tests'))
    os.symlink('/repo/doc', os.path.join(d, 'doc'))
    return d


def run_tests(d):
    base = json.load(open('/root/.vp/BASELINE.json'))
    xml = os.path.join(d, 'junit.xml')
    env = dict(os.environ, PYTHONPATH=d)
    subprocess.run(['/venv/bin/python', '-m', 'pytest', '-q', '-p', 'no:cacheprovider', '--timeout=900',
                    '--continue-on-collection-errors', '--junitxml=' + xml, '/repo/tests'],
                   cwd=d, env=env, stdout=subprocess.DEVNULL, stderr=subprocess.DEVNULL)
    import xml.etree.ElementTree as ET
    passed = set()
    for tc in ET.parse(xml).getroot().iter('testcase'):
        if not any(ch.tag in ('failure', 'error', 'skipped') for ch in tc):
            passed.add('%s::%s' % (tc.get('classname'), tc.get('name')))
    missing = [t for t in base['stable_pass'] if t not in passed]
    return missing


def main():
    ap = argparse.ArgumentParser()
    ap.add_argument('patch'); ap.add_argument('ids')
    ap.add_argument('--tier', default='quick')
    ap.add_argument('--tests', action='store_true')
    ap.add_argument('--keep', action='store_true')
    ap.add_argument('--demo', help='demo program: must exit 0 on /repo and non-zero on the patched copy')
    ap.add_argument('--seed', default='1')
    a = ap.parse_args()
    d = make_scratch()
    ok = True
    try:
        p = subprocess.run(['patch', '-p1', '-s', '-d', d, '-i', os.path.abspath(a.patch)],
                           stdout=subprocess.PIPE, stderr=subprocess.STDOUT, universal_newlines=True)
        if p.returncode != 0:
            print('PATCH FAILED\n' + p.stdout); return 2
        if a.tests:
            missing = run_tests(d)
            print('pinned tests: %s' % ('all 37 stable tests pass' if not missing else 'FAILING: %s' % missing))
        if a.demo:
            r0 = subprocess.run(['/venv/bin/python', os.path.abspath(a.demo)], env=dict(os.environ, PYTHONPATH='/repo'),
                                cwd=d, stdout=subprocess.PIPE, stderr=subprocess.STDOUT, universal_newlines=True)
            r1 = subprocess.run(['/venv/bin/python', os.path.abspath(a.demo)], env=dict(os.environ, PYTHONPATH=d),
                                cwd=d, stdout=subprocess.PIPE, stderr=subprocess.STDOUT, universal_newlines=True)
            print('demo: clean exit=%d (%s)  patched exit=%d (%s)' % (
                r0.returncode, (r0.stdout.strip().splitlines() or [''])[-1][:80],
                r1.returncode, (r1.stdout.strip().splitlines() or [''])[-1][:80]))
        for pid in a.ids.split(','):
            out = os.path.join(d, 'out'); os.makedirs(out, exist_ok=True)
            env = dict(os.environ, VERIF_REPO=d, VERIF_OUT=out, VERIF_SEED=a.seed)
            p = subprocess.run([os.path.join(VERIF, 'check.py'), pid, '--tier', a.tier], env=env,
                               stdout=subprocess.PIPE, stderr=subprocess.STDOUT, universal_newlines=True)
            lines = [l for l in p.stdout.splitlines() if l.startswith(('VIOLATION', '  signature', 'HARNESS', 'KNOWN'))
                     or ' tier=' in l]
            print('%s exit=%d' % (pid, p.returncode))
            for l in lines[:12]: print('   ' + l[:400])
            if p.returncode == 2: print(p.stdout[-3000:])
            if p.returncode != 1: ok = False
    finally:
        if a.keep: print('scratch kept at', d)
        else: shutil.rmtree(d, ignore_errors=True)
    return 0 if ok else 1


if __name__ == '__main__':
    sys.exit(main())
