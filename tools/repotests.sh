#!/bin/sh
# Runs the pinned baseline command (37 stable tests expected) and, as a wider net, the whole upstream
# suite from /repo/tests (103 passed / 2 failed on the pinned tree: test_layermesh, test_sat).
cd /repo && /venv/bin/python -m pytest -q -p no:cacheprovider --timeout=900 --continue-on-collection-errors 2>&1 | tail -1
cd /repo/tests && /venv/bin/python -m pytest -q -p no:cacheprovider --timeout=900 2>&1 | tail -4 | grep -E "FAILED|passed|failed"
