#!/venv/bin/python
"""check.py <ID> --tier quick|thorough [--replay FILE]   (see DESIGN.md section 2)"""
import os, sys
sys.path.insert(0, os.path.dirname(os.path.abspath(__file__)))
from vlib.core import main
if __name__ == '__main__':
    sys.exit(main())
