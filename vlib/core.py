"""Runner for the PyTOUGH property checks.

A property module (props/cNN.py) provides

    ID            'C16'
    RULE          str: how cases are generated and what makes one non-trivial
    ASSUMPTIONS   list of str
    def searches(tier) -> list of Search
    def run_case(case, R)        # pure function of (case, code under test)

A *case* is JSON-serialisable data.  run_case() evaluates the oracle for that
case and reports through R (class Res): R.fail(signature, detail),
R.label(name), R.nontrivial(flag), R.exclude(sig).  It never raises for an
oracle mismatch; an exception escaping from code of the repository under test
is itself converted into a finding (signature exc:...), an exception from the
harness is a harness error (exit 2).

Search kinds:
    'hyp'   gen() returns a Hypothesis strategy of cases; n examples per shard
    'enum'  gen() returns an iterable of cases, enumerated completely
            (sharded by index modulo the number of shards)

Exit codes: 0 held (KNOWN-FINDING lines possible); 1 VIOLATION; 2 harness error.
"""
import os, sys, json, time, hashlib, traceback, tempfile, shutil, io, contextlib
import importlib, itertools, collections, re, random

VERIF = os.path.dirname(os.path.dirname(os.path.abspath(__file__)))
REPO = os.path.abspath(os.environ.get('VERIF_REPO', '/repo'))
OUT = os.path.abspath(os.environ.get('VERIF_OUT', VERIF))


def setup_paths():
    import warnings
    warnings.filterwarnings('ignore')    # library chatter (SyntaxWarning on import, RuntimeWarning from solvers) is not parsed
    for p in (REPO, VERIF, os.path.join(VERIF, '.deps')):
        if p in sys.path: sys.path.remove(p)
    if os.path.isdir('/verif/.deps') and '/verif/.deps' not in sys.path:
        sys.path.append('/verif/.deps')     # snapshots of /verif (vp run) do not carry the untracked .deps
    sys.path.insert(0, os.path.join(VERIF, '.deps'))
    sys.path.insert(0, VERIF)
    sys.path.insert(0, REPO)


class HarnessError(Exception):
    pass


class Search(object):
    def __init__(self, name, kind, gen, n=None, shards=1, shrink=True,
                 max_shrink_s=60):
        self.name, self.kind, self.gen = name, kind, gen
        self.n, self.shards, self.shrink = n, shards, shrink
        self.max_shrink_s = max_shrink_s


def canon(case):
    return json.dumps(case, sort_keys=True, default=repr, separators=(',', ':'))


def case_hash(case):
    return hashlib.sha1(canon(case).encode('utf8', 'replace')).hexdigest()[:16]


def _in_repo_frame(tb):
    """(is_repo, where) for the innermost frames of a traceback."""
    frames = traceback.extract_tb(tb)
    inner_repo = None
    for fr in frames:
        fn = os.path.abspath(fr.filename)
        if fn.startswith(REPO + os.sep):
            inner_repo = '%s:%s' % (os.path.basename(fn), fr.name)
    if not frames: return None
    last = os.path.abspath(frames[-1].filename)
    # innermost frame in repo, or in a third party library called from repo
    if last.startswith(REPO + os.sep): return inner_repo
    if last.startswith(VERIF + os.sep): return None
    return inner_repo  # numpy/scipy/stdlib raised: attribute to repo caller if any


class Res(object):
    """Per-case result collector handed to run_case."""

    def __init__(self):
        self.findings = []      # (signature, detail)
        self.labels = []
        self.is_nontrivial = False
        self.excluded = []
        self.subcount = 0
        self._tmp = None

    def fail(self, sig, detail=''):
        d = detail if isinstance(detail, str) else repr(detail)
        self.findings.append((str(sig), d[:2000]))

    def check(self, cond, sig, detail=''):
        if not cond: self.fail(sig, detail() if callable(detail) else detail)
        return cond

    def count(self, n):
        """this case evaluated n sub-cases (e.g. a prefix expanded with every last operation)"""
        self.subcount += int(n)

    def label(self, *names):
        self.labels.extend(str(n) for n in names)

    def nontrivial(self, flag=True):
        if flag: self.is_nontrivial = True

    def exclude(self, sig):
        """Record that part of this case was not judged because it runs into
        an already known finding (counted in the evidence)."""
        self.excluded.append(str(sig))

    @property
    def tmp(self):
        if self._tmp is None:
            self._tmp = tempfile.mkdtemp(prefix='pytough_verif_')
        return self._tmp

    def cleanup(self):
        if self._tmp is not None:
            shutil.rmtree(self._tmp, ignore_errors=True)
            self._tmp = None

    @contextlib.contextmanager
    def lib(self, stage, accept=()):
        """Run library code; an exception becomes a finding exc:<stage>:...
        unless its type is in `accept` (documented refusal), which is
        re-raised as Refused for the caller to handle."""
        try:
            yield
        except accept as e:
            raise Refused(e)
        except (HarnessError, Refused, Aborted):
            raise
        except RecursionError as e:
            self.fail('exc:%s:RecursionError' % stage, 'RecursionError')
            raise Aborted()
        except Exception as e:
            if type(e).__name__ == 'Hang':     # vlib.hygiene.eof_guard: deterministic non-termination
                self.fail('hang:%s' % stage, str(e))
                raise Aborted()
            where = _in_repo_frame(sys.exc_info()[2])
            if where is None:
                raise HarnessError('harness exception inside R.lib(%r): %s\n%s' % (stage, e, traceback.format_exc()))
            self.fail('exc:%s:%s:%s' % (stage, type(e).__name__, where),
                      '%s: %s' % (type(e).__name__, str(e)[:500]))
            raise Aborted()


class Refused(Exception):
    """library refused the input with a documented exception"""


class Aborted(Exception):
    """case aborted after a library exception was recorded as a finding"""


class CaseTimeout(BaseException):
    pass


def _on_alarm(signum, frame):
    raise CaseTimeout()


def evaluate(mod, case):
    """Run one case through the property's oracle; returns Res.  A per-case wall-clock
    limit (module CASE_TIMEOUT, default 300 s) exists only so that a hang cannot stall the
    check: it is reported as a harness error (exit 2, inconclusive), never as a violation."""
    import signal, threading
    R = Res()
    out = io.StringIO()
    cwd = os.getcwd()
    limit = getattr(mod, 'CASE_TIMEOUT', 300)
    use_alarm = threading.current_thread() is threading.main_thread()
    if use_alarm:
        old = signal.signal(signal.SIGALRM, _on_alarm)
        signal.setitimer(signal.ITIMER_REAL, limit)
    try:
        return _evaluate(mod, case, R, out)
    except CaseTimeout:
        raise HarnessError('case exceeded the %d s harness safety limit (inconclusive): %s' % (
            limit, canon(case)[:3000]))
    finally:
        if use_alarm:
            signal.setitimer(signal.ITIMER_REAL, 0)
            signal.signal(signal.SIGALRM, old)
        os.chdir(cwd)
        R.cleanup()


def _evaluate(mod, case, R, out):
    try:
        with contextlib.redirect_stdout(out):
            try:
                mod.run_case(case, R)
            except Aborted:
                pass
            except Refused:
                R.label('refused')
            except HarnessError:
                raise
            except RecursionError:
                R.fail('exc:uncaught:RecursionError', 'RecursionError')
            except Exception as e:
                where = _in_repo_frame(sys.exc_info()[2])
                if where is None:
                    raise HarnessError('harness exception in run_case: %s\ncase=%s\n%s' % (
                        e, canon(case)[:2000], traceback.format_exc()))
                R.fail('exc:uncaught:%s:%s' % (type(e).__name__, where),
                       '%s: %s' % (type(e).__name__, str(e)[:500]))
    finally:
        pass
    return R


# ----------------------------------------------------------------------
# known findings

def load_known(pid):
    path = os.path.join(VERIF, 'known_findings.json')
    if not os.path.exists(path): return []
    with open(path) as f:
        entries = json.load(f)
    return [e for e in entries if e.get('property') == pid]


def known_match(known, sig):
    for e in known:
        if e.get('status') != 'open': continue
        if re.fullmatch(e['signature'], sig): return e
    return None


# ----------------------------------------------------------------------
# per-shard accumulation

class Acc(object):
    def __init__(self):
        self.evaluations = 0
        self.nontrivial = set()
        self.classes = collections.Counter()
        self.samples = []
        self.findings = {}   # sig -> dict(case, detail, count, seed, search)
        self.excluded = collections.Counter()
        self.refused = 0

    def add(self, search, seed, case, R, max_samples=4):
        self.evaluations += max(1, R.subcount)
        if R.is_nontrivial:
            h = case_hash(case)
            if h not in self.nontrivial:
                self.nontrivial.add(h)
                if len(self.samples) < max_samples:
                    self.samples.append(_trim(case))
        for l in set(R.labels): self.classes[l] += 1
        for x in R.excluded: self.excluded[x] += 1
        seen = set()
        for sig, detail in R.findings:
            if sig in seen: continue
            seen.add(sig)
            size = len(canon(case))
            cur = self.findings.get(sig)
            if cur is None:
                self.findings[sig] = dict(case=case, detail=detail, count=1, seed=seed,
                                          search=search, size=size)
            else:
                cur['count'] += 1
                if size < cur['size']:
                    cur.update(case=case, detail=detail, size=size, seed=seed, search=search)

    def merge(self, o):
        self.evaluations += o.evaluations
        self.nontrivial |= o.nontrivial
        self.classes.update(o.classes)
        self.excluded.update(o.excluded)
        for s in o.samples:
            if len(self.samples) < 8: self.samples.append(s)
        for sig, f in o.findings.items():
            cur = self.findings.get(sig)
            if cur is None: self.findings[sig] = dict(f)
            else:
                n = cur['count'] + f['count']
                if f['size'] < cur['size']: cur.update(f)
                cur['count'] = n


def _trim(case, limit=1500):
    s = canon(case)
    if len(s) <= limit: return case
    return {'truncated_case_json': s[:limit] + '...', 'full_length': len(s)}


def _hyp_settings(n, phases=None):
    from hypothesis import settings, HealthCheck, Phase
    kw = dict(max_examples=n, deadline=None, database=None, derandomize=False,
              report_multiple_bugs=False,
              suppress_health_check=[HealthCheck.too_slow, HealthCheck.data_too_large,
                                     HealthCheck.large_base_example])
    if phases is not None: kw['phases'] = phases
    return settings(**kw)


def _run_shard(args):
    modname, sname, tier, seed, shard, nshards = args
    setup_paths()
    mod = importlib.import_module(modname)
    search = [s for s in mod.searches(tier) if s.name == sname][0]
    acc = Acc()
    try:
        if search.kind == 'enum':
            for case in itertools.islice(search.gen(), shard, None, nshards):
                acc.add(sname, seed, case, evaluate(mod, case))
        elif search.kind == 'hyp':
            import hypothesis
            from hypothesis import given, Phase
            sseed = seed * 1000 + shard
            n = max(1, search.n // nshards)

            @hypothesis.seed(sseed)
            @_hyp_settings(n, phases=[Phase.generate])
            @given(search.gen())
            def t(case):
                acc.add(sname, sseed, case, evaluate(mod, case))
            t()
        else:
            raise HarnessError('unknown search kind %r' % search.kind)
    except HarnessError as e:
        return ('error', str(e))
    except Exception as e:
        return ('error', 'shard %s/%d of %s: %s\n%s' % (shard, nshards, sname, e,
                                                         traceback.format_exc()))
    return ('ok', acc)


def shrink(mod, search, f, sig):
    """Re-run the Hypothesis search that found `sig` with the same seed, this time
    failing on that signature only, so Hypothesis shrinks it."""
    import hypothesis
    from hypothesis import given
    best = {'case': f['case'], 'detail': f['detail']}
    t0 = time.time()

    class Hit(Exception): pass

    @hypothesis.seed(f['seed'])
    @_hyp_settings(max(1, search.n))
    @given(search.gen())
    def t(case):
        if time.time() - t0 > search.max_shrink_s: return
        R = evaluate(mod, case)
        for s, d in R.findings:
            if s == sig:
                if len(canon(case)) <= len(canon(best['case'])):
                    best['case'], best['detail'] = case, d
                raise Hit(sig)
    try:
        with contextlib.redirect_stdout(io.StringIO()), contextlib.redirect_stderr(io.StringIO()):
            t()
    except Hit:
        pass
    except HarnessError:
        raise
    except Exception:
        pass
    return best['case'], best['detail']


def write_replay(pid, sig, case, detail, seed, search):
    d = os.path.join(OUT, 'replays', pid)
    os.makedirs(d, exist_ok=True)
    h = hashlib.sha1((sig + canon(case)).encode('utf8', 'replace')).hexdigest()[:12]
    path = os.path.join(d, '%s.json' % h)
    with open(path, 'w') as fh:
        json.dump({'property': pid, 'signature': sig, 'case': case, 'detail': detail,
                   'seed': seed, 'search': search}, fh, indent=1, default=repr, sort_keys=True)
    return os.path.relpath(path, OUT)


def write_evidence(mod, tier, seed, acc, wall, violations, known_seen, extra=None):
    cov = {
        'evaluations': acc.evaluations,
        'distinct_nontrivial': len(acc.nontrivial),
        'rule': mod.RULE,
        'samples': acc.samples[:8] if acc.samples else [],
        'classes': dict(sorted(acc.classes.items())),
        'excluded': dict(acc.excluded),
        'known_findings_observed': known_seen,
        'exhaustive': False,
    }
    if extra: cov.update(extra)
    enum = [k for k, v in (cov.get('searches') or {}).items() if v.get('kind') == 'enum']
    other = [k for k, v in (cov.get('searches') or {}).items() if v.get('kind') != 'enum']
    if enum:
        cov['explanation'] = ('completely enumerated sub-spaces in this run: %s; generated (not exhaustive) searches: %s. '
                              '"exhaustive" is true only when every search of the run is a complete enumeration.' % (
                                  ', '.join(enum), ', '.join(other) or 'none'))
        cov['exhaustive'] = not other and 'atheris_campaigns' not in cov
    ev = {'property_id': mod.ID, 'tier': tier, 'seed': seed, 'level': 'exploration',
          'coverage': cov, 'assumptions': list(getattr(mod, 'ASSUMPTIONS', [])),
          'wall_s': round(wall, 2), 'violations': violations}
    d = os.path.join(OUT, 'evidence')
    os.makedirs(d, exist_ok=True)
    with open(os.path.join(d, '%s.json' % mod.ID), 'w') as fh:
        json.dump(ev, fh, indent=1, default=repr)


def regress_cases(pid):
    d = os.path.join(VERIF, 'regress', pid)
    out = []
    if os.path.isdir(d):
        for fn in sorted(os.listdir(d)):
            if fn.endswith('.json'):
                with open(os.path.join(d, fn)) as fh:
                    out.append((fn, json.load(fh)))
    return out


def run_property(modname, tier, seed, only=None):
    import multiprocessing as mp
    setup_paths()
    mod = importlib.import_module(modname)
    pid = mod.ID
    known = load_known(pid)
    t0 = time.time()
    total = Acc()
    extra = {}
    searches = mod.searches(tier)
    if only: searches = [s for s in searches if s.name in only]
    # 1. regression replays first
    nreg = 0
    for fn, rp in regress_cases(pid):
        R = evaluate(mod, rp['case'])
        total.add('regress:' + fn, seed, rp['case'], R)
        nreg += 1
    extra['regress_replays'] = nreg
    # 2. searches
    per_search = {}
    for s in searches:
        ts = time.time()
        jobs = [(modname, s.name, tier, seed, i, s.shards) for i in range(s.shards)]
        if s.shards == 1:
            results = [_run_shard(jobs[0])]
        else:
            ctx = mp.get_context('fork')
            with ctx.Pool(min(s.shards, 16)) as pool:
                results = pool.map(_run_shard, jobs, chunksize=1)
        sub = Acc()
        for st, r in results:
            if st == 'error': raise HarnessError(r)
            sub.merge(r)
        per_search[s.name] = {'kind': s.kind, 'evaluations': sub.evaluations,
                              'distinct_nontrivial': len(sub.nontrivial),
                              'wall_s': round(time.time() - ts, 1)}
        if s.kind == 'enum': per_search[s.name]['enumerated_completely'] = True
        total.merge(sub)
    extra['searches'] = per_search
    if hasattr(mod, 'finish'):
        more = mod.finish(tier, seed, total)
        if more: extra.update(more)
    # 3. adjudicate
    violations, known_seen, unstable = [], {}, []
    sdict = {s.name: s for s in searches}
    for sig, f in sorted(total.findings.items()):
        e = known_match(known, sig)
        if e is not None:
            known_seen[e['id']] = known_seen.get(e['id'], 0) + f['count']
            continue
        case, detail = f['case'], f['detail']
        s = sdict.get(f['search'])
        if s is not None and s.kind == 'hyp' and s.shrink and len(violations) < 3:
            try:
                case, detail = shrink(mod, s, f, sig)
            except HarnessError:
                pass
        # confirm from the replay data itself
        ok = 0
        for _ in range(2):
            R = evaluate(mod, case)
            if any(s2 == sig for s2, _d in R.findings): ok += 1
        if ok == 0:
            # shrunk case does not reproduce: fall back to the original
            case, detail = f['case'], f['detail']
            R = evaluate(mod, case)
            if not any(s2 == sig for s2, _d in R.findings):
                # Observed against the real code during the search, but the case evaluated alone in a fresh
                # interpreter state passes: the answer depended on calls made earlier in the same process
                # (state carried between calls). Kept aside; reported only if nothing reproducible was found.
                unstable.append((sig, case, detail, f))
                continue
        path = write_replay(pid, sig, case, detail, f['seed'], f['search'])
        violations.append((sig, path, detail, f['count']))
    if unstable:
        extra['history_dependent_findings'] = [{'signature': sig, 'detail': str(detail)[:300], 'cases': f['count']}
                                               for sig, _c, detail, f in unstable[:10]]
    if unstable and not violations:
        for sig, case, detail, f in unstable[:3]:
            note = ('[observed %d time(s) during the search, in a process that had evaluated other cases before; '
                    'the case alone does not show it: the library carries state between calls] ' % f['count'])
            path = write_replay(pid, 'history-dependent:' + sig, case, note + str(detail), f['seed'], f['search'])
            violations.append(('history-dependent:' + sig, path, note + str(detail), f['count']))
    for e in known:
        if e.get('status') == 'open' and e['id'] in known_seen:
            print('KNOWN-FINDING: property=%s %s [%s, %d cases]' % (
                pid, e['what'], e['id'], known_seen[e['id']]))
    wall = time.time() - t0
    write_evidence(mod, tier, seed, total, wall, len(violations), known_seen, extra)
    print('%s tier=%s seed=%d evaluations=%d distinct_nontrivial=%d wall=%.1fs' % (
        pid, tier, seed, total.evaluations, len(total.nontrivial), wall))
    for sig, path, detail, count in violations:
        print('VIOLATION property=%s replay=%s' % (pid, path))
        print('  signature=%s cases=%d detail=%s' % (sig, count, detail[:600]))
    return 1 if violations else 0


def replay(modname, path):
    setup_paths()
    mod = importlib.import_module(modname)
    with open(path) as fh:
        rp = json.load(fh)
    R = evaluate(mod, rp['case'])
    known = load_known(mod.ID)
    bad = [(s, d) for s, d in R.findings if known_match(known, s) is None]
    for s, d in R.findings:
        print('finding signature=%s detail=%s' % (s, d[:1500]))
    if bad:
        print('VIOLATION property=%s replay=%s' % (mod.ID, path))
        return 1
    print('replay: no violation')
    return 0


def main(argv=None):
    import argparse
    ap = argparse.ArgumentParser()
    ap.add_argument('prop')
    ap.add_argument('--tier', default=os.environ.get('VERIF_TIER', 'quick'),
                    choices=['quick', 'thorough'])
    ap.add_argument('--replay')
    ap.add_argument('--only', action='append')
    a = ap.parse_args(argv)
    if os.environ.get('PYTHONHASHSEED') != '0':
        env = dict(os.environ, PYTHONHASHSEED='0')
        os.execve(sys.executable, [sys.executable] + sys.argv, env)
    try:
        seed = int(os.environ.get('VERIF_SEED', '1') or 1)
    except ValueError:
        seed = 1
    modname = 'props.%s' % a.prop.lower()
    os.chdir(VERIF)
    try:
        setup_paths()
        import t2data  # noqa: imports the code under test
        if not os.path.abspath(t2data.__file__).startswith(REPO + os.sep):
            raise HarnessError('t2data imported from %s, not %s' % (t2data.__file__, REPO))
        if a.replay:
            return replay(modname, a.replay)
        return run_property(modname, a.tier, seed, a.only)
    except HarnessError as e:
        print('HARNESS-ERROR %s' % e)
        return 2
    except Exception:
        print('HARNESS-ERROR %s' % traceback.format_exc())
        return 2
