"""Helpers shared by property modules."""
import contextlib


class Hang(Exception):
    """Raised by the end-of-file guard: the code under test keeps reading a file that has
    already ended.  Deterministic (a count, not a clock)."""


class _FileProxy(object):
    def __init__(self, f, limit):
        self.__dict__['_f'] = f
        self.__dict__['_eof'] = 0
        self.__dict__['_limit'] = limit

    def readline(self, *a):
        s = self._f.readline(*a)
        if s == '' or s == b'':
            self.__dict__['_eof'] += 1
            if self._eof > self._limit:
                raise Hang('more than %d consecutive reads at end of file' % self._limit)
        else:
            self.__dict__['_eof'] = 0
        return s

    def __getattr__(self, k): return getattr(self._f, k)
    def __setattr__(self, k, v): setattr(self._f, k, v)
    def __iter__(self): return iter(self._f)
    def __enter__(self): return self
    def __exit__(self, *a): return self._f.__exit__(*a)


@contextlib.contextmanager
def eof_guard(limit=5000):
    """Every fixed_format_file opened inside the block reads through a proxy that counts
    consecutive reads at end of file; legitimate code does a handful, a reader stuck in a
    loop does nothing else."""
    import fixed_format_file as fff
    orig = fff.fixed_format_file.__init__

    def init(self, *a, **k):
        orig(self, *a, **k)
        self.file = _FileProxy(self.file, limit)
    fff.fixed_format_file.__init__ = init
    try:
        yield
    finally:
        fff.fixed_format_file.__init__ = orig
