"""C05 - listing tables hold exactly the numbers printed in the listing file."""
import os, re, hashlib, itertools
import numpy as np
from hypothesis import strategies as st
from vlib.core import Search, HarnessError, Aborted
from refs import fnum
from refs import listing_ref as LR
from gens import listing as GL

ID = 'C05'
RULE = ('A/D: every shipped listing x every result time: tables of the reader vs the independent end-column scanner '
        '(row count, keys in order, column names, cells bit-equal) and the three ways of addressing a cell. '
        'C: every file x subsets of skipped tables (all singletons, all complements of singletons, the full set, sampled '
        'others in quick; all subsets in thorough), list form and (singletons) the string form the upstream tests use, '
        'all times. B: a shipped file is copied and numeric tokens inside table rows are overwritten, right-aligned at '
        'the same end column, by fresh numbers of one perturbation kind (digits, zero, neg = sign inside the token width, '
        'negwide = sign in the blank before the field, exp3 / negexp3 = 3-digit exponent with the E dropped, mixed); '
        'positions come from a Hypothesis list of abstract (time, table, row, column) picks biased to first/last rows, or '
        'from a fill rule "every n-th token of the file"; every cell of every table at every time must equal the number '
        'written there (perturbed) or printed there (unperturbed). Non-trivial (B) = at least one token changed sign or '
        'exponent width; distinct = distinct case JSON.'
        ' Also: every chunk of result times reached by negative index, time=, step= and last() as well as by index.'
        ' Rounds 7-10: reversed connection names (twice), look-ups leave the table unchanged, negative row indices; a listing of another simulator opened and stepped meanwhile; addressing agreement on the perturbed files as well (rows printed twice hold different numbers there); tables after convergence / get_difference; rewind() or the reductions scan between visits.')
ASSUMPTIONS = ['block names are 5 characters ending in a digit ((A3,I2) printing), the blank in the 4th column is repaired to 0',
               'a Fortran field is right-justified, so a token\'s end column identifies its table column',
               'TOUGH2-MP prints border rows once per processor: one table row per distinct printed index, '
               'any of the printings of that row is accepted',
               'a perturbed number never is wider than the widest number the column shows (plus one sign column where '
               'every row has a spare blank)']

KINDS = ['digits', 'zero', 'neg', 'negwide', 'exp3', 'negexp3', 'mixed']

# ------------------------------------------------------------------------------------------------
# scanner cache and expected tables

_scans = {}


class FileRef(object):
    """scan of one shipped file + the token list used by the perturbation oracle"""

    def __init__(self, rel):
        self.rel = rel
        self.S = S = LR.scan(GL.path_of(rel))
        self.full = S.full
        self.tokens = []          # (block i, Table, view row, Tok, Row)
        self.colinfo = {}
        for bi, b in enumerate(self.full):
            for t in b.tables:
                if t.status != 'ok': continue
                for vi, grp in enumerate(t.view()):
                    if len(grp) != 1: continue       # row printed more than once: not perturbed
                    r = grp[0]
                    for k in r.toks:
                        self.tokens.append((bi, t, vi, k, r))
        for L in S.layouts:
            if L.kind != 'full' or L.tables[0].status != 'ok': continue
            self._columns(L)

    def _columns(self, L):
        """per column: widest token, whether every row has a spare blank before it, exponent style"""
        info = {}
        for jn, (a, b) in enumerate(L.fields):
            info[jn] = {'wmax': 0, 'spare': True, 'es': False, 'e': False, 'f': False}
        for t in L.tables:
            if t.status != 'ok': continue
            for r in t.rows:
                seen = set()
                for k in r.toks:
                    jn = k.col - L.n_int
                    c = info[jn]
                    c['wmax'] = max(c['wmax'], k.end - k.start)
                    sh = shape(k.text)
                    if sh is None: c['odd'] = True
                    elif sh['style'] == 'ES': c['es'] = True
                    elif sh['style'] == 'E0': c['e'] = True
                    else: c['f'] = True
        for t in L.tables:
            if t.status != 'ok': continue
            for r in t.rows:
                for jn, (a, b) in enumerate(L.fields):
                    lo = r.pre_end if jn == 0 else a
                    c = info[jn]
                    if b - c['wmax'] - 1 < lo: c['spare'] = False
        L.colinfo = info


def fileref(rel):
    if rel not in _scans:
        _scans[rel] = FileRef(rel)
    return _scans[rel]


def expected_tables(F, bi):
    """{table name: (keys, colnames, array, alternatives)} from the scanner for full block bi"""
    out = {}
    for t in F.full[bi].tables:
        if t.status != 'ok': continue
        groups = t.view()
        keys = [LR.repair_name(g[0].key) for g in groups]
        arr = np.array([g[0].cells for g in groups], dtype=float).reshape(len(groups), len(t.colnames))
        alts = {}
        for vi, g in enumerate(groups):
            if len(g) > 1: alts[vi] = [np.array(r.cells) for r in g]
        out[t.name] = (keys, list(t.colnames), arr, alts, t)
    return out


# ------------------------------------------------------------------------------------------------
# printed forms

_E0 = re.compile(r'^([-+]?)(0?)\.(\d+)(?:([EeDd])([-+])(\d\d)|([-+])(\d\d\d))$')
_ES = re.compile(r'^([-+]?)([1-9])\.(\d+)(?:([EeDd])([-+])(\d\d)|([-+])(\d\d\d))$')
_F = re.compile(r'^([-+]?)(\d*)\.(\d*)$')


def shape(text):
    m = _E0.match(text)
    if m:
        return {'style': 'E0', 'nd': len(m.group(3)), 'c': m.group(4) or 'E', 'w': len(text),
                'neg': m.group(1) == '-', 'exp3': m.group(8) is not None}
    m = _ES.match(text)
    if m:
        return {'style': 'ES', 'nd': len(m.group(3)), 'c': m.group(4) or 'E', 'w': len(text),
                'neg': m.group(1) == '-', 'exp3': m.group(8) is not None}
    m = _F.match(text)
    if m and (m.group(2) or m.group(3)):
        return {'style': 'F', 'ni': len(m.group(2)), 'nd': len(m.group(3)), 'w': len(text),
                'neg': m.group(1) == '-', 'exp3': False}
    return None


def render(sh, colstyle, kind, digits, e2, avail):
    """New token of printed form `sh` and perturbation `kind`, at most `avail` columns wide.
    Returns (text, canonical numeral, applied kind) or None."""
    style = sh['style']
    if style == 'E0' and colstyle == 'ES': style = 'ES'      # 0.0000E+00 in a d.dddd column
    neg = kind in ('neg', 'negwide', 'negexp3')
    zero = kind == 'zero'
    exp3 = kind in ('exp3', 'negexp3')
    if style in ('E0', 'ES'):
        nd = sh['nd']
        if style == 'E0':
            D = digits[:nd] if not zero else '0' * nd
            lead = '0'
        else:
            lead = digits[0] if not zero else '0'
            D = digits[1:1 + nd] if not zero else '0' * nd
        if zero: ex = 0
        elif exp3: ex = (100 + 2 * abs(e2)) * (1 if e2 >= 0 else -1)
        else: ex = e2
        es = '+' if ex >= 0 else '-'
        if abs(ex) >= 100: etxt = '%s%03d' % (es, abs(ex))
        else: etxt = '%s%s%02d' % (sh['c'], es, abs(ex))
        canon = '%s%s.%se%d' % ('-' if neg else '', lead, D, ex)
        cands = []
        if neg:
            cands.append('-' + lead + '.' + D + etxt)
            if style == 'E0': cands.append('-.' + D + etxt)
        else:
            cands.append(lead + '.' + D + etxt)
            if style == 'E0': cands.append('.' + D + etxt)
        for c in cands:
            if len(c) <= avail: return c, canon, kind
        return None
    # F format
    if exp3: kind = 'neg' if neg else 'digits'
    nd, ni = sh['nd'], max(sh['ni'], 1)
    if zero:
        I, Fr = '0', '0' * nd
    else:
        I, Fr = digits[:ni], digits[ni:ni + nd]
    room = avail - (1 + nd) - (1 if neg else 0)      # columns left for the integer part
    if room < 0: return None
    if len(I) > room:
        I = I[:room]
    body = I + '.' + Fr
    if body == '.': return None
    text = ('-' if neg else '') + body
    canon = ('-' if neg else '') + (I or '0') + '.' + (Fr or '0')
    return text, canon, kind


def fresh(salt, k):
    h = hashlib.sha1(('%d:%d' % (salt, k)).encode()).hexdigest()
    n = int(h, 16)
    d = str(n % (10 ** 17)).zfill(17)
    d = str(1 + (n >> 70) % 9) + d[1:]
    e = (n >> 80) % 199 - 99
    return d, e, (n >> 100)


# ------------------------------------------------------------------------------------------------
# searches

def _time_chunks(n, size):
    idx = list(range(n))
    return [idx[i:i + size] for i in range(0, n, size)]


def _nfull(rel):
    return len(fileref(rel).full)


def _tablenames(rel):
    F = fileref(rel)
    return [t.name for t in F.full[0].tables]


def cases_AD(tier):
    def g():
        for rel in GL.shipped():
            n = _nfull(rel)
            chunks = _time_chunks(n, 3 if tier == 'quick' else 2)
            for ch in chunks:
                yield {'o': 'A', 'file': rel, 'idx': ch}
            # result times visited again after others were visited in between (each visit judged against the print)
            if n >= 2: yield {'o': 'A', 'file': rel, 'idx': [0, 1, 0, n - 1, 0]}
            if n >= 3: yield {'o': 'A', 'file': rel, 'idx': [1, 0, 2, 0, 1, n - 1, 1]}
            # the same result times reached another way than by their non-negative index
            for k, ch in enumerate(chunks):
                via = 'negative' if ch[-1] == n - 1 else ['negative', 'time', 'step'][k % 3]
                yield {'o': 'A', 'file': rel, 'idx': ch, 'via': via}
                if ch[-1] == n - 1 and n > 1:
                    yield {'o': 'A', 'file': rel, 'idx': [0, n - 1], 'via': 'last'}
                    yield {'o': 'A', 'file': rel, 'idx': [0, n - 1], 'via': 'time'}
            if n >= 2: yield {'o': 'A', 'file': rel, 'idx': [n // 2, 0, n - 1], 'via': 'difference'}
            if n >= 2:
                for pre in ('rewind', 'reductions'):
                    yield {'o': 'A', 'file': rel, 'idx': [0, n - 1, n - 1, 0], 'via': 'negative', 'pre': pre}
                    yield {'o': 'A', 'file': rel, 'idx': [n - 1, n - 1], 'via': 'last', 'pre': pre}
            # another listing, written by another simulator, is opened (and stepped) while this one is in use
            others = sorted((r for r in GL.shipped() if fam(r) != fam(rel)), key=lambda r: (GL.size_of(r), r))
            seen = set()
            for r2 in others:
                if fam(r2) in seen: continue
                seen.add(fam(r2))
                yield {'o': 'A', 'file': rel, 'idx': [0, n - 1] if n < 3 else [0, 1, n - 1], 'companion': r2}
    return g


def cases_C(tier):
    def g():
        for rel in GL.shipped():
            names = _tablenames(rel)
            subs = []
            for k in range(1, len(names) + 1):
                for c in itertools.combinations(names, k):
                    subs.append(list(c))
            if tier == 'quick':
                keep = [s for s in subs if len(s) in (1, len(names) - 1, len(names))]
                rest = [s for s in subs if s not in keep]
                # deterministic sample of the others
                keep += rest[::3]
                subs = keep
            for s in subs:
                yield {'o': 'C', 'file': rel, 'skip': s, 'str': False}
                # the string form used by the upstream tests is a substring test: only where it is unambiguous
                if len(s) == 1 and not any(s[0] in n or n in s[0] for n in names if n != s[0]):
                    yield {'o': 'C', 'file': rel, 'skip': s, 'str': True}
    return g


def _small_files(limit):
    return [r for r in GL.shipped() if GL.size_of(r) <= limit]


@st.composite
def case_B(draw, files):
    rel = draw(st.sampled_from(files))
    kind = draw(st.sampled_from(KINDS))
    if draw(st.integers(0, 3)) == 0:
        return {'o': 'B', 'file': rel, 'kind': kind, 'fill': draw(st.integers(0, 10 ** 6)),
                'every': draw(st.sampled_from([1, 1, 2, 3, 7, 31])), 'off': draw(st.integers(0, 30))}
    pick = st.one_of(st.just(0), st.just(-1), st.integers(0, 10 ** 4))
    edit = st.tuples(pick, st.integers(0, 5), pick, st.one_of(st.just(0), st.just(-1), st.integers(0, 12)),
                     st.sampled_from(KINDS[:-1]),
                     st.integers(10 ** 16, 10 ** 17 - 1).map(str), st.integers(-99, 99))
    edits = draw(st.lists(edit, min_size=1, max_size=24))
    return {'o': 'B', 'file': rel, 'kind': kind, 'edits': [list(e) for e in edits]}


def cases_B_fill(tier):
    """deterministic part of B: every file x every kind with all tokens replaced"""
    def g():
        files = GL.shipped() if tier != 'quick' else _small_files(900000)      # includes AUTOUGH2/7 (rows printed twice under one name)
        for rel in files:
            for kind in KINDS:
                yield {'o': 'B', 'file': rel, 'kind': kind, 'fill': 1, 'every': 1, 'off': 0}
    return g


def searches(tier):
    q = tier == 'quick'
    files = _small_files(300000) if q else GL.shipped()
    return [Search('scanner_and_addressing', 'enum', cases_AD(tier), shards=16),
            Search('skip_tables', 'enum', cases_C(tier), shards=16),
            Search('perturb_all_tokens', 'enum', cases_B_fill(tier), shards=16),
            Search('perturb', 'hyp', lambda: case_B(files), n=1600 if q else 24000, shards=16, max_shrink_s=15)]


# ------------------------------------------------------------------------------------------------
# oracles

def fam(rel):
    return GL.family(rel)


def _cmp_table(R, sig, rel, bi, name, lt, exp, edited=None):
    """reader table `lt` against expected (keys, cols, arr, alts).  Returns False after a finding."""
    keys, cols, arr, alts, t = exp
    where = '%s time index %d table %s' % (rel, bi, name)
    if len(lt.row_name) != len(keys):
        R.fail(sig + ':rows', '%s: reader has %d rows, the file prints %d' % (where, len(lt.row_name), len(keys)))
        return False
    if list(lt.row_name) != keys:
        bad = [(i, a, b) for i, (a, b) in enumerate(zip(lt.row_name, keys)) if a != b]
        R.fail(sig + ':keys', '%s: %d row names differ, first: row %d reader %r printed %r' % (
            where, len(bad), bad[0][0], bad[0][1], bad[0][2]))
        return False
    if list(lt.column_name) != cols:
        R.fail(sig + ':columns', '%s: reader columns %r, headings %r' % (where, lt.column_name, cols))
        return False
    d = lt._data
    if d.shape != arr.shape:
        R.fail(sig + ':shape', '%s: %r vs %r' % (where, d.shape, arr.shape)); return False
    ok = (d == arr) | (np.isnan(d) & np.isnan(arr))
    for vi, al in alts.items():
        for a in al:
            ok[vi] |= (d[vi] == a)
    if ok.all(): return True
    bad = np.argwhere(~ok)
    i, j = bad[0]
    grp = t.view()[i]
    line = grp[0].line
    s2 = sig
    if edited is not None:
        s2 = sig + (':perturbed-cell' if any((name, int(a), int(b)) in edited for a, b in bad) else ':other-cell')
    else:
        s2 = sig + ':cells'
    R.fail(s2, '%s%s: %d cells differ, first: row %r column %r reader %r printed %r (file line %d: %r)' % (
        where, (' [perturbation %s]' % edited.get('kind')) if edited else '', len(bad), keys[i], cols[j], d[i, j],
        arr[i, j], line + 1, edited_line(edited, line) if edited else ''))
    return False


def edited_line(edited, line):
    return edited.get(('line', line), '') if isinstance(edited, dict) else ''


def run_A(case, R):
    rel = case['file']
    F = fileref(rel)
    R.label('oracle:A+D', 'sim:' + fam(rel))
    lst = None
    with R.lib('open'):
        lst = GL.open_listing(GL.path_of(rel))
    try:
        R.check(lst.num_fulltimes == len(F.full), 'A:%s:times' % fam(rel),
                '%s: reader finds %d result times, the file has %d banners' % (rel, lst.num_fulltimes, len(F.full)))
        if lst.num_fulltimes != len(F.full): return
        via = case.get('via', 'index')
        R.label('via:' + via)
        n = len(F.full)
        companion = None
        if case.get('companion'): lst._file = GL.EOFWatch(lst._file)      # a reader that never stops reading at end of file: a finding, not a time-out
        for nvis, bi in enumerate(case['idx']):
            b = F.full[bi]
            if case.get('companion') and nvis == 1:
                R.label('companion-listing:%s-while-reading-%s' % (fam(case['companion']), fam(rel)))
                with R.lib('open-companion'):
                    companion = GL.open_listing(GL.path_of(case['companion']))
                    companion.next(); companion.first()
            if case.get('pre') and nvis > 0:
                # a call that leaves the reader 'before the first results' (documented: rewind() reads nothing; the
                # reductions scan ends the same way) between two visits
                R.label('pre:' + case['pre'])
                with R.lib('pre-' + case['pre']):
                    if case['pre'] == 'rewind': lst.rewind()
                    else: lst.reductions
            with R.lib('index'):
                if via == 'negative': lst.index = bi - n
                elif via == 'last' and bi == n - 1: lst.last()
                elif via == 'time' and [x.time for x in F.full].count(b.time) == 1:
                    lst.time = b.time * (1.0 + 1e-9) + (1e30 if bi == n - 1 else 0.0)      # nearest; beyond the end for the last one
                elif via == 'step' and [x.step for x in F.full].count(b.step) == 1: lst.step = b.step
                else: lst.index = bi
            if via == 'difference' and 'element' in lst._table and n >= 2:
                # a call that visits two result times on the way (convergence / get_difference): wherever the reader says it
                # is afterwards, its tables are those printed for that time
                with R.lib('get_difference'):
                    if nvis % 2: lst.get_difference(bi) if bi > 0 else lst.get_difference()
                    else: lst.convergence
                bi = lst.index
                if not R.check(isinstance(bi, (int, np.integer)) and 0 <= bi < n, 'A:%s:index-after-difference' % fam(rel), repr(bi)): return
                bi = int(bi); b = F.full[bi]
                R.label('after-get_difference')
            elif not R.check(lst.index == bi, 'A:%s:index-reached' % fam(rel), '%s: asked for result %d via %s, reader is at index %r' % (
                    rel, bi, via, lst.index)): return
            exp = expected_tables(F, bi)
            R.check(lst.time == b.time and lst.step == b.step, 'A:%s:time-step' % fam(rel),
                    '%s index %d: reader time %r step %r, banner %r %r' % (rel, bi, lst.time, lst.step, b.time, b.step))
            for t in b.tables:
                if t.status != 'ok':
                    R.label('inconclusive:%s:%s' % (fam(rel), t.name))
                    R.exclude('scanner-inconclusive')
            for name in lst._table:
                lt = lst._table[name]
                if name not in exp:
                    if b.table(name) is None:
                        R.label('reader-only-table:%s:%s' % (fam(rel), name)); R.exclude('scanner-missed-table')
                    continue
                R.label('table:' + name)
                if exp[name][3]: R.label('rows-printed-twice')
                if exp[name][4].layout.trailing_blank: R.label('trailing-blank-columns')
                if _cmp_table(R, 'A:%s:%s' % (fam(rel), name), rel, bi, name, lt, exp[name]):
                    R.nontrivial()
                run_D(R, rel, bi, name, lt)
            for name in exp:
                if name not in lst._table: R.label('scanner-only-table:%s:%s' % (fam(rel), name))
    finally:
        lst.close()
        if case.get('companion') and 'companion' in dir() and companion is not None: companion.close()


def run_D(R, rel, bi, name, lt):
    """row-index / row-name / column-name addressing"""
    sig = 'D'
    where = '%s time index %d table %s' % (rel, bi, name)
    names = lt.row_name
    count = {}
    for n in names: count[n] = count.get(n, 0) + 1
    ndup = sum(1 for n in names if count[n] > 1)
    if ndup: R.label('duplicate-row-names')
    cols = lt.column_name
    bycol = [lt[c] for c in cols]
    for c, v in zip(cols, bycol):
        if not (isinstance(v, np.ndarray) and v.shape == (len(names),)):
            R.fail(sig + ':column-shape', '%s[%r] has shape %r for %d rows' % (where, c, getattr(v, 'shape', None), len(names)))
            return
    step = 1 if len(names) <= 600 else len(names) // 300
    rows = sorted(set(list(range(0, len(names), step)) + [len(names) - 1] + [i for i, n in enumerate(names) if count[n] > 1][:40])) if names else []
    before = lt._data.copy()
    if getattr(lt, 'allow_reverse_keys', False):
        # a connection named the other way round: the negated row (documented), as often as it is asked for
        nameset = set(names)
        for i in rows[::max(1, len(rows) // 40)]:
            n = names[i]
            if not (isinstance(n, tuple) and len(n) == 2 and n[0] != n[1] and n[::-1] not in nameset and count[n] == 1): continue
            R.label('reversed-connection-name')
            for attempt in (1, 2):
                byr = lt[n[::-1]]
                if byr is None or byr.get('key') != n[::-1]:
                    R.fail(sig + ':reversed-name', '%s[%r] = %r' % (where, n[::-1], None if byr is None else byr.get('key'))); return
                for j, c in enumerate(cols):
                    a, b = byr[c], -before[i, j]
                    if not (a == b or (a != a and b != b)):
                        R.fail(sig + ':reversed-name-value', '%s: [%r][%r] = %r (asked %d times), the row printed for %r has %r' % (
                            where, n[::-1], c, a, attempt, n, before[i, j])); return
    for i in rows:
        n = names[i]
        byi = lt[i]
        if byi.get('key') != n:
            R.fail(sig + ':key', '%s[%d]["key"] = %r, row name %r' % (where, i, byi.get('key'), n)); return
        for j, c in enumerate(cols):
            a, b = byi[c], bycol[j][i]
            if not (a == b or (a != a and b != b)):
                R.fail(sig + ':index-vs-column', '%s: [%d][%r] = %r but [%r][%d] = %r' % (where, i, c, a, c, i, b)); return
        if i in (rows[0], rows[-1], rows[len(rows) // 2]):
            # the same row counted from the end (a negative row index, as for any Python sequence)
            byneg = lt[i - len(names)]
            if byneg is None or byneg.get('key') != n or any(not (byneg[c] == byi[c] or (byneg[c] != byneg[c] and byi[c] != byi[c])) for c in cols):
                R.fail(sig + ':negative-index', '%s: [%d] and [%d] differ' % (where, i - len(names), i)); return
        if count[n] > 1: continue
        byn = lt[n]
        if byn is None or byn.get('key') != n:
            R.fail(sig + ':name', '%s[%r] = %r' % (where, n, None if byn is None else byn.get('key'))); return
        for j, c in enumerate(cols):
            a, b = byn[c], byi[c]
            if not (a == b or (a != a and b != b)):
                R.fail(sig + ':name-vs-index', '%s: [%r][%r] = %r but [%d][%r] = %r' % (where, n, c, a, i, c, b)); return
    after = lt._data
    if not (after.shape == before.shape and ((after == before) | (np.isnan(after) & np.isnan(before))).all()):
        R.fail(sig + ':lookup-alters-table', '%s: the table holds other numbers after its rows were looked up' % where)


def run_C(case, R):
    rel = case['file']
    skip = case['skip']
    R.label('oracle:C', 'sim:' + fam(rel), 'skip:%d-of-%d' % (len(skip), len(_tablenames(rel))))
    path = GL.path_of(rel)
    base = GL.baseline(path)
    arg = skip[0] if case.get('str') else list(skip)
    if case.get('str'): R.label('skip-as-string')
    sig = 'C:%s' % fam(rel)
    lst = None
    with R.lib('C-open'):
        lst = GL.open_listing(path, skip_tables=arg)
    try:
        R.nontrivial(len(skip) < len(base['tablenames']))
        if not R.check(lst.num_fulltimes == base['n'], sig + ':times',
                       '%s: %d result times with skip_tables=%r, %d without' % (rel, lst.num_fulltimes, arg, base['n'])):
            return
        others = [n for n in base['tablenames'] if n not in skip]
        for i in range(base['n']):
            with R.lib('C-index'):
                lst.index = i
            snap = base['snaps'][i]
            if not R.check(lst.time == snap['time'] and lst.step == snap['step'], sig + ':time-step',
                           '%s index %d skip %r: time %r step %r, without skipping %r %r' % (
                               rel, i, arg, lst.time, lst.step, snap['time'], snap['step'])): return
            for n in others:
                if n not in lst._table:
                    R.fail(sig + ':missing', '%s skip %r: table %s is gone' % (rel, arg, n)); return
                rn, cn, d = snap['tables'][n]
                lt = lst._table[n]
                if tuple(lt.row_name) != rn or tuple(lt.column_name) != cn:
                    R.fail(sig + ':names', '%s index %d skip %r: row/column names of %s changed' % (rel, i, arg, n)); return
                if not GL.same_array(lt._data, d):
                    bad = np.argwhere(~((lt._data == d) | (np.isnan(lt._data) & np.isnan(d))))
                    a, b = bad[0]
                    R.fail(sig + ':cells', '%s index %d skip %r: %s[%r][%r] = %r, without skipping %r (%d cells)' % (
                        rel, i, arg, n, rn[a], cn[b], lt._data[a, b], d[a, b], len(bad))); return
    finally:
        lst.close()


def plan_edits(case, F, R):
    """resolve the case to {token position: (new text, value, kind)}"""
    toks = F.tokens
    if not toks: return {}
    chosen = {}
    if 'fill' in case:
        every, off, salt = case['every'], case['off'], case['fill']
        for k in range(len(toks)):
            if (k + off) % every == 0:
                d, e, x = fresh(salt, k)
                kind = case['kind'] if case['kind'] != 'mixed' else KINDS[x % (len(KINDS) - 1)]
                chosen[k] = (kind, d, e)
    else:
        # index of tokens by (block, table, row, col)
        idx = getattr(F, '_idx', None)
        if idx is None:
            idx = {}
            for k, (bi, t, vi, tok, r) in enumerate(toks):
                idx.setdefault(bi, {}).setdefault(t.name, {}).setdefault(vi, []).append(k)
            F._idx = idx
        blocks = sorted(idx)
        for (pb, pt, pr, pc, kind, d, e) in case['edits']:
            bi = blocks[pb % len(blocks)]
            tn = sorted(idx[bi], key=lambda n: [t.name for t in F.full[bi].tables].index(n))
            name = tn[pt % len(tn)]
            rows = sorted(idx[bi][name])
            vi = rows[pr % len(rows)]
            ks = idx[bi][name][vi]
            k = ks[pc % len(ks)]
            if case['kind'] != 'mixed': kind = case['kind']
            chosen[k] = (kind, d, e)
    plan = {}
    for k, (kind, d, e) in chosen.items():
        bi, t, vi, tok, r = toks[k]
        L = t.layout
        jn = tok.col - L.n_int
        c = L.colinfo[jn]
        sh = shape(tok.text)
        if sh is None: continue
        colstyle = 'ES' if c['es'] else ('E0' if c['e'] else 'F')
        if c['e'] and c['f'] or c['es'] and c['f']:
            if kind in ('exp3', 'negexp3') and sh['style'] == 'F': kind = 'digits'
        w = tok.end - tok.start
        avail = w
        spare = c['spare'] and not (jn == 0 and L.n_int)    # width of an integer column is unknown
        if kind == 'negwide':
            avail = c['wmax'] + 1 if spare else w
            if avail < w: avail = w
        out = render(sh, colstyle, kind, d, e, avail)
        if out is None and kind == 'negwide':
            out = render(sh, colstyle, 'neg', d, e, w)
        if out is None and kind in ('neg', 'negexp3'):
            # no room for a sign in this token's width: use the spare blank if every row has one
            if spare: out = render(sh, colstyle, kind, d, e, min(w + 1, c['wmax'] + 1))
        if out is None: continue
        text, canon, applied = out
        value = float(canon)
        try:
            v2 = fnum.read_real(text)
        except fnum.NotNumber:
            raise HarnessError('constructed token %r is not a Fortran number' % text)
        if not (v2 == value):
            raise HarnessError('constructed token %r reads %r, built from %r' % (text, v2, canon))
        plan[k] = (text, value, applied, sh)
    return plan


def run_B(case, R):
    rel = case['file']
    F = fileref(rel)
    S = F.S
    R.label('oracle:B', 'sim:' + fam(rel), 'kind:' + case['kind'], 'fill' if 'fill' in case else 'picked')
    if not F.tokens:
        R.label('no-perturbable-tokens'); R.exclude('scanner-inconclusive'); return
    plan = plan_edits(case, F, R)
    if not plan:
        R.label('empty-plan'); return
    lines = list(S.lines)
    newline = {}
    edited = {'kind': case['kind']}
    expected = {}
    changed_form = False
    for k in sorted(plan):
        text, value, applied, sh = plan[k]
        bi, t, vi, tok, r = F.tokens[k]
        line = newline.get(tok.line, lines[tok.line])
        a = min(tok.start, tok.end - len(text))
        line = line[:a] + text.rjust(tok.end - a) + line[tok.end:]
        newline[tok.line] = line
        edited[(t.name, vi, tok.col)] = True
        expected.setdefault(bi, {}).setdefault(t.name, []).append((vi, tok.col, value))
        R.label('applied:' + applied)
        if (applied in ('neg', 'negwide', 'negexp3')) != sh['neg'] or (applied in ('exp3', 'negexp3')) != sh['exp3']:
            changed_form = True
        if tok.end - a > tok.end - tok.start: R.label('token-widened-into-blank')
        if vi == 0: R.label('first-row-perturbed')
        if bi == 0: R.label('first-time-perturbed')
        if bi > 0: R.label('later-time-perturbed')
    R.nontrivial(changed_form)
    for ln, l in newline.items():
        if len(l) != len(lines[ln]):
            raise HarnessError('edit changed the length of line %d' % (ln + 1))
        lines[ln] = l
        edited[('line', ln)] = l
    # the perturbed text must still scan to the same layout (oracle self-consistency)
    path = os.path.join(R.tmp, os.path.basename(rel))
    with open(path, 'wb') as f:
        for l, eol in zip(lines, S.eols):
            f.write(l.encode('latin-1') + eol.encode('latin-1'))
    # oracle self-consistency: the perturbed page must scan to exactly the tables constructed here
    S2 = LR.scan(path)
    if len(S2.full) != len(F.full): raise HarnessError('perturbed copy scans to %d result sets' % len(S2.full))
    for bi in range(len(F.full)):
        exp = expected_tables(F, bi)
        for t2 in S2.full[bi].tables:
            if t2.name not in exp: continue
            if t2.status != 'ok':
                raise HarnessError('perturbed copy of %s: table %s no longer scans: %s' % (rel, t2.name, t2.reason))
            arr = exp[t2.name][2].copy()
            for vi, col, value in expected.get(bi, {}).get(t2.name, []): arr[vi, col] = value
            a2 = np.array([g[0].cells for g in t2.view()], dtype=float).reshape(arr.shape)
            okk = (a2 == arr) | (np.isnan(a2) & np.isnan(arr))
            for vi in exp[t2.name][3]: okk[vi] = True
            if not okk.all():
                i, j = np.argwhere(~okk)[0]
                raise HarnessError('perturbed copy of %s: scanner reads %r where %r was written (table %s row %d col %d)' % (
                    rel, a2[i, j], arr[i, j], t2.name, i, j))
    sig = 'B:%s' % fam(rel)
    lst = None
    with R.lib('B-open'):
        lst = GL.open_listing(path)
    try:
        if not R.check(lst.num_fulltimes == len(F.full), sig + ':times',
                       '%s perturbed: %d result times, file has %d' % (rel, lst.num_fulltimes, len(F.full))): return
        for bi in range(len(F.full)):
            with R.lib('B-index'):
                lst.index = bi
            exp = expected_tables(F, bi)
            for name in exp:
                keys, cols, arr, alts, t = exp[name]
                if name not in lst._table:
                    # a table that is not printed at the first time is not exposed by the reader
                    if F.full[0].table(name) is None:
                        R.label('table-absent-at-first-time'); continue
                    R.fail(sig + ':table-missing', '%s perturbed: no table %s' % (rel, name)); return
                if bi in expected and name in expected[bi]:
                    arr = arr.copy()
                    for vi, col, value in expected[bi][name]: arr[vi, col] = value
                d = lst._table[name]._data
                if d.shape == arr.shape and not GL.same_array(d, arr) and not alts:
                    # root cause "table not re-read": the reader shows what is printed at another time
                    for bj in range(len(F.full)):
                        if bj == bi: continue
                        e2 = expected_tables(F, bj).get(name)
                        if e2 is None or e2[2].shape != arr.shape: continue
                        a2 = e2[2]
                        if bj in expected and name in expected[bj]:
                            a2 = a2.copy()
                            for vi, col, value in expected[bj][name]: a2[vi, col] = value
                        if GL.same_array(d, a2):
                            R.fail('B:%s:stale-table:%s' % (fam(rel), name),
                                   '%s perturbed (%s): at time index %d table %s shows the numbers printed at time index %d' % (
                                       rel, case['kind'], bi, name, bj))
                            return
                if not _cmp_table(R, sig, rel, bi, name, lst._table[name], (keys, cols, arr, alts, t), edited):
                    return
                # the three ways of addressing a cell, on the numbers of the perturbed file (rows printed twice under one
                # name hold different numbers here)
                before = len(R.findings)
                run_D(R, rel + ' [perturbed %s]' % case['kind'], bi, name, lst._table[name])
                if len(R.findings) > before: return
    finally:
        lst.close()


def run_case(case, R):
    o = case['o']
    if o == 'A': run_A(case, R)
    elif o == 'C': run_C(case, R)
    elif o == 'B': run_B(case, R)
    else: raise HarnessError('unknown oracle %r' % o)


LEVEL_TEXT = ('Complete enumeration of the 37 shipped listings x every result time against an independent end-column scanner '
              '(plus addressing agreement), enumeration of skip-table subsets (all subsets in thorough), and generated '
              'value perturbations whose expected cells are known by construction (all-token replacement per file and kind, '
              'plus Hypothesis-picked positions). Refutes only; the perturbation space is sampled.')
LEVEL_NOTE = ('Trusted: refs/listing_ref.py (tables it cannot lay out consistently are marked inconclusive and counted, '
              'never guessed) and refs/fnum.py for reading printed numbers.')
TECHNIQUE = ('differential testing against an independent page scanner + construction-based perturbation oracle '
             '(Hypothesis) + skip-table differential + addressing metamorphic check')
