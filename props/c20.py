"""C20 - flavour conversion and Waiwera export keep the model, drop only what they say."""
import os, copy
from hypothesis import strategies as st
from vlib.core import Search, HarnessError
from gens import data, geo
from refs import t2_ref
from refs.incon_ref import a3i2_print, quirk_repair

ID = 'C20'
CASE_TIMEOUT = 300
RULE = ('to_tough2: generated AUTOUGH2 models (gens/data.py: every section combination, generators of supported / '
        'convertible / unsupported types incl. duplicated names, all 24 MOP digits 0..9, SHORT with blocks / connections / '
        'generators present or absent) x MP on/off x conversion through convert_to_TOUGH2() or the type setter; '
        'to_autough2: generated TOUGH2 models with FOFT/COFT/GOFT holding objects; post-conditions are evaluated on the '
        'converted object, on the file it writes (independent reader) and after re-reading that file. '
        'export: rectangular geometries (all atmosphere types and block orders, stepped surfaces) with grids from fromgeo, '
        'drawn rock assignments, boundary blocks of huge / zero volume, generators of Waiwera-supported types incl. TMAK groups, '
        'every supported EOS name given explicitly, through MULTI, or through the simulator string only. '
        'Non-trivial = the model has a generator that must be converted or deleted, a MOP digit that triggers rescaling, '
        'or short/history output; for export: a boundary block or a source outside the first cell. distinct = case JSON.'
        ' Also: MULTI with a blank / None EOS entry; history lists of kinds SHORT does not mention set before the conversion; half of the export cases export the model re-read from its data file.'
        " Rounds 7-10: TOUGH2 models read from a file in another section order; another model converted before the first is looked at; generators in atmosphere blocks; the model's blocks in another order than the geometry's; one SHORT entry per generator of a GOFT block.")
ASSUMPTIONS = ['an AUTOUGH2 model carries its history requests as SHORT output and a TOUGH2 model as FOFT/COFT/GOFT (models mixing both are not generated)',
               'the documented conductivity rescaling is judged only when exactly one of the two MOP conditions (MOP(10)=2; MOP(23)>0 with a '
               'pre-AUTOUGH2.2 or MULKOM simulator) holds; when both hold the case is counted, not judged',
               'GOFT lists blocks holding generators; the corresponding SHORT generator entries are the generators in those blocks']

TOUGH2_TYPES = ['HEAT', 'WATE', 'AIR ', 'MASS', 'DELV']
SUPPORTED_EOS = {'W': 'w', 'EW': 'we', 'EWC': 'wce', 'EWAV': 'wae', 'EWT': 'we', 'EWTD': 'we'}


def conv_case(flavour):
    @st.composite
    def s(draw):
        m = draw(data.model(flavour=flavour, max_blocks=8))
        m['mesh_mode'] = 'infile'; m['xp'] = 'off'
        drawn_order = list(m['sections'])
        m['order'] = 'canonical'
        m['sections'] = [k for k in t2_ref.KEYWORDS if k in m['sections']]
        if flavour == 'AUTOUGH2':
            for k in ('foft', 'coft', 'goft'): m.pop(k, None)
            m['sections'] = [k for k in m['sections'] if k not in ('FOFT', 'COFT', 'GOFT')]
            eos = draw(st.sampled_from(['EW', 'EWAV', 'EWC']))
            m['simulator'] = draw(st.sampled_from(['AUTOUGH2.2', 'AUTOUGH2.2', 'AUTOUGH2  ', 'MULKOM    '])) + eos
            if draw(st.booleans()) and m.get('generators'):
                g0 = dict(m['generators'][0]); g0['type'] = draw(st.sampled_from(['DELG', 'CO2 ', 'MASS'])); g0['ltab'] = None
                g0['time'], g0['rate'], g0['enthalpy'], g0['itab'] = [], [], [], ' '
                m['generators'].append(g0)       # duplicated (block, name) key
        extra = {}
        if flavour != 'AUTOUGH2' and draw(st.booleans()):
            # the TOUGH2 model is not built in memory but read from a file written by another program, whose sections come
            # in the order drawn with the model (any legal order)
            extra['from_file'] = drawn_order
        # another model, with another solver choice, is converted after this one and before this one is looked at
        extra['then_other'] = draw(st.booleans())
        return {'k': 'to_tough2' if flavour == 'AUTOUGH2' else 'to_autough2', 'm': m, 'MP': draw(st.booleans()), **extra,
                'via': draw(st.sampled_from(['method', 'method', 'setter'])),
                'held_history': draw(st.lists(st.sampled_from(['block', 'connection', 'generator']), max_size=2, unique=True))}
    return s()


def export_case():
    @st.composite
    def s(draw):
        rc = {'base': draw(geo.rect_base(4, 4, 4, 0)), 'convention': 0, 'atmos': draw(st.sampled_from([0, 1, 2])),
              'block_order': draw(st.sampled_from([None, 'layer_column', 'dmplex'])), 'ops': [],
              'surfaces': draw(geo.surfaces(4))}
        eosname = draw(st.sampled_from(sorted(SUPPORTED_EOS)))
        gens = []
        for i in range(draw(st.integers(0, 6))):
            gens.append({'blk': draw(st.integers(0, 400)), 'name': draw(st.sampled_from(['wel 1', 'wel 2', 'inj 1', 'src 7'])),
                         'type': draw(st.sampled_from(['MASS', 'HEAT', 'COM1', 'DELG', 'MASS', 'TMAK', 'DMAK'])),
                         'gx': draw(st.sampled_from([-5.0, 2.5, 0.0, 1e3])), 'table': draw(st.booleans()), 'atm': draw(st.integers(0, 4)) == 0})
        return {'k': 'export', 'rc': rc, 'eos': eosname, 'eos_via': draw(st.sampled_from(['argument', 'multi', 'simulator', 'simulator+multi', 'simulator+multi-blank-eos', 'simulator+multi-none-eos', 'multi-padded', 'simulator-padded'])),
                'rocks': draw(st.lists(st.integers(0, 2), min_size=1, max_size=12)),
                'boundary': draw(st.lists(st.tuples(st.integers(0, 400), st.sampled_from(['zero', 'huge', 'large'])), max_size=3)),
                'atmos_volume': draw(st.sampled_from([1e25, 1e25, 1e20])),
                'gens': gens, 'via_file': draw(st.booleans()), 'grid_order': draw(st.sampled_from(['geometry', 'geometry', 'reversed', 'rotated']))}
    return s()


def searches(tier):
    q = tier == 'quick'
    return [Search('to_tough2', 'hyp', lambda: conv_case('AUTOUGH2'), n=1600 if q else 20000, shards=8 if q else 16),
            Search('to_autough2', 'hyp', lambda: conv_case('TOUGH2'), n=1000 if q else 12000, shards=8 if q else 16),
            Search('export', 'hyp', export_case, n=800 if q else 12000, shards=8 if q else 16)]


def allowed_tough2(t):
    return t in TOUGH2_TYPES or t.startswith('COM')


def run_to_tough2(case, R):
    import t2data
    m = case['m']
    with R.lib('build'):
        d = data.build(m)
    # history requests the model already holds (an AUTOUGH2 model may carry FOFT/COFT/GOFT lists as well as SHORT): the
    # kinds SHORT does not list must come through the conversion unchanged
    sh_keys = set((data.extract(d).get('short') or {}).keys())
    held = {}
    for kind in case.get('held_history') or []:
        if kind in sh_keys: continue
        if kind == 'block' and d.grid.num_blocks: d.history_block = [d.grid.blocklist[-1]]; held['foft'] = [d.grid.blocklist[-1].name]
        elif kind == 'connection' and d.grid.num_connections:
            c = d.grid.connectionlist[0]; d.history_connection = [c]; held['coft'] = [[c.block[0].name, c.block[1].name]]
        elif kind == 'generator' and d.grid.num_blocks: d.history_generator = [d.grid.blocklist[0]]; held['goft'] = [d.grid.blocklist[0].name]
    if held: R.label('held-history:' + '+'.join(sorted(held)))
    before = data.extract(d)
    mop = [0] + [int(c) for c in m['param']['mop']]
    sim = m['simulator']
    short0 = copy.deepcopy(before.get('short'))
    gens0 = before.get('generators') or []
    with R.lib('convert'):
        if case['via'] == 'setter' and not case['MP']: d.type = 'TOUGH2'
        else: d.convert_to_TOUGH2(warn=False, MP=case['MP'])
    R.label('via:' + case['via'], 'MP:%s' % case['MP'])
    after = data.extract(d)
    R.check(d.type == 'TOUGH2', 'to_tough2:type', 'type is %r' % d.type)
    R.check(not d.simulator, 'to_tough2:simulator-left', repr(d.simulator))
    R.check('eos' not in d.multi, 'to_tough2:eos-left', repr(d.multi))
    R.check(not d.lineq, 'to_tough2:lineq-left', repr(d.lineq))
    R.check(not d.short_output, 'to_tough2:short-left', repr(d.short_output))
    # generators
    bad = [(g.block, g.name, g.type) for g in d.generatorlist if not allowed_tough2(g.type)]
    R.check(not bad, 'to_tough2:unsupported-generator-kept', 'generators of types TOUGH2 lacks are still in the list: %r' % bad[:4])
    badk = [k for k, g in d.generator.items() if not allowed_tough2(g.type)]
    R.check(not badk, 'to_tough2:unsupported-generator-in-lookup', 'still in the lookup: %r' % badk[:4])
    keep = []
    for g in gens0:
        t = 'COM2' if g['type'] == 'CO2 ' else g['type']
        if allowed_tough2(t):
            g2 = dict(g); g2['type'] = t; keep.append(g2)
    if any(g['type'] == 'CO2 ' for g in gens0): R.label('generator:converted')
    if any(not allowed_tough2('COM2' if g['type'] == 'CO2 ' else g['type']) for g in gens0): R.label('generator:to-delete')
    got = [g for g in (after.get('generators') or []) if allowed_tough2(g['type'])]
    if R.check(len(got) == len(keep), 'to_tough2:supported-generators-changed', '%d supported generators, expected %d' % (len(got), len(keep))):
        for a, b in zip(got, keep): data.cmp_record(R, 'to_tough2:generator', a, b, 'generator %r' % ((b['block'], b['name']),))
    # grid unchanged
    for key in ('blocks', 'connections'):
        R.check(after[key] == before[key], 'to_tough2:grid-changed', '%s differ after conversion' % key)
    # rocks: documented conductivity rescaling
    c10 = mop[10] == 2
    c23 = mop[23] > 0 and ((sim.startswith('AUTOUGH2') and not sim.startswith('AUTOUGH2.2')) or sim.startswith('MULKOM')) and mop[23] in (0, 1)
    if c10 or c23: R.label('rescaling:%s%s' % ('mop10' if c10 else '', 'mop23' if c23 else ''))
    if c10 and c23: R.exclude('rescaling-both-conditions')
    else:
        for a, b in zip(after.get('rocks') or [], before.get('rocks') or []):
            e = dict(b)
            if c10 or c23: e['conductivity'] = b['conductivity'] * (1. - b['porosity'])
            ok = all(a[k] == e[k] for k in e if k != 'conductivity') and abs(a['conductivity'] - e['conductivity']) <= 1e-12 * abs(e['conductivity'])
            R.check(ok, 'to_tough2:rocks', 'rock %r: %r expected %r' % (b['name'], a, e))
    # MOPs the docs name
    opt = [int(x) for x in d.parameter['option']]
    for k in (22, 23, 24): R.check(opt[k] == 0, 'to_tough2:mop%d' % k, 'MOP(%d) = %d' % (k, opt[k]))
    R.check(opt[10] != 2 and opt[12] != 2, 'to_tough2:mop10-12', 'MOP(10)=%d MOP(12)=%d' % (opt[10], opt[12]))
    if case['MP']:
        for k in (14, 17, 20, 21): R.check(opt[k] == 0, 'to_tough2:MP:mop%d' % k, 'MOP(%d) = %d' % (k, opt[k]))
    # history requests: SHORT -> FOFT/COFT/GOFT
    for key, names in held.items():
        got = after.get(key) or []
        got = [list(x) if isinstance(x, (list, tuple)) else x for x in got]
        R.check(got == names, 'to_tough2:held-history-changed:' + key, '%s %r, before the conversion %r (SHORT lists %r)' % (
            key, got, names, sorted(sh_keys)))
    if short0:
        short0 = dict(short0)
        if 'foft' in held: short0['block'] = held['foft']
        if 'coft' in held: short0['connection'] = held['coft']
        R.label('short:' + '+'.join(k for k in ('block', 'connection', 'generator') if short0.get(k)))
        R.check((after.get('foft') or []) == (short0.get('block') or []), 'to_tough2:history-blocks', '%r expected %r' % (after.get('foft'), short0.get('block')))
        R.check((after.get('coft') or []) == (short0.get('connection') or []), 'to_tough2:history-connections', '%r expected %r' % (after.get('coft'), short0.get('connection')))
        eg = list(dict.fromkeys(b for b, _n in (short0.get('generator') or []))) if 'goft' not in held else held['goft']
        R.check(sorted(set(after.get('goft') or [])) == sorted(set(eg)), 'to_tough2:history-generators',
                'GOFT %r expected the blocks of the short-output generators %r' % (after.get('goft'), eg))
    nontriv = bool(short0) or any(not allowed_tough2(g['type']) for g in gens0) or c10 or c23
    R.nontrivial(nontriv)
    # written file and round trip
    f1 = os.path.join(R.tmp, 'conv.dat')
    with R.lib('write'):
        d.write(f1)
    try:
        r1 = t2_ref.read(f1, autough2=False)
    except Exception as e:
        R.fail('to_tough2:written-file-unreadable', repr(e)); return
    for kw in ('SIMUL', 'LINEQ', 'SHORT'):
        R.check(kw not in r1['sections'], 'to_tough2:file-has-%s' % kw, 'sections %r' % r1['sections'])
    with R.lib('read'):
        d2 = t2data.t2data(f1)
    R.check(d2.type == 'TOUGH2', 'to_tough2:reread-type', d2.type)
    e2 = data.extract(d2)
    exp = data.through_format(data.extract(d))
    exp['param']['diff0'] = None       # the TOUGH2 PARAM.1 record has no DIFF0 field
    canon = lambda n: quirk_repair(a3i2_print(n)) if isinstance(n, str) and len(n) == 5 else n
    data.compare(R, 'to_tough2:roundtrip', e2, exp, name_map=canon)


def run_to_autough2(case, R):
    import t2data
    m = case['m']
    if case.get('from_file'):
        from props import c01
        fm = c01.file_form(m); fm['sections'] = [k for k in case['from_file'] if k in m['sections']]
        f0 = os.path.join(R.tmp, 'source.dat')
        t2_ref.write(f0, fm, style='e', au=False)
        R.label('source:read-from-a-file:' + ('canonical-order' if fm['sections'] == m['sections'] else 'other-section-order'))
        # (a Fortran program drops the exponent letter of three-digit exponents: such a file is read with the Fortran
        # read functions, as the user guide prescribes - the same decision as in C01)
        import re, fixed_format_file as fff
        needs_fortran = re.search(r'[0-9.][+-][0-9]{3}', open(f0).read()) is not None
        with R.lib('read-source'):
            d = t2data.t2data(f0, read_function=fff.fortran_read_function) if needs_fortran else t2data.t2data(f0)
    else:
        with R.lib('build'):
            d = data.build(m)
    before = data.extract(d)
    gens0 = before.get('generators') or []
    with R.lib('convert'):
        if case['via'] == 'setter' and not case['MP']: d.type = 'AUTOUGH2'
        else: d.convert_to_AUTOUGH2(warn=False, MP=case['MP'])
    R.label('via:' + case['via'], 'MP:%s' % case['MP'])
    after = data.extract(d)
    if case.get('then_other'):
        # a second, unrelated model (the other linear-solver choice) converted afterwards: this model is what it was
        R.label('then:another-model-converted')
        m2 = copy.deepcopy(m)
        t_now = (m.get('solver') or {}).get('type') or int(m['param']['mop'][20])
        t_other = 1 if [2, 1, 2, 2, 1, 2, 1][t_now if 0 <= t_now <= 6 else 0] == 2 else 2
        if m2.get('solver'): m2['solver']['type'] = t_other
        else: m2['param']['mop'] = m2['param']['mop'][:20] + str(t_other) + m2['param']['mop'][21:]
        with R.lib('convert-another'):
            d_other = data.build(m2)
            d_other.convert_to_AUTOUGH2(warn=False, MP=False)
        again = data.extract(d)
        if again != after:
            k = next((k for k in after if again.get(k) != after[k]), '?')
            R.fail('to_autough2:changed-by-a-later-conversion:' + k, 'after another model was converted this one has %s = %r, it had %r' % (
                k, again.get(k), after[k]))
    R.check(d.type == 'AUTOUGH2', 'to_autough2:type', 'type is %r' % d.type)
    R.check(bool(d.simulator) and d.simulator.rstrip().endswith('EW'), 'to_autough2:simulator', repr(d.simulator))
    R.check(not d.solver, 'to_autough2:solver-left', repr(d.solver))
    R.check(bool(d.lineq), 'to_autough2:no-lineq', repr(d.lineq))
    if before.get('multi'): R.check(d.multi.get('eos') == 'EW', 'to_autough2:multi-eos', repr(d.multi))
    R.check(not (d.history_block or d.history_connection or d.history_generator), 'to_autough2:history-left',
            'FOFT/COFT/GOFT lists not emptied')
    for key in ('blocks', 'connections', 'rocks', 'generators'):
        R.check(after.get(key) == before.get(key), 'to_autough2:%s-changed' % key, '%s differ after conversion' % key)
    opt = [int(x) for x in d.parameter['option']]
    for k in (21, 22, 23, 24): R.check(opt[k] == 0, 'to_autough2:mop%d' % k, 'MOP(%d) = %d' % (k, opt[k]))
    sh = after.get('short') or {}
    hist = any(before.get(k) for k in ('foft', 'coft', 'goft'))
    if hist: R.label('history:' + '+'.join(k for k in ('foft', 'coft', 'goft') if before.get(k)))
    R.check((sh.get('block') or []) == (before.get('foft') or []), 'to_autough2:short-blocks', '%r expected %r' % (sh.get('block'), before.get('foft')))
    R.check((sh.get('connection') or []) == (before.get('coft') or []), 'to_autough2:short-connections', '%r expected %r' % (sh.get('connection'), before.get('coft')))
    gblocks = [b for b in (before.get('goft') or []) if any(g['block'] == b for g in gens0)]
    got = sorted(set(b for b, _n in (sh.get('generator') or [])))
    # GOFT asks by block: every generator in a requested block gets its SHORT entry (two in one block: two entries)
    want_pairs = sorted((g_['block'], g_['name']) for g_ in gens0 if g_['block'] in (before.get('goft') or []))
    got_pairs = sorted((b_, n_) for b_, n_ in (sh.get('generator') or []))
    if len(set(want_pairs)) == len(want_pairs):
        if len(want_pairs) > len(set(b_ for b_, _n in want_pairs)): R.label('history:goft-block-with-several-generators')
        R.check(got_pairs == want_pairs, 'to_autough2:short-generator-entries', 'SHORT generators %r; the generators in the GOFT blocks are %r' % (got_pairs, want_pairs))
    R.check(got == sorted(set(gblocks)), 'to_autough2:short-generators',
            'SHORT generators in blocks %r; GOFT requested blocks %r (of which %r hold generators)' % (got, before.get('goft'), gblocks))
    R.nontrivial(hist or bool(before.get('solver')))
    f1 = os.path.join(R.tmp, 'conv.dat')
    with R.lib('write'):
        d.write(f1)
    try:
        r1 = t2_ref.read(f1, autough2=True)
    except Exception as e:
        R.fail('to_autough2:written-file-unreadable', repr(e)); return
    R.check('SIMUL' in r1['sections'] and 'SOLVR' not in r1['sections'] and not (set(r1['sections']) & {'FOFT', 'COFT', 'GOFT'}),
            'to_autough2:file-sections', 'sections %r' % r1['sections'])
    with R.lib('read'):
        d2 = t2data.t2data(f1)
    R.check(d2.type == 'AUTOUGH2', 'to_autough2:reread-type', d2.type)
    e2 = data.extract(d2)
    exp = data.through_format(data.extract(d))
    canon = lambda n: quirk_repair(a3i2_print(n)) if isinstance(n, str) and len(n) == 5 else n
    data.compare(R, 'to_autough2:roundtrip', e2, exp, name_map=canon)


def run_export(case, R):
    import t2data, t2grids, mulgrids, json as _json
    try:
        g = geo.build(case['rc'])
    except mulgrids.NamingConventionError:
        R.label('build:naming-capacity'); return
    d = t2data.t2data()
    d.title = 'export'
    d.grid = t2grids.t2grid().fromgeo(g)
    rocks = [t2grids.rocktype('rock%d' % i, density=2000. + i, porosity=0.1 * (i + 1)) for i in range(3)]
    for r in rocks: d.grid.add_rocktype(r)
    natm = g.num_atmosphere_blocks
    und = d.grid.blocklist[natm:]
    for i, b in enumerate(und): b.rocktype = rocks[case['rocks'][i % len(case['rocks'])]]
    for i, kind in case['boundary']:
        if und: und[i % len(und)].volume = 0.0 if kind == 'zero' else 1e22 if kind == 'large' else 1e30
    av = float(case.get('atmos_volume', 1e25))      # the documented threshold argument: blocks at or above it are boundary blocks
    R.label('atmos_volume:%g' % av)
    if case.get('via_file'):
        # the model as a user gets it from a data file (blocks carry no in-memory atmosphere flag there)
        fn = os.path.join(R.tmp, 'export.dat')
        with R.lib('write'): d.write(fn)
        with R.lib('read'): d = t2data.t2data(fn)
        und = d.grid.blocklist[natm:]
        R.label('export:model-read-from-file')
    eos = case['eos']
    via = case['eos_via']
    R.label('eos:' + eos, 'eos-via:' + via, 'atmos:%d' % g.atmosphere_type, 'order:%s' % g.block_order)
    arg = None
    if via == 'argument': arg = eos
    elif via == 'multi': d.multi = {'eos': eos}
    elif via == 'simulator': d.simulator = 'AUTOUGH2.2' + eos
    elif via == 'simulator-padded': d.simulator = ('AUTOUGH2.2' + eos).ljust(24)       # as read from a SIMUL line with trailing blanks
    elif via == 'multi-padded': d.multi = {'eos': (eos + '    ')[:4] if len(eos) < 4 else eos}
    else:
        d.simulator = 'AUTOUGH2.2' + eos
        d.multi = {'num_components': 1, 'num_equations': 2, 'num_phases': 2, 'num_secondary_parameters': 6}
        # a MULTI line without an EOS name reads back with a blank (or absent) EOS entry: the simulator string decides
        if via == 'simulator+multi-blank-eos': d.multi['eos'] = ''
        elif via == 'simulator+multi-none-eos': d.multi['eos'] = None
    d.parameter['default_incons'] = [1.e5, 20.]
    d.diffusion = [[-1e-6, -1e-6], [-1e-6, -1e-6]]
    with R.lib('eos_json'):
        ej, tracer = d.eos_json(arg)
    R.check(ej.get('eos', {}).get('name') == SUPPORTED_EOS[eos], 'export:eos-name', 'eos %r gives %r, expected %r' % (eos, ej, SUPPORTED_EOS[eos]))
    # rocks partition
    with R.lib('rocks_json'):
        rj = d.rocks_json(g, av, 'xyz')
    cells = [c for t in rj['rock']['types'] for c in t['cells']]
    expected = [i - natm for i, n in enumerate(g.block_name_list) if i >= natm and 0. < d.grid.block[n].volume < av]
    R.check(sorted(cells) == sorted(expected) and len(set(cells)) == len(cells), 'export:rock-cells-partition',
            'cells %r..., expected exactly the non-boundary blocks %r...' % (sorted(cells)[:6], sorted(expected)[:6]))
    for t in rj['rock']['types']:
        for c in t['cells']:
            if not (isinstance(c, int) and 0 <= c + natm < len(g.block_name_list)):
                R.fail('export:rock-cell-out-of-range', 'cell index %r under %r: the geometry has %d underground blocks' % (
                    c, t['name'], len(g.block_name_list) - natm)); break
            n = g.block_name_list[c + natm]
            if d.grid.block[n].rocktype.name != t['name']:
                R.fail('export:rock-cell-wrong-type', 'cell %d (block %r) listed under %r, block has %r' % (c, n, t['name'], d.grid.block[n].rocktype.name)); break
    if case['boundary']: R.label('export:boundary-blocks')
    # sources
    go = case.get('grid_order', 'geometry')
    if go != 'geometry' and d.grid.num_blocks > natm + 1:
        # the model's block list in another order than the geometry's (an ELEME section written by another tool, blocks
        # added by hand): cell indices are those of the geometry
        R.label('export:grid-blocks-' + go)
        names_now = [b.name for b in d.grid.blocklist]
        tail = names_now[natm:]
        tail = tail[::-1] if go == 'reversed' else tail[len(tail) // 2:] + tail[:len(tail) // 2]
        with R.lib('grid.reorder'): d.grid.reorder(names_now[:natm] + tail)
    unds = [b.name for b in und]
    gl = []
    for i, gm in enumerate(case['gens']):
        if not unds: break
        blk = unds[gm['blk'] % len(unds)]
        if gm.get('atm') and natm > 0:
            # a generator in an atmosphere block (a surface flux): not a cell of the Waiwera mesh, but still one source
            blk = g.block_name_list[gm['blk'] % natm]; R.label('export:generator-in-an-atmosphere-block')
        kw = {}
        if gm['table'] and gm['type'] in ('MASS', 'HEAT', 'COM1'):
            kw = {'ltab': 3, 'time': [0., 1e6, 2e6], 'rate': [gm['gx'], gm['gx'] * 0.5, 0.0]}
        gen = t2data.t2generator(name=gm['name'], block=blk, type=gm['type'], gx=gm['gx'], ex=1.e5 if gm['type'] != 'HEAT' else 0.0,
                                 hg=0.0, fg=0.0, **kw)
        d.add_generator(gen); gl.append(gen)
    if gl:
        try:
            gj = d.generators_json(g, SUPPORTED_EOS[eos])
        except Exception as e:
            if 'not supported' in str(e):
                R.label('export:refused:' + str(e)[:40]); R.nontrivial(bool(case['boundary'])); return      # documented refusal
            with R.lib('generators_json'): raise
        src = gj.get('source', [])
        non_group = [x for x in gl if x.type != 'TMAK']
        if R.check(len(src) == len(non_group), 'export:source-count', '%d sources for %d non-group generators' % (len(src), len(non_group))):
            for s_, x in zip(src, non_group):
                ci = g.block_name_index[x.block] - natm
                if ci < 0: continue        # (atmosphere block: the property names no cell for it)
                R.check(s_.get('cell') == ci, 'export:source-cell', 'generator %r in block %r (cell %d): source cell %r' % (x.name, x.block, ci, s_.get('cell')))
                if ci == 0: R.label('export:source-in-cell-0')
        try: _json.dumps(gj)
        except TypeError as e: R.fail('export:not-json-serialisable', repr(e))
    R.nontrivial(bool(case['boundary']) or bool(gl))


def run_case(case, R):
    import t2data
    saved = list(t2data.t2_extra_precision_sections)
    try:
        {'to_tough2': run_to_tough2, 'to_autough2': run_to_autough2, 'export': run_export}[case['k']](case, R)
    finally:
        t2data.t2_extra_precision_sections[:] = saved


LEVEL_TEXT = ('Hypothesis-generated AUTOUGH2/TOUGH2 models converted both ways and judged by post-condition predicates on the '
              'converted object, on the file it writes (independent reader) and after re-reading it; generated Waiwera export '
              'inputs judged by partition / index / count predicates. Refutes only.')
LEVEL_NOTE = 'Trusted: gens/data.py extractor, refs/t2_ref.py reader; the list of TOUGH2 generator types {HEAT, WATE, AIR, MASS, DELV, COMn} from the conversion docs.'
TECHNIQUE = 'property-based testing (Hypothesis) with post-condition predicates and a file round-trip oracle'
