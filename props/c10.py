"""C10 - geometry stays internally consistent under any sequence of edits."""
import os, itertools, math
from hypothesis import strategies as st
from vlib.core import Search, HarnessError
from gens import geo
from refs import geom_ref

ID = 'C10'
CASE_TIMEOUT = 600
RULE = ('histories of geometry edits as JSON op lists with index arguments resolved against the current state. enum: on 2x2, '
        '3x2 rectangular and a hand-built triangle/quad/pentagon geometry, EVERY history of the stated length over the '
        'column/layer editing alphabet (refine / bisect with every non-empty column subset up to the stated size, split_column at '
        'every node, rename_column (fresh, swap, cycle), delete_column, add_column on a boundary edge, delete+add connection, '
        'decompose_columns, reduce to every connected subset, snap to layers, refine_layers of every layer subset, add/delete/'
        'rename layer, add/delete well, translate, rotate, copy_layers_from, file round trip); random: Hypothesis op lists up to 25 '
        'long on recipe geometries (rectangular, shipped pieces up to 300 columns, hand-built). After every operation an '
        'independently recomputed structural invariant is evaluated clause by clause; a finding is named (operation, clause). '
        'Non-trivial = a history with at least 2 different operation kinds; distinct = history JSON.'
        ' Also: reduce() from any state (always held to its promise), adders called with a name already present (documented no-op), copied layer structures starting above / below the current top.'
        ' Rounds 7-10: refine with bisect_edge_columns; renames refused for an unknown name at every position; the donor of copy_layers lives on and is edited (also with another surface-layer name); decompose_columns from any state, held to its closing work; untidy vertical shifts.')
ASSUMPTIONS = ['preconditions from docs/code honoured by construction: refine on 3/4-sided columns, split_column on 4-sided columns, '
               'dmplex order only without many-sided columns, names within naming capacity, reduce to a connected subset',
               'raw list mutators whose derived state is documented to be refreshed by the caller are judged like every other edit '
               '(the property quantifies over them); pairs (operation, clause) recorded as known findings are refreshed by the harness '
               'afterwards so later operations are judged from a consistent state']


# ---------------------------------------------------------------------------------------------- invariant
def shared_nodes(c0, c1):
    return [n for n in c0.node if n in c1.node]


def edge_set(col):
    n = col.num_nodes
    return set(frozenset((id(col.node[i]), id(col.node[(i + 1) % n]))) for i in range(n))


def invariant(R, g, op, mesh_valid=False):
    """returns set of failed clause names"""
    failed = set()

    def chk(cond, clause, detail):
        if not cond:
            failed.add(clause)
            R.fail('%s:%s' % (op, clause), detail() if callable(detail) else detail)
        return cond
    # G1 lookups vs lists
    for what, lst, dct in (('node', g.nodelist, g.node), ('column', g.columnlist, g.column), ('layer', g.layerlist, g.layer),
                           ('well', g.welllist, g.well)):
        names = [x.name for x in lst]
        chk(len(set(names)) == len(names), 'lookup:%s-names-not-unique' % what, lambda: repr([n for n in names if names.count(n) > 1][:4]))
        chk(set(dct.keys()) == set(names), 'lookup:%s-keys-vs-list' % what,
            lambda: 'only in lookup %r, only in list %r' % (sorted(set(dct) - set(names))[:4], sorted(set(names) - set(dct))[:4]))
        chk(all(dct.get(x.name) is x for x in lst), 'lookup:%s-wrong-object' % what, 'lookup returns a different object')
    cnames = [(c.column[0].name, c.column[1].name) for c in g.connectionlist]
    chk(len(set(cnames)) == len(cnames), 'lookup:connection-names-not-unique', lambda: repr(cnames[:4]))
    chk(set(g.connection.keys()) == set(cnames), 'lookup:connection-keys-vs-current-names',
        lambda: 'only in lookup %r, only from current column names %r' % (sorted(set(g.connection) - set(cnames))[:3], sorted(set(cnames) - set(g.connection))[:3]))
    chk(all(g.connection.get(k) is c for k, c in zip(cnames, g.connectionlist)), 'lookup:connection-wrong-object', 'lookup returns a different object')
    cols = set(id(c) for c in g.columnlist)
    chk(all(id(c) in cols for con in g.connectionlist for c in con.column), 'connection:joins-column-not-in-geometry', 'a connection refers to a column that is not in the geometry')
    nodes = set(id(n) for n in g.nodelist)
    chk(all(id(n) in nodes for c in g.columnlist for n in c.node), 'column:uses-node-not-in-geometry', 'a column uses a node that is not in the geometry')
    # G2 back references
    for n in g.nodelist:
        exp = set(id(c) for c in g.columnlist if n in c.node)
        if set(id(c) for c in n.column) != exp:
            chk(False, 'backref:node.column', 'node %r knows %r, used by %r' % (n.name, sorted(c.name for c in n.column), sorted(c.name for c in g.columnlist if n in c.node))); break
    for c in g.columnlist:
        exp = set(id(k) for k in g.connectionlist if c in k.column)
        if set(id(k) for k in c.connection) != exp:
            chk(False, 'backref:column.connection', 'column %r records %d connections, %d mention it' % (c.name, len(c.connection), len(exp))); break
    # G3 neighbours
    for c in g.columnlist:
        exp = set(id(k.column[0] if k.column[1] is c else k.column[1]) for k in g.connectionlist if c in k.column)
        if set(id(x) for x in c.neighbour) != exp:
            chk(False, 'neighbour:column.neighbour', 'column %r neighbours %r, other ends of its connections %r' % (
                c.name, sorted(x.name for x in c.neighbour),
                sorted((k.column[0] if k.column[1] is c else k.column[1]).name for k in g.connectionlist if c in k.column))); break
    # G4 connection nodes
    for k in g.connectionlist:
        sh = shared_nodes(k.column[0], k.column[1])
        ok = k.node is not None and len(k.node) == 2 and set(id(n) for n in k.node) <= set(id(n) for n in sh) and \
            frozenset(id(n) for n in k.node) in edge_set(k.column[0]) and frozenset(id(n) for n in k.node) in edge_set(k.column[1])
        if not ok:
            chk(False, 'connection:nodes-not-the-shared-edge', 'connection %r nodes %r, columns share %r' % (
                (k.column[0].name, k.column[1].name), None if k.node is None else [n.name for n in k.node], [n.name for n in sh])); break
    # G5 orientation / area
    for c in g.columnlist:
        a = geom_ref.area_exact([n.pos for n in c.node])
        scale = max(1.0, max(abs(float(v)) for n in c.node for v in n.pos))
        if not (a > 0 and abs(c.area - a) <= 1e-9 * abs(a) + 1e-12 * scale * scale):
            chk(False, 'column:orientation-or-area', 'column %r: independent signed area %r, col.area %r' % (c.name, a, c.area)); break
    # G6 layer counts
    und = g.layerlist[1:]
    for c in g.columnlist:
        n = len([l for l in und if l.bottom < c.surface]) if c.surface is not None else len(und)
        if c.num_layers != n:
            chk(False, 'column:num_layers', 'column %r (surface %r) has num_layers %r, %d layers lie below its surface' % (c.name, c.surface, c.num_layers, n)); break
    # G7 name lists fresh
    if not (failed & {'lookup:layer-names-not-unique', 'lookup:column-names-not-unique'}):
        saved = (g.block_name_list, g.block_name_index, g.block_connection_name_list, g.block_connection_name_index)
        try:
            g.setup_block_name_index(); g.setup_block_connection_name_index()
            fresh = (g.block_name_list, g.block_connection_name_list)
        except Exception as e:
            fresh = None
            chk(False, 'namelist:cannot-recompute', repr(e)[:200])
        finally:
            g.block_name_list, g.block_name_index, g.block_connection_name_list, g.block_connection_name_index = saved
        if fresh is not None:
            chk(list(saved[0]) == list(fresh[0]), 'namelist:block_name_list-stale', lambda: '%d names held, %d after recomputation' % (len(saved[0]), len(fresh[0])))
            chk([tuple(x) for x in saved[2]] == [tuple(x) for x in fresh[1]], 'namelist:block_connection_name_list-stale',
                lambda: '%d names held, %d after recomputation' % (len(saved[2]), len(fresh[1])))
    # G8 mesh validity
    if mesh_valid:
        by_edge = {}
        for c in g.columnlist:
            for e in edge_set(c): by_edge.setdefault(e, []).append(c)
        connected = set(frozenset((id(k.column[0]), id(k.column[1]))) for k in g.connectionlist)
        sharing = set(frozenset((id(a), id(b))) for cs in by_edge.values() if len(cs) == 2 for a, b in [cs])
        chk(all(len(cs) <= 2 for cs in by_edge.values()), 'mesh:edge-shared-by-more-than-two-columns', 'an edge belongs to 3 or more columns')
        chk(sharing <= connected, 'mesh:missing-connection', lambda: '%d pairs of columns share an edge without a connection' % len(sharing - connected))
        if mesh_valid == 'no-missing-connection': return failed
        chk(connected <= sharing, 'mesh:extra-connection', lambda: '%d connections join columns that share no edge' % len(connected - sharing))
        chk(all(len(n.column) > 0 for n in g.nodelist), 'mesh:orphan-node', lambda: 'orphan nodes %r' % [n.name for n in g.nodelist if not n.column][:4])
    return failed


def refresh(g):
    """bring derived state up to date (used only after a known finding was reported)"""
    for c in g.columnlist:
        if c.surface is None: c.num_layers = len(g.layerlist) - 1
        else: g.set_column_num_layers(c)
    for c in g.columnlist: c.neighbour = set()
    g.identify_neighbours()
    g.setup_block_name_index(); g.setup_block_connection_name_index()


# ---------------------------------------------------------------------------------------------- operations
PROMISE_VALID = {'refine', 'decompose', 'reduce', 'split_column', 'file', 'refine_layers'}


def boundary_edges(g):
    cnt = {}
    for c in g.columnlist:
        n = c.num_nodes
        for i in range(n):
            e = frozenset((c.node[i].name, c.node[(i + 1) % n].name))
            cnt.setdefault(e, []).append((c, c.node[i], c.node[(i + 1) % n]))
    return [v[0] for e, v in sorted(cnt.items(), key=lambda kv: sorted(kv[0])) if len(v) == 1]


def connected_subset(g, seed, n):
    return geo.bfs_columns(g, seed, n)


def apply_op(R, g, op, chars):
    """returns (g, kind or None)"""
    import mulgrids, numpy as np
    k = op['op']
    nc = g.num_columns
    und = g.layerlist[1:]
    if k == 'refine':
        cols = list(dict((c.name, c) for c in (g.columnlist[i % nc] for i in op['cols'])).values())
        if any(c.num_nodes not in (3, 4) for c in g.columnlist): return g, None
        if g.num_nodes + 5 * len(cols) + 8 > geo.node_capacity(g.convention): return g, None
        kw = {}
        if op.get('edge'):
            # bisect_edge_columns: some of the columns just outside the refined region (two of them may be neighbours)
            cand = geo.transition_candidates(g, cols, op.get('bisect', False))
            if cand:
                kw['bisect_edge_columns'] = list(dict((x.name, x) for x in [cand[i % len(cand)] for i in op['edge']]).values())
                R.label('refine:bisect_edge_columns:%s' % ('1' if len(kw['bisect_edge_columns']) == 1 else '2+'))
        g.refine(cols, bisect=op.get('bisect', False), chars=chars, **kw)
    elif k == 'split_column':
        c = g.columnlist[op['col'] % nc]
        if c.num_nodes != 4 or g.num_columns + 1 > geo.node_capacity(g.convention): return g, None
        nname = c.node[op['node'] % 4].name
        ok = g.split_column(c.name, nname, chars=chars)
        if not R.check(ok is True, 'split_column:refused', 'split_column(%r, %r) returned %r' % (c.name, nname, ok)): return g, None
    elif k == 'rename_column':
        src = list(dict.fromkeys(g.columnlist[i % nc].name for i in op['cols']))
        kind = op.get('kind', 'fresh')
        L = g.colname_length
        if kind == 'fresh':
            used = set(c.name for c in g.columnlist) | set(n.name for n in g.nodelist)
            tg = []
            for a in 'zyxwvu':
                for b in 'zyxwvu':
                    nm = (a + b).rjust(L) if g.convention in (0, 3) else None
                    if nm and nm not in used and len(tg) < len(src): tg.append(nm); used.add(nm)
            if len(tg) < len(src): return g, None
        elif kind == 'swap':
            if len(src) < 2: return g, None
            tg = src[:2][::-1] + src[2:]
        else:
            if len(src) < 2: return g, None
            tg = src[1:] + src[:1]
        R.label('rename_column:' + kind)
        if op.get('missing') is not None:
            # a name that is no column of the geometry somewhere in the list: the call is refused (False or KeyError) and is
            # then not an edit - every column still answers to the name it had
            pos = op['missing'] % (len(src) + 1)
            R.label('rename_column:refused-missing-name-%s' % ('first' if pos == 0 else 'later'))
            names0 = [c.name for c in g.columnlist]
            bad = '?' * L
            try:
                ok = g.rename_column(src[:pos] + [bad] + src[pos:], tg[:pos] + ['!' * L] + tg[pos:])
            except KeyError:
                ok = False
            R.check(ok is False, 'rename_column:not-refused', 'rename_column with the unknown column %r returned %r' % (bad, ok))
            R.check([c.name for c in g.columnlist] == names0, 'rename_column:refused-call-renamed-columns',
                    'after the refused call the columns are called %r, before %r' % ([c.name for c in g.columnlist][:6], names0[:6]))
            return g, k
        ok = g.rename_column(list(src), list(tg))
        R.check(ok is True, 'rename_column:refused', 'rename_column(%r, %r) returned %r' % (src, tg, ok))
    elif k == 'delete_column':
        if nc <= 1: return g, None
        g.delete_column(g.columnlist[op['col'] % nc].name)
    elif k == 'add_column':
        be = boundary_edges(g)
        if not be or g.num_nodes + 1 > geo.node_capacity(g.convention): return g, None
        col, n1, n2 = be[op['edge'] % len(be)]
        mid = 0.5 * (n1.pos + n2.pos)
        out = mid - col.centroid
        p = mid + out * (0.6 / max(1e-12, float(np.linalg.norm(out)))) * float(np.linalg.norm(n2.pos - n1.pos))
        justfn = [str.ljust, str.rjust][g.right_justified_names]
        nname, _ = g.new_node_name(justfn=justfn, chars=chars)
        newnode = mulgrids.node(nname, p)
        g.add_node(newnode)
        cname, _ = g.new_column_name(justfn=justfn, chars=chars)
        newcol = mulgrids.column(cname, [n1, n2, newnode], surface=col.surface)
        g.add_column(newcol)
        g.set_column_num_layers(newcol) if newcol.surface is not None else None
        if newcol.surface is None: newcol.num_layers = len(g.layerlist) - 1
        g.add_connection(mulgrids.connection([col, newcol]))
    elif k == 'readd_column':
        # a column taken out and the SAME object put back (with its connections, and the name lists refreshed the documented way)
        if g.num_columns < 2: return g, None
        col = g.columnlist[op['col'] % g.num_columns]
        partners = sorted((c for c in g.columnlist if c is not col and any(col in k2.column and c in k2.column for k2 in g.connectionlist)),
                          key=lambda c: c.name)
        g.delete_column(col.name)
        g.add_column(col)
        for c in partners: g.add_connection(mulgrids.connection([col, c]))
        g.setup_block_name_index(); g.setup_block_connection_name_index()
    elif k == 'add_duplicate':
        # the adders document: "if one with the specified name already exists, no new one is added" - a no-op
        what = op['what']
        if what == 'column':
            if g.num_columns < 2: return g, None
            a = g.columnlist[op['i'] % g.num_columns]; b = g.columnlist[(op['i'] + 1) % g.num_columns]
            g.add_column(mulgrids.column(a.name, list(b.node), surface=b.surface))      # a's name on b's nodes
        elif what == 'node':
            a = g.nodelist[op['i'] % g.num_nodes]
            g.add_node(mulgrids.node(a.name, a.pos + np.array([1.0, 1.0])))
        elif what == 'layer':
            a = g.layerlist[op['i'] % len(g.layerlist)]
            g.add_layer(mulgrids.layer(a.name, a.bottom - 1.0, a.centre))
        elif what == 'well':
            if not g.welllist: return g, None
            a = g.welllist[op['i'] % len(g.welllist)]
            g.add_well(mulgrids.well(a.name, [np.array([0., 0., 0.]), np.array([0., 0., -1.])]))
        else:
            if not g.connectionlist: return g, None
            con = g.connectionlist[op['i'] % g.num_connections]
            g.add_connection(mulgrids.connection([con.column[0], con.column[1]]))
    elif k == 'readd_connection':
        if not g.connectionlist: return g, None
        con = g.connectionlist[op['con'] % g.num_connections]
        names = (con.column[0].name, con.column[1].name)
        g.delete_connection(names)
        g.add_connection(mulgrids.connection([con.column[0], con.column[1]]))
    elif k == 'delete_connection':
        if not g.connectionlist: return g, None
        con = g.connectionlist[op['con'] % g.num_connections]
        g.delete_connection((con.column[0].name, con.column[1].name))
    elif k == 'add_node':
        if g.num_nodes + 1 > geo.node_capacity(g.convention): return g, None
        justfn = [str.ljust, str.rjust][g.right_justified_names]
        nname, _ = g.new_node_name(justfn=justfn, chars=chars)
        b = g.bounds
        g.add_node(mulgrids.node(nname, np.array([b[1][0] + 10., b[1][1] + 10.])))
    elif k == 'delete_orphan_node':
        orph = [n for n in g.nodelist if not n.column]
        if not orph: return g, None
        g.delete_node(orph[0].name)
    elif k == 'decompose':
        if g.num_nodes + 3 * nc > geo.node_capacity(g.convention): return g, None
        g.decompose_columns(chars=chars)
    elif k == 'reduce':
        n = 1 + op['n'] % nc
        g.reduce(connected_subset(g, op['seed'], n))
    elif k == 'snap':
        if any(c.num_layers <= 1 for c in g.columnlist): return g, None      # snapping may not remove a column's only layer
        g.snap_columns_to_layers(op.get('min', 1.0))
    elif k == 'snap_nearest':
        if any(c.num_layers <= 1 for c in g.columnlist): return g, None
        g.snap_columns_to_nearest_layers()
    elif k == 'set_surface':
        c = g.columnlist[op['col'] % nc]
        lay = und[op['lay'] % len(und)]
        if lay is und[-1] and op['frac'] <= 0: return g, None       # surfaces stay above the bottom of the model
        c.surface = float(lay.bottom + op['frac'] * (lay.top - lay.bottom))
        g.set_column_num_layers(c)
        g.setup_block_name_index(); g.setup_block_connection_name_index()
    elif k == 'fit_surface':
        b = g.bounds
        top, bot = g.layerlist[0].bottom, g.layerlist[-1].bottom
        pts = []
        for i, (fx, fy, fz) in enumerate(op['data']):
            pts.append([b[0][0] + fx * (b[1][0] - b[0][0]), b[0][1] + fy * (b[1][1] - b[0][1]), bot + (0.55 + 0.45 * fz) * (top - bot)])
        bad = lambda: any(c.surface is not None and not (c.surface > g.layerlist[-1].bottom) for c in g.columnlist)   # NaN or too low
        if nc < 3: return g, None          # the fit is under-determined on one or two columns (NaN elevations)
        try:
            g.fit_surface(np.array(pts), silent=True, layer_snap=op.get('snap', 0.0))
        except IndexError:
            if bad():
                R.label('fit_surface:fitted-below-model-bottom'); return g, None     # out of domain: stops the history
            raise
        if bad():
            R.label('fit_surface:fitted-below-model-bottom'); return g, None
    elif k == 'refine_layers':
        lays = list(dict((l.name, l) for l in (und[i % len(und)] for i in op['layers'])).values())
        if len(und) + len(lays) * (op.get('factor', 2) - 1) > geo.layer_capacity(g.convention): return g, None
        g.refine_layers(lays, factor=op.get('factor', 2), chars=chars)
    elif k == 'add_layer':
        if len(und) + 1 > geo.layer_capacity(g.convention): return g, None
        bot = g.layerlist[-1]
        justfn = [str.ljust, str.rjust][g.right_justified_names]
        used = set(l.name for l in g.layerlist)
        i = len(g.layerlist)
        while True:
            nm = g.layer_name_from_number(i, justfn=justfn, chars=chars)
            if nm not in used: break
            i += 1
        th = op.get('thickness', 7.0)
        g.add_layer(mulgrids.layer(nm, bot.bottom - th, bot.bottom - 0.5 * th, bot.bottom))
    elif k == 'delete_layer':
        if len(und) <= 1 or any(c.num_layers <= 1 for c in g.columnlist): return g, None
        g.delete_layer(g.layerlist[-1].name)
    elif k == 'rename_layer':
        lay = und[op['lay'] % len(und)]
        used = set(l.name for l in g.layerlist)
        L = g.layername_length
        nm = next((x for x in ((a + b)[-L:].rjust(L) for a in 'zyx' for b in 'zyxw') if x not in used and (g.convention != 0)), None)
        if g.convention == 0:
            nm = next(('%2d' % n for n in range(98, 60, -1) if '%2d' % n not in used), None)
        if nm is None: return g, None
        ok = g.rename_layer(lay.name, nm)
        R.check(ok is True, 'rename_layer:refused', repr(ok))
    elif k == 'add_well':
        b = g.bounds
        nm = 'W%4d' % (len(g.welllist) + 1)
        if nm in g.well: return g, None
        g.add_well(mulgrids.well(nm, [np.array([b[0][0] + 1., b[0][1] + 1., g.layerlist[0].bottom]),
                                      np.array([b[0][0] + 1., b[0][1] + 1., g.layerlist[-1].bottom])]))
    elif k == 'delete_well':
        if not g.welllist: return g, None
        g.delete_well(g.welllist[op['w'] % len(g.welllist)].name)
    elif k == 'translate':
        g.translate(np.array(op['shift'], dtype=float), wells=True)
    elif k == 'rotate':
        g.rotate(op['angle'], wells=True)
    elif k == 'copy_layers':
        other = mulgrids.mulgrid().rectangular([10.], [10.], op['dz'], origin=[0., 0., g.layerlist[0].bottom + op.get('top', 0.)], convention=g.convention)
        if len(op['dz']) > geo.layer_capacity(g.convention): return g, None
        if op.get('top_name'):
            # the donor's surface layer carries another name than this geometry's
            nm_ = op['top_name'].rjust(len(other.layerlist[0].name))[:len(other.layerlist[0].name)]
            if nm_ not in other.layer: other.rename_layer(other.layerlist[0].name, nm_)
        g.copy_layers_from(other)
        g._verif_donor = other         # the geometry the layers were copied from lives on (see 'edit_donor')
    elif k == 'edit_donor':
        # the two geometries are separate things after the copy: editing the donor's layers is no edit of this geometry
        other = getattr(g, '_verif_donor', None)
        if other is None: return g, None
        R.label('edit_donor:' + op['how'])
        if op['how'] == 'translate': other.translate(np.array([0., 0., float(op.get('dz', 7.5))]))
        elif op['how'] == 'rename': other.rename_layer(other.layerlist[-1].name, 'zz'.rjust(len(other.layerlist[-1].name)))
        else: other.layerlist[-1].bottom -= 3.0
    elif k == 'file':
        if not g.right_justified_names: return g, None
        fn = os.path.join(R.tmp, 'g.dat')
        g.write(fn)
        g = mulgrids.mulgrid(fn)
    else:
        raise HarnessError('unknown op %r' % (op,))
    return g, k


def mesh_is_valid(g):
    sub = type_of_res()()
    failed = invariant(sub, g, 'probe', mesh_valid=True)
    return not any(f.startswith('mesh:') for f in failed)


NEED_VALID = {'refine', 'split_column', 'add_column'}      # (decompose_columns is applied from any state: it is held to its closing work only, see run_history)


def is_connected(g):
    if not g.columnlist: return True
    seen = {id(g.columnlist[0])}; todo = [g.columnlist[0]]
    while todo:
        c = todo.pop()
        for k in c.connection:
            o = k.column[0] if k.column[1] is c else k.column[1]
            if id(o) not in seen: seen.add(id(o)); todo.append(o)
    return len(seen) == len(g.columnlist)


def type_of_res():
    from vlib.core import Res
    return Res


def run_history(R, g, ops, chars, known_refresh=True):
    from vlib.core import load_known, known_match
    known = load_known(ID)
    kinds = []
    for op in ops:
        if any(c.num_layers <= 0 for c in g.columnlist) or any(c.surface is not None and not (c.surface > g.layerlist[-1].bottom) for c in g.columnlist):
            R.label('stopped:column-without-layers'); break      # degenerate state outside the property's domain
        valid_before = (mesh_is_valid(g) and is_connected(g)) if (op['op'] in PROMISE_VALID or op['op'] in NEED_VALID) else False
        if op['op'] in NEED_VALID and not valid_before:
            R.label('skipped:%s:mesh-not-valid-or-not-connected' % op['op']); continue
        try:
            with R.lib(op['op']):
                g, kind = apply_op(R, g, op, chars)
        except Exception as e:
            if type(e).__name__ == 'Aborted': return g, kinds, False
            raise
        if kind is None:
            R.label('skipped:' + op['op']); continue
        kinds.append(kind); R.label('op:' + kind)
        before = len(R.findings)
        # an operation that promises a valid mesh is held to that promise when it started from one
        # (decompose_columns() ends by adding every missing connection and rebuilding the name lists, whatever it was given:
        # from a state that was not valid before it is held to that much)
        mv = (kind in PROMISE_VALID and (valid_before or kind == 'reduce')) or ('no-missing-connection' if kind == 'decompose' else False)
        failed = invariant(R, g, kind, mesh_valid=mv)
        if failed:
            new = R.findings[before:]
            if all(known_match(known, s) is not None for s, _d in new):
                # only recorded (operation, clause) pairs: bring the derived state up to date and go on
                for s, _d in new: R.exclude('known:' + s)
                try: refresh(g)
                except Exception: return g, kinds, False
                if invariant(type(R)(), g, kind): return g, kinds, False
            else:
                return g, kinds, False
    return g, kinds, True


# ---------------------------------------------------------------------------------------------- alphabets / cases
SMALL = {'r22': {'base': {'kind': 'rect', 'dx': [10., 12.], 'dy': [8., 9.], 'dz': [4., 6., 10.], 'origin': [0., 0., 0.]}, 'convention': 0, 'atmos': 2},
         'r32': {'base': {'kind': 'rect', 'dx': [10., 12., 9.], 'dy': [8., 9.], 'dz': [5., 5.], 'origin': [100., -50., 20.]}, 'convention': 0, 'atmos': 0},
         'tiny0': {'base': {'kind': 'tiny', 'which': 0}, 'atmos': 1}, 'tiny2': {'base': {'kind': 'tiny', 'which': 2}, 'atmos': 2}}


def small_alphabet(ncols, max_subset):
    A = []
    idx = list(range(ncols))
    for r in range(1, max_subset + 1):
        for sub in itertools.combinations(idx, r):
            for b in (False, True):
                A.append({'op': 'refine', 'cols': list(sub), 'bisect': b})
    A.append({'op': 'refine', 'cols': idx, 'bisect': 'x'})
    for b in (False, True):
        A.append({'op': 'refine', 'cols': [0], 'bisect': b, 'edge': [0, 1]}); A.append({'op': 'refine', 'cols': [0], 'bisect': b, 'edge': [0, 1, 2, 3]})
    for c in idx:
        for n in range(4): A.append({'op': 'split_column', 'col': c, 'node': n})
        A.append({'op': 'delete_column', 'col': c})
        A.append({'op': 'set_surface', 'col': c, 'lay': 0, 'frac': 0.5})
        A.append({'op': 'set_surface', 'col': c, 'lay': 0, 'frac': 0.0})
    for sub in ([0, 1], [1, 2], [0, 1, 2]):
        for kind in ('fresh', 'swap', 'cycle'): A.append({'op': 'rename_column', 'cols': sub, 'kind': kind})
    A.append({'op': 'rename_column', 'cols': [0], 'kind': 'fresh'})
    for e in range(4): A.append({'op': 'add_column', 'edge': e})
    for c in range(3): A.append({'op': 'readd_connection', 'con': c}); A.append({'op': 'delete_connection', 'con': c})
    A += [{'op': 'decompose'}, {'op': 'snap', 'min': 3.0}, {'op': 'snap_nearest'}, {'op': 'add_layer'}, {'op': 'delete_layer'},
          {'op': 'rename_layer', 'lay': 0}, {'op': 'add_well'}, {'op': 'delete_well', 'w': 0}, {'op': 'translate', 'shift': [5., -3., 2.]},
          {'op': 'rotate', 'angle': 30.}, {'op': 'copy_layers', 'dz': [3., 3., 5., 9.]}, {'op': 'copy_layers', 'dz': [3., 3., 5., 9.], 'top': 6.}, {'op': 'copy_layers', 'dz': [3., 3., 5., 9.], 'top_name': 'zz'}, {'op': 'translate', 'shift': [0., 0., 2.7]}, {'op': 'file'}, {'op': 'add_node'},
          {'op': 'delete_orphan_node'}]
    A += [{'op': 'add_duplicate', 'what': w, 'i': 0} for w in ('column', 'node', 'layer', 'well', 'connection')]
    A += [{'op': 'edit_donor', 'how': 'translate', 'dz': 7.5}, {'op': 'edit_donor', 'how': 'rename'}, {'op': 'edit_donor', 'how': 'bottom'}]
    A += [{'op': 'rename_column', 'cols': [0, 1], 'kind': 'swap', 'missing': 1}, {'op': 'rename_column', 'cols': [0, 1], 'kind': 'swap', 'missing': 2},
          {'op': 'rename_column', 'cols': [1], 'kind': 'fresh', 'missing': 1}, {'op': 'rename_column', 'cols': [1], 'kind': 'fresh', 'missing': 0}]
    A.append({'op': 'add_duplicate', 'what': 'column', 'i': 1})
    for c in range(min(ncols, 3)): A.append({'op': 'readd_column', 'col': c})
    for n in range(1, ncols):
        for seed in range(ncols): A.append({'op': 'reduce', 'seed': seed, 'n': n - 1})
    for r in (1, 2):
        for sub in itertools.combinations(range(3), r): A.append({'op': 'refine_layers', 'layers': list(sub), 'factor': 2})
    return A


def enum_cases(length, max_subset):
    def gen():
        for name, rc in sorted(SMALL.items()):
            nc = {'r22': 4, 'r32': 6, 'tiny0': 4, 'tiny2': 4}[name]
            A = small_alphabet(nc, max_subset)
            for L in range(0, length):
                for pre in itertools.product(range(len(A)), repeat=L):
                    yield {'k': 'enum', 'geo': name, 'prefix': [A[i] for i in pre], 'max_subset': max_subset}
    return gen


def op_strategy():
    i = st.integers(0, 10000)
    few = st.lists(i, min_size=1, max_size=5)
    return st.one_of(
        st.builds(lambda c, b: {'op': 'refine', 'cols': c, 'bisect': b}, few, st.sampled_from([False, False, True, 'x', 'y'])),
        st.builds(lambda c, b, e: {'op': 'refine', 'cols': c, 'bisect': b, 'edge': e}, few, st.sampled_from([False, False, True, 'x', 'y']), st.lists(st.integers(0, 50), min_size=1, max_size=5)),
        st.builds(lambda c, n: {'op': 'split_column', 'col': c, 'node': n}, i, i),
        st.builds(lambda c, k: {'op': 'rename_column', 'cols': c, 'kind': k}, few, st.sampled_from(['fresh', 'swap', 'cycle'])),
        st.builds(lambda c, k, m: {'op': 'rename_column', 'cols': c, 'kind': k, 'missing': m}, few, st.sampled_from(['fresh', 'swap', 'cycle']), st.integers(0, 4)),
        st.builds(lambda h, z: {'op': 'edit_donor', 'how': h, 'dz': z}, st.sampled_from(['translate', 'rename', 'bottom']), st.sampled_from([7.5, -4.0, 12.0])),
        st.builds(lambda c: {'op': 'delete_column', 'col': c}, i),
        st.builds(lambda e: {'op': 'add_column', 'edge': e}, i),
        st.builds(lambda c: {'op': 'readd_connection', 'con': c}, i),
        st.builds(lambda c: {'op': 'delete_connection', 'con': c}, i),
        st.just({'op': 'decompose'}),
        st.builds(lambda s, n: {'op': 'reduce', 'seed': s, 'n': n}, i, i),
        st.builds(lambda m: {'op': 'snap', 'min': m}, st.sampled_from([0.5, 1.0, 5.0])),
        st.just({'op': 'snap_nearest'}),
        st.builds(lambda c, l, f: {'op': 'set_surface', 'col': c, 'lay': l, 'frac': f}, i, i, st.sampled_from([0.0, 0.25, 0.5, 0.9, 1.0])),
        st.builds(lambda d, s: {'op': 'fit_surface', 'data': d, 'snap': s},
                  st.lists(st.tuples(st.floats(0, 1), st.floats(0, 1), st.floats(0, 1)).map(list), min_size=4, max_size=12), st.sampled_from([0.0, 0.0, 1.0])),
        st.builds(lambda l, f: {'op': 'refine_layers', 'layers': l, 'factor': f}, few, st.sampled_from([2, 3])),
        st.just({'op': 'add_layer'}), st.just({'op': 'delete_layer'}), st.builds(lambda l: {'op': 'rename_layer', 'lay': l}, i),
        st.just({'op': 'add_well'}), st.builds(lambda w: {'op': 'delete_well', 'w': w}, i),
        st.builds(lambda x, y, z: {'op': 'translate', 'shift': [x, y, z]}, st.sampled_from([-50., 0., 30.]), st.sampled_from([-20., 10.]), st.sampled_from([-5., 0., 8., 0.1, 2.7, -0.3])),
        st.builds(lambda a: {'op': 'rotate', 'angle': a}, st.sampled_from([15., 45., 90., -60.])),
        st.builds(lambda d, t, n: {'op': 'copy_layers', 'dz': d, 'top': t, 'top_name': n}, st.lists(st.sampled_from([2., 5., 10.]), min_size=1, max_size=6),
                  st.sampled_from([0., 0., 5., 12., -5., -12.]), st.sampled_from([None, None, 'zz', 'GS'])),
        st.builds(lambda c: {'op': 'readd_column', 'col': c}, i),
        st.builds(lambda w, n: {'op': 'add_duplicate', 'what': w, 'i': n}, st.sampled_from(['column', 'node', 'layer', 'well', 'connection']), i),
        st.just({'op': 'file'}), st.just({'op': 'add_node'}), st.just({'op': 'delete_orphan_node'}))


OPS = op_strategy()


def random_case():
    @st.composite
    def s(draw):
        rc = draw(geo.geometry(max_nx=5, max_ny=5, max_nz=4, shipped=True, ops=False, with_surfaces=True, with_wells=False,
                               max_shipped_cols=draw(st.sampled_from([20, 60, 300])), tiny_ok=True))
        n = draw(st.sampled_from([2, 5, 10, 25]))
        return {'k': 'random', 'rc': rc, 'ops': draw(st.lists(OPS, min_size=n, max_size=n))}
    return s()


def searches(tier):
    q = tier == 'quick'
    S = [Search('enum_len1_all_subsets', 'enum', enum_cases(1, 6), shards=4),
         Search('enum_len2', 'enum', enum_cases(2, 2 if q else 6), shards=16),
         Search('random_histories', 'hyp', random_case, n=800 if q else 10000, shards=16)]
    if not q: S.insert(2, Search('enum_len3', 'enum', enum_cases(3, 1), shards=16))
    return S


_A = {}


def run_case(case, R):
    import mulgrids, string
    if case['k'] == 'enum':
        rc = SMALL[case['geo']]
        nc = {'r22': 4, 'r32': 6, 'tiny0': 4, 'tiny2': 4}[case['geo']]
        key = (nc, case['max_subset'])
        if key not in _A: _A[key] = small_alphabet(nc, case['max_subset'])
        if case['prefix']:
            g = geo.build(rc)
            sub = type(R)()
            _g, _k, ok = run_history(sub, g, case['prefix'], string.ascii_lowercase)
            sub.cleanup()
            if sub.findings or not ok:
                R.label('prefix-already-broken'); R.exclude('prefix-already-broken'); return
        n = 0
        for last in _A[key]:
            g = geo.build(rc)
            run_history(R, g, case['prefix'] + [last], string.ascii_lowercase)
            n += 1
        R.count(n); R.nontrivial(True); R.label('prefix-length:%d' % len(case['prefix']), 'geo:' + case['geo'])
        return
    rc = case['rc']
    for l in geo.describe(rc): R.label(l)
    try:
        g = geo.build(rc)
    except mulgrids.NamingConventionError:
        R.label('build:naming-capacity'); return
    if geo.input_defects(g): R.exclude('input:invalid-geometry'); return
    chars = geo.CHARS[rc.get('chars', 'lower')]
    if invariant(type(R)(), g, 'build', mesh_valid=False):
        R.exclude('input:inconsistent-after-build'); return
    try:
        g, kinds, ok = run_history(R, g, case['ops'], chars)
    except mulgrids.NamingConventionError:
        R.label('naming-capacity-during-history'); return
    R.nontrivial(len(set(kinds)) >= 2)
    R.label('history-length:%d' % (5 * (len(kinds) // 5)))


LEVEL_TEXT = ('Model-based testing of geometry edit histories: complete enumeration of all histories of the stated length over a '
              'concrete alphabet on four tiny geometries (length 1 with every column subset, length 2; length 3 in thorough) and '
              'Hypothesis-generated histories up to 25 operations on recipe geometries up to 300 columns; an independently '
              'recomputed structural invariant is evaluated clause by clause after every operation. Refutes only.')
LEVEL_NOTE = 'Trusted: the invariant evaluator in props/c10.py (reads public attributes; geometry via refs/geom_ref.py).'
TECHNIQUE = 'stateful / model-based property testing: exhaustive short histories + Hypothesis-generated long histories, structural invariant after every step'
