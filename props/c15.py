"""C15 - IFC-67 routines (t2thermo) agree with IAPWS-97 and with themselves on their common range."""
import math
from hypothesis import strategies as st
from vlib.core import Search, HarnessError, Refused
from props.c14 import richardson, maxwell_tp, decade, lin, clamp, rel, num, DELTAS

ID = 'C15'

T0 = 273.15
TMIN, T13, TC67, TC97, T23, TMAX = 0.01, 350.0, 647.3 - 273.15, 647.096 - 273.15, 590.0, 800.0
PMAX = 1.0e8
PC67 = 22.12e6
PMIN_STEAM = 1.0

# ---- independent statement of the documented ranges (IFC-67 sub-regions 1 and 2) --------------
# K-function (saturation line) and L-function (boundary between sub-regions 2 and 3) of the 1967 IFC
# Formulation for Industrial Use, own transcription; validated in selftest() at 100 degC (1 atm), at the
# critical point (22.12 MPa exactly), at the 350 degC meeting point of the two curves and at 590 degC / 100 MPa.
_K = (None, -7.691234564e0, -2.608023696e1, -1.681706546e2, 6.423285504e1, -1.189646225e2,
      4.167117320e0, 2.097506760e1, 1.0e9, 6.0)
_L = (1.574373327e1, -3.417061978e1, 1.931380707e1)


def ksat(t):
    th = (t + T0) / 647.3
    x = 1.0 - th
    s = sum(_K[n] * x ** n for n in range(1, 6))
    return 22.12e6 * math.exp(s / (th * (1.0 + _K[6] * x + _K[7] * x ** 2)) - x / (_K[8] * x ** 2 + _K[9]))


def lb23(t):
    th = (t + T0) / 647.3
    return 22.12e6 * (_L[0] + _L[1] * th + _L[2] * th ** 2)


_st = []


def selftest():
    if _st: return
    bad = []
    if abs(ksat(100.0) - 101325.0) > 10.0: bad.append('K(100 degC) = %r, expected 101325 Pa (1 atm)' % ksat(100.0))
    if abs(ksat(TC67) - 22.12e6) > 1e-3: bad.append('K(374.15) = %r' % ksat(TC67))
    if abs(ksat(0.01) - 611.2) > 0.5: bad.append('K(0.01) = %r, expected 611.2 Pa' % ksat(0.01))
    if abs(lb23(350.0) / ksat(350.0) - 1) > 1e-6: bad.append('L(350) = %r but K(350) = %r' % (lb23(350.0), ksat(350.0)))
    if abs(lb23(590.0) / 1e8 - 1) > 1e-8: bad.append('L(590) = %r' % lb23(590.0))
    if bad: raise HarnessError('c15 range predicate self-test failed: ' + '; '.join(bad))
    _st.append(1)


def in_cowat(t, p): return TMIN <= t <= T13 and ksat(t) <= p <= PMAX           # IFC-67 sub-region 1


def in_supst(t, p):                                                            # IFC-67 sub-region 2
    if not (TMIN <= t <= TMAX and p >= 0): return False
    if t <= T13: return p <= ksat(t)
    if t <= T23: return p <= lb23(t)
    return p <= PMAX


def in_sat(t): return TMIN <= t <= TC67


def in_tsat(p): return ksat(TMIN) <= p <= PC67


def limit_distance(fn, t, p):
    """(flat, curved): smallest relative distance of the state to a constant limit of fn's documented range (0.01 degC,
    350 / 800 / 374.15 degC, 100 MPa, 22.12 MPa) and to a curved one (saturation line, L-function boundary).  A state
    within 1e-12 of a curved limit may legitimately fall on either side (the curve is only known to rounding)."""
    flat, curved = [], []
    if fn in ('cowat', 'supst'):
        flat += [rel(t, TMIN), rel(p, PMAX), rel(t + T0, (T13 if fn == 'cowat' else TMAX) + T0)]
        if t <= T13 + 1: curved.append(rel(p, ksat(min(t, T13))))
        if fn == 'supst' and T13 - 1 <= t <= T23 + 1: curved.append(rel(p, lb23(clamp(t, T13, T23))))
        if fn == 'supst': flat += [rel(t + T0, T13 + T0), rel(t + T0, T23 + T0)]
    elif fn == 'sat': flat += [rel(t, TMIN), rel(t + T0, 647.3)]
    else:
        flat.append(rel(p, PC67)); curved.append(rel(p, ksat(TMIN)))
    return min(flat), (min(curved) if curved else 1.0)


# ---- calibration of the inter-formulation difference (measured on the unchanged tree, see calibrate()) ----
# liquid: (t_lo, t_hi, max |d67-d97|/d97, max |u67-u97| J/kg) on psat..100 MPa
CAL_LIQ = (
    (0.01, 100.0, 4.2e-4, 532.0), (100.0, 200.0, 5.2e-4, 113.0), (200.0, 250.0, 5.2e-4, 199.0),
    (250.0, 300.0, 5.9e-4, 341.0), (300.0, 325.0, 9.7e-4, 1165.0), (325.0, 340.0, 1.55e-3, 2343.0),
    (340.0, 350.0, 2.31e-3, 3626.0),
)
# steam: (t_lo, t_hi, f_lo, f_hi, max rel d, max |du| J/kg), f = p / (upper pressure limit of the common range at t)
CAL_STM = (
    (0.01, 100.0, 0.0, 0.5, 2.1e-4, 469.0), (0.01, 100.0, 0.5, 0.9, 2.6e-4, 742.0), (0.01, 100.0, 0.9, 1.0, 2.6e-4, 839.0),
    (100.0, 200.0, 0.0, 0.5, 4.2e-4, 1120.0), (100.0, 200.0, 0.5, 0.9, 5.5e-4, 1547.0), (100.0, 200.0, 0.9, 1.0, 5.3e-4, 1446.0),
    (200.0, 300.0, 0.0, 0.5, 7.2e-4, 1131.0), (200.0, 300.0, 0.5, 0.9, 1.34e-3, 1698.0), (200.0, 300.0, 0.9, 1.0, 1.09e-3, 1718.0),
    (300.0, 350.0, 0.0, 0.5, 1.02e-3, 2088.0), (300.0, 350.0, 0.5, 0.9, 1.67e-3, 2046.0), (300.0, 350.0, 0.9, 1.0, 1.64e-3, 4644.0),
    (350.0, 374.15, 0.0, 0.5, 1.05e-3, 2760.0), (350.0, 374.15, 0.5, 0.9, 2.14e-3, 3050.0), (350.0, 374.15, 0.9, 1.0, 2.36e-3, 4780.0),
    (374.15, 450.0, 0.0, 0.5, 1.50e-3, 3236.0), (374.15, 450.0, 0.5, 0.9, 1.85e-3, 5343.0), (374.15, 450.0, 0.9, 1.0, 2.54e-3, 6899.0),
    (450.0, 590.0, 0.0, 0.5, 1.67e-3, 4447.0), (450.0, 590.0, 0.5, 0.9, 2.17e-3, 7506.0), (450.0, 590.0, 0.9, 1.0, 4.68e-3, 6900.0),
    (590.0, 800.0, 0.0, 0.5, 1.57e-3, 4866.0), (590.0, 800.0, 0.5, 0.9, 1.88e-3, 7522.0), (590.0, 800.0, 0.9, 1.0, 3.66e-3, 7161.0),
)
# saturation pressure: (t_lo, t_hi, max |p67-p97|/p97)
CAL_SAT = ((0.01, 100.0, 1.31e-3), (100.0, 200.0, 9.2e-4), (200.0, 300.0, 6.0e-4), (300.0, 350.0, 5.9e-4), (350.0, TC97, 5.4e-4))
CAL_FACTOR = 3.0
TOL_MAXWELL = {'cowat': 1e-7, 'supst': 1e-5}   # single-potential identity on the IFC-67 outputs: measured max over a thorough run
                        # (0.38M / 0.39M states) cowat < 1e-9, supst < 1e-7 (round-off of the R**10 boundary term near 590 degC / 100 MPa, grows as the step shrinks)
TOL_INV_T = 1e-5        # tsat(sat(t)) - t [K]: fsolve's xtol 1.49e-8 (relative) * 374 K = 5.6e-6; measured 2.3e-10
TOL_INV_P = 1e-6        # sat(tsat(p))/p - 1: (dp/dt)/p <= 0.073 /K times 1e-5 K; measured 4e-12
TOL_KSAT = 1e-12        # t2thermo.sat against the independent K-function: measured 3e-16
HP1, HT1 = 5.0e4, 0.1
HP2REL, HT2 = 1.0e-3, 0.1

RULE = ('Cases are JSON: liq {t,p} (0.01..350 degC, max(psat67, psat97)..100 MPa), stm {t,p} (0.01..800 degC, 1 Pa..min of both '
        'formulations\' saturation / region-2-3 boundary / 100 MPa), sat {t} on 0.01..374.15 degC, tsat {p} on sat(0.01)..22.12 MPa, '
        'bnd {fn,t,p} states a relative 1e-9/1e-6/1e-3 (and farther) inside and outside every limit of the documented ranges of '
        'cowat, supst, sat, tsat plus the limits themselves, reg {t,p} with t <= 350 or t > 374.15 degC and p at least 0.5 % away from '
        'both formulations\' curves, ssf {h[],p1,p2} with enthalpies 0..3.5 MJ/kg and separator pressures 0.1..5 MPa (p2 below or above p1, or '
        'absent). Each kind: dense grid (enum) + Hypothesis floats + explicit end points. Non-trivial = not one of the three stored '
        'states per routine of tests/test_t2thermo.py; distinct = distinct case JSON. Tolerance oracle (a) IFC-67 vs IAPWS-97: '
        'per sub-range table CAL_LIQ / CAL_STM / CAL_SAT of maxima measured on the unchanged tree (liquid density 0.04-0.23 %, '
        'liquid u 0.11-3.6 kJ/kg, steam density 0.02-0.47 %, steam u 0.47-7.5 kJ/kg, psat 0.054-0.13 %), bound = 3 x the maximum '
        'of the sub-range(s) containing the state. Identity residual 1e-7 liquid / 1e-5 steam (measured < 1e-9 / < 1e-7 over 0.77M states), tsat inverse 1e-5 K (solver xtol; '
        'measured 2.3e-10), bounds predicate exact except within 1e-12 (relative) of a curved limit.'
        ' The repeat call of every range-checked routine passes the flag positionally.'
        ' Rounds 8-9: the singular saturation states of IAPWS-97 compared too; tsat with range checking at zero, negative and subnormal pressures.')
ASSUMPTIONS = [
    'IAPWS97.py is the comparison formulation for oracle (a) (it is itself checked against an independent reference by C14); '
    '(a) only detects changes much larger than the inter-formulation difference tabulated in CAL_*',
    'documented ranges: cowat = IFC-67 sub-region 1 (0.01..350 degC, psat..100 MPa), supst = sub-region 2 (0.01..800 degC, below '
    'psat up to 350 degC, below the L-function boundary 350..590 degC, below 100 MPa above), sat = 0.01..374.15 degC, '
    'tsat = sat(0.01)..22.12 MPa (doc/source/t2thermo.rst); the saturation line and boundary are evaluated by an own '
    'transcription of the K- and L-functions, validated at 100 degC / 1 atm, the critical point, 350 and 590 degC',
    'with range checking off nothing is asserted outside the range; inside, the value must equal the range-checked one',
    'steam pressures from 1 Pa; p = 0 and negative pressures are only used as outside-range states of the bounds oracle (p < 0)',
    'two-stage separation uses p2 < p1',
    'liquid states below 0.05 MPa are not differentiated (the 5e4 Pa stencil would need a negative pressure; label fd-skipped)',
    'tsat tolerance follows scipy fsolve default xtol',
]

PINNED = {('liq', 26.85, 3e6), ('liq', 26.85, 80e6), ('liq', 226.85, 3e6), ('stm', 26.85, 3500.0), ('stm', 426.85, 3500.0),
          ('stm', 426.85, 30e6)}


def libs():
    import t2thermo, IAPWS97
    return t2thermo, IAPWS97


def sat97(t):
    """IAPWS-97 saturation pressure from the independent reference (used for generation only)."""
    from refs import if97_ref as ref
    return ref.psat(t + T0)


def b97(t):
    from refs import if97_ref as ref
    return ref.b23p(t + T0)


def pliq_min(t): return max(ksat(t), sat97(t))


def pstm_max(t):
    if t <= T13: return min(ksat(t), sat97(t))
    if t <= T23: return min(lb23(t), b97(t), PMAX)
    return PMAX


def band_tol(table, t, f=None):
    """3 x the largest calibrated maximum over the sub-ranges containing the state."""
    md = mu = 0.0
    for row in table:
        if row[0] <= t <= row[1] and (f is None or len(row) == 4 or row[2] <= f <= row[3]):
            md = max(md, row[-2]); mu = max(mu, row[-1])
    if md == 0.0: raise HarnessError('no calibration band for t=%r f=%r' % (t, f))
    return CAL_FACTOR * md, CAL_FACTOR * mu


# ------------------------------------------------------------------------------------------------
# strategies

def frac():
    return st.one_of(st.floats(0.0, 1.0), st.sampled_from([0.0, 1.0] + list(DELTAS) + [1 - d for d in DELTAS]))


def temp(lo, hi, marks=()):
    pts = [lo, hi] + [m for m in marks if lo <= m <= hi]
    for m in list(pts):
        for d in DELTAS:
            for s in (-1, 1):
                x = (m + T0) * (1 + s * d) - T0
                if lo <= x <= hi: pts.append(x)
    return st.one_of(st.floats(lo, hi), st.floats(lo, hi), st.sampled_from(pts))


DELTA = st.sampled_from(DELTAS)
OFFS = st.sampled_from(DELTAS + (1e-2, 0.1, 0.5))


@st.composite
def liq_case(draw):
    t = draw(temp(TMIN, T13, [100.0, 300.0, 325.0, 340.0]))
    lo = pliq_min(t)
    mode = draw(st.sampled_from(['lin', 'lin', 'log', 'sat+', 'p100-']))
    if mode == 'lin': p = lo + draw(frac()) * (PMAX - lo)
    elif mode == 'log': p = lo * (PMAX / lo) ** draw(frac())
    elif mode == 'sat+': p = lo * (1 + draw(DELTA))
    else: p = PMAX * (1 - draw(DELTA))
    return {'k': 'liq', 't': t, 'p': clamp(p, lo, PMAX)}


@st.composite
def stm_case(draw):
    t = draw(temp(TMIN, TMAX, [100.0, 200.0, 300.0, T13, TC67, TC97, 450.0, T23]))
    hi = pstm_max(t)
    mode = draw(st.sampled_from(['lin', 'log', 'log', 'edge-']))
    if mode == 'lin': p = PMIN_STEAM + draw(frac()) * (hi - PMIN_STEAM)
    elif mode == 'log': p = PMIN_STEAM * (hi / PMIN_STEAM) ** draw(frac())
    else: p = hi * (1 - draw(DELTA))
    return {'k': 'stm', 't': t, 'p': clamp(p, PMIN_STEAM, hi)}


@st.composite
def line_case(draw):
    if draw(st.booleans()):
        return {'k': 'sat', 't': draw(temp(TMIN, TC67, [TC97, T13, 100.0]))}
    lo, hi = ksat(TMIN), PC67
    f = draw(frac())
    p = lo * (hi / lo) ** f if draw(st.booleans()) else lo + f * (hi - lo)
    return {'k': 'tsat', 'p': clamp(p, lo, hi)}


@st.composite
def bnd_case(draw):
    fn = draw(st.sampled_from(['cowat', 'cowat', 'supst', 'supst', 'sat', 'tsat']))
    sgn = draw(st.sampled_from([-1, 1]))
    off = draw(st.one_of(OFFS, st.just(0.0)))
    if fn == 'sat':
        tb = draw(st.sampled_from([TMIN, TC67]))
        t = draw(st.one_of(st.just((tb + T0) * (1 + sgn * off) - T0 if tb > 1 else tb * (1 + sgn * off)),
                           st.floats(-50.0, 600.0)))
        return {'k': 'bnd', 'fn': 'sat', 't': t}
    if fn == 'tsat':
        pb = draw(st.sampled_from([ksat(TMIN), PC67]))
        p = draw(st.one_of(st.just(pb * (1 + sgn * off)), frac().map(lambda f: 10.0 * (1e8 / 10.0) ** f)))
        return {'k': 'bnd', 'fn': 'tsat', 'p': p}
    thi = T13 if fn == 'cowat' else TMAX
    which = draw(st.sampled_from(['t_lo', 't_hi', 'curve', 'p100', 'any']))
    if which == 't_lo':
        t = TMIN * (1 + sgn * off)
    elif which == 't_hi':
        t = (thi + T0) * (1 + sgn * off) - T0
    else:
        t = draw(temp(TMIN, thi, [T13, TC67, T23]))
    tt = clamp(t, TMIN, thi)
    if fn == 'cowat':
        lo, hi = ksat(tt), PMAX
    else:
        lo, hi = PMIN_STEAM, (ksat(tt) if tt <= T13 else lb23(tt) if tt <= T23 else PMAX)
    if which == 'curve':
        pb = lo if fn == 'cowat' else hi
        p = pb * (1 + sgn * off)
        if off == 0.0 and TMIN <= t <= T23 and (fn == 'supst' or t <= T13):
            p = 'sat' if t <= T13 else 'b23'
    elif which == 'p100':
        p = PMAX * (1 + sgn * off)
    elif which == 'any':
        p = draw(st.one_of(frac().map(lambda f: 1.0 * (3e8 / 1.0) ** f), st.just(-1.0), st.just(-1e5)))
    else:
        p = lo + draw(frac()) * (hi - lo)
    return {'k': 'bnd', 'fn': fn, 't': t, 'p': p}


def reg_pressures(t):
    """(curves, lo, hi): the boundary curves of both formulations at t and a 0.5 % exclusion band around them"""
    if t <= T13: cs = [ksat(t), sat97(t)]
    elif t <= T23: cs = [lb23(t), b97(t)]
    else: return None
    return min(cs) * (1 - 0.005), max(cs) * (1 + 0.005)


@st.composite
def reg_case(draw):
    t = draw(st.one_of(temp(TMIN, T13, [100.0]), temp(TC67 * (1 + 1e-9) + 1e-6, TMAX, [T23, 400.0])))
    band = reg_pressures(t)
    if band is None or draw(st.integers(0, 3)) == 0:
        p = draw(st.one_of(st.floats(PMIN_STEAM, PMAX), frac().map(lambda f: PMIN_STEAM * (PMAX / PMIN_STEAM) ** f)))
        if band is not None and band[0] < p < band[1]:
            p = band[0] if draw(st.booleans()) else min(band[1], PMAX)
    else:
        lo, hi = band
        if draw(st.booleans()): p = lo * (1 - draw(st.sampled_from([0.0, 1e-6, 1e-3, 0.01, 0.1, 0.5])))
        else: p = hi * (1 + draw(st.sampled_from([0.0, 1e-6, 1e-3, 0.01, 0.1, 0.5])))
    p = clamp(p, PMIN_STEAM, PMAX)
    if band is not None and band[0] < p < band[1]: p = band[0]       # upper side of the band lies above 100 MPa
    return {'k': 'reg', 't': t, 'p': p}


@st.composite
def ssf_case(draw):
    n = draw(st.integers(2, 4))
    hs = sorted(draw(st.lists(st.one_of(st.floats(0.0, 3.5e6), st.sampled_from([0.0, 3.5e6, 4.0e5, 2.7e6, 2.8e6, 1.0e6])),
                              min_size=n, max_size=n)))
    p1 = draw(st.one_of(st.floats(0.1e6, 5e6), st.sampled_from([0.1e6, 5e6, 1e6])))
    p2 = None
    if draw(st.booleans()) and p1 > 0.1e6 * (1 + 1e-9):
        f = draw(st.one_of(st.floats(0.0, 1.0), st.sampled_from([0.0, 0.5, 1 - 1e-6])))
        p2 = clamp(0.1e6 + f * (p1 - 0.1e6), 0.1e6, p1 * (1 - 1e-9))
        if draw(st.integers(0, 3)) == 0:
            # the quantifier says "separator pressures 0.1..5 MPa in one and two stages": a second stage at a
            # higher pressure than the first is unusual but inside it
            p2 = draw(st.one_of(st.floats(0.1e6, 5e6), st.sampled_from([5e6, 2e6, 0.5e6])))
    return {'k': 'ssf', 'h': hs, 'p1': p1, 'p2': p2}


# ------------------------------------------------------------------------------------------------
# enumerations

def grid_liq(nt, npr):
    def g():
        for t in lin(TMIN, T13, nt):
            lo = pliq_min(t)
            for f in lin(0.0, 1.0, npr):
                yield {'k': 'liq', 't': t, 'p': clamp(lo + f * f * (PMAX - lo), lo, PMAX)}
    return g


def grid_stm(nt, npr):
    def g():
        for t in lin(TMIN, TMAX, nt):
            hi = pstm_max(t)
            for f in lin(0.0, 1.0, npr):
                yield {'k': 'stm', 't': t, 'p': clamp(PMIN_STEAM * (hi / PMIN_STEAM) ** f, PMIN_STEAM, hi)}
            for f in lin(0.3, 0.995, max(2, npr // 2)):
                yield {'k': 'stm', 't': t, 'p': f * hi}
    return g


def grid_lines(n):
    def g():
        for t in lin(TMIN, TC67, n): yield {'k': 'sat', 't': t}
        lo, hi = ksat(TMIN), PC67
        for f in lin(0.0, 1.0, n): yield {'k': 'tsat', 'p': clamp(lo * (hi / lo) ** f, lo, hi)}
    return g


def grid_reg(nt, npr):
    def g():
        ts = lin(TMIN, T13, nt) + lin(TC67 + 0.01, TMAX, nt)
        for t in ts:
            band = reg_pressures(t)
            for f in lin(0.0, 1.0, npr):
                for p in (PMIN_STEAM * (PMAX / PMIN_STEAM) ** f, max(PMIN_STEAM, f * PMAX)):
                    if band is None or not (band[0] < p < band[1]):
                        yield {'k': 'reg', 't': t, 'p': p}
            if band is not None:
                yield {'k': 'reg', 't': t, 'p': band[0]}
                if band[1] <= PMAX: yield {'k': 'reg', 't': t, 'p': band[1]}
    return g


def grid_ssf(nh, np_):
    def g():
        hs = lin(0.0, 3.5e6, nh)
        for p1 in lin(0.1e6, 5e6, np_):
            yield {'k': 'ssf', 'h': hs, 'p1': p1, 'p2': None}
            for f in (0.0, 0.25, 0.5, 0.9):
                p2 = 0.1e6 + f * (p1 - 0.1e6)
                if p2 < p1: yield {'k': 'ssf', 'h': hs, 'p1': p1, 'p2': p2}
            for f in (0.3, 1.0):
                p2 = p1 + f * (5e6 - p1)
                if p2 > p1: yield {'k': 'ssf', 'h': hs, 'p1': p1, 'p2': p2}
    return g


def grid_bnd():
    """Both sides of every limit of every documented range, and the limits themselves."""
    out = []
    offs = (0.0,) + DELTAS + (1e-2, 0.3)
    sg = (-1, 1)
    for o in offs:
        for s in sg:
            for tb in (TMIN, TC67):
                out.append({'k': 'bnd', 'fn': 'sat', 't': (tb + T0) * (1 + s * o) - T0 if tb > 1 else tb * (1 + s * o)})
            for pb in (ksat(TMIN), PC67):
                out.append({'k': 'bnd', 'fn': 'tsat', 'p': pb * (1 + s * o)})
    out.append({'k': 'bnd', 'fn': 'tsat', 't': TMIN, 'p': 'sat'})
    out += [{'k': 'bnd', 'fn': 'sat', 't': t} for t in (-10.0, 0.0, 100.0, 374.0, 374.2, 400.0, 499.0, 501.0, 700.0)]
    out += [{'k': 'bnd', 'fn': 'tsat', 'p': p} for p in (1.0, 600.0, 1e5, 22.0e6, 22.1e6, 22.2e6, 5e7, 0.0, -0.0, -1.0, -1e5, 5e-324)]
    for fn, thi in (('cowat', T13), ('supst', TMAX)):
        ts = [TMIN, 50.0, 200.0, 300.0, thi] + ([T13, 360.0, 370.0, TC67, 374.2, 450.0, T23, 600.0] if fn == 'supst' else [349.0])
        for t in ts:
            for o in offs:
                for s in sg:
                    # temperature limits at a pressure well inside the range for that temperature
                    for tb in (TMIN, thi):
                        tt = (tb + T0) * (1 + s * o) - T0 if tb > 1 else tb * (1 + s * o)
                        tin = clamp(tt, TMIN, thi)
                        pin = 2 * ksat(tin) if fn == 'cowat' else 0.5 * (ksat(tin) if tin <= T13 else lb23(tin) if tin <= T23 else PMAX)
                        out.append({'k': 'bnd', 'fn': fn, 't': tt, 'p': min(pin, PMAX)})
                    # pressure limits at t
                    curve = ksat(t) if t <= T13 else (lb23(t) if t <= T23 else None)
                    if curve is not None and (fn == 'supst' or t <= T13):
                        out.append({'k': 'bnd', 'fn': fn, 't': t, 'p': curve * (1 + s * o)})
                    out.append({'k': 'bnd', 'fn': fn, 't': t, 'p': PMAX * (1 + s * o)})
            out.append({'k': 'bnd', 'fn': fn, 't': t, 'p': -1.0})
            if t <= T13: out.append({'k': 'bnd', 'fn': fn, 't': t, 'p': 'sat'})
            elif fn == 'supst' and t <= T23: out.append({'k': 'bnd', 'fn': fn, 't': t, 'p': 'b23'})
            if fn == 'supst' and T13 < t <= TC67:
                # between the L-function boundary and the saturation line: IFC-67 sub-region 3
                for f in (0.1, 0.5, 0.9, 1.0):
                    out.append({'k': 'bnd', 'fn': fn, 't': t, 'p': lb23(t) + f * (ksat(t) - lb23(t))})
    return out


def edges():
    out = []
    for t in (TMIN, TC67, TC97, T13, 26.85, 226.85, 326.85, 100.0):
        out.append({'k': 'sat', 't': t})
    for p in (ksat(TMIN), PC67, 22.064e6, 1e5, 1e6, 0.1e6, 5e6):
        out.append({'k': 'tsat', 'p': p})
    # states where a leading coefficient of the IAPWS-97 saturation quadratics vanishes (see C14): the two formulations are
    # compared there as well, 1e-13 .. 1e-4 either side
    from refs import if97_ref
    T0, p0 = if97_ref.singular_saturation_states()
    for dlt in (0.0, 1e-13, 1e-12, 1e-11, 1e-10, 1e-9, 1e-8, 1e-6, 1e-4):
        for s in ((1,) if dlt == 0 else (1, -1)):
            out.append({'k': 'sat', 't': T0 - 273.15 + s * dlt * 100.0})
            out.append({'k': 'tsat', 'p': p0 * (1 + s * dlt)})
            out.append({'k': 'sat', 't': if97_ref.tsat(p0 * (1 + s * dlt)) - 273.15})
            out.append({'k': 'tsat', 'p': if97_ref.psat(T0 + s * dlt * 100.0)})
    for kind, t, p in sorted(PINNED): out.append({'k': kind, 't': t, 'p': p})
    for t in (TMIN, T13, 100.0, 300.0, 325.0, 340.0):
        lo = pliq_min(t)
        for d in (0.0,) + DELTAS:
            out.append({'k': 'liq', 't': t, 'p': lo * (1 + d)}); out.append({'k': 'liq', 't': t, 'p': PMAX * (1 - d)})
    for t in (TMIN, 100.0, T13, TC97, TC67, 450.0, T23, TMAX):
        hi = pstm_max(t)
        for d in (0.0,) + DELTAS: out.append({'k': 'stm', 't': t, 'p': hi * (1 - d)})
        out.append({'k': 'stm', 't': t, 'p': PMIN_STEAM})
    for p1 in (0.1e6, 5e6):
        out.append({'k': 'ssf', 'h': [0.0, 1e5, 4.2e5, 1e6, 2.6e6, 2.8e6, 3.5e6], 'p1': p1, 'p2': None})
    out.append({'k': 'ssf', 'h': [0.0, 5e5, 1e6, 2e6, 3e6, 3.5e6], 'p1': 5e6, 'p2': 0.1e6})
    return out


def searches(tier):
    q = tier == 'quick'
    sh = 8 if q else 16
    return [
        Search('edges', 'enum', edges, shards=2),
        Search('grid_bounds', 'enum', grid_bnd, shards=4),
        Search('grid_liq', 'enum', grid_liq(60, 40) if q else grid_liq(400, 200), shards=sh),
        Search('grid_stm', 'enum', grid_stm(61, 32) if q else grid_stm(400, 150), shards=sh),
        Search('grid_lines', 'enum', grid_lines(600) if q else grid_lines(20000), shards=sh),
        Search('grid_reg', 'enum', grid_reg(40, 24) if q else grid_reg(300, 120), shards=sh),
        Search('grid_ssf', 'enum', grid_ssf(36, 20) if q else grid_ssf(200, 200), shards=sh),
        Search('hyp_liq', 'hyp', liq_case, n=8000 if q else 300000, shards=sh),
        Search('hyp_stm', 'hyp', stm_case, n=8000 if q else 300000, shards=sh),
        Search('hyp_lines', 'hyp', line_case, n=3000 if q else 60000, shards=sh),
        Search('hyp_bounds', 'hyp', bnd_case, n=10000 if q else 300000, shards=sh),
        Search('hyp_reg', 'hyp', reg_case, n=8000 if q else 200000, shards=sh),
        Search('hyp_ssf', 'hyp', ssf_case, n=1600 if q else 40000, shards=sh),
    ]


# ------------------------------------------------------------------------------------------------
# oracles

def two(R, x, what, at):
    ok = isinstance(x, tuple) and len(x) == 2 and all(v is not None and num(float(v)) for v in x)
    if not ok:
        R.fail('novalue:' + what, '%s%r returned %r inside the common range' % (what, at, x)); return None
    return float(x[0]), float(x[1])


class NoValue(Refused):        # (Refused passes through R.lib untouched)
    pass


def _pair(x, name, a, b):
    if not (isinstance(x, tuple) and len(x) == 2 and x[0] is not None and x[1] is not None):
        raise NoValue('%s(%r, %r) = %r' % (name, a, b, x))
    return float(x[0]), float(x[1])


def case_fluid(R, T, I, kind, t, p):
    liq = kind == 'liq'
    if liq: ok = TMIN <= t <= T13 and pliq_min(t) <= p <= PMAX
    else: ok = TMIN <= t <= TMAX and 0 < p <= pstm_max(t)
    if not ok: R.label('out-of-domain'); return
    name = 'cowat' if liq else 'supst'
    R.label(kind); R.nontrivial((kind, round(t, 9), round(p, 6)) not in PINNED)
    for d in DELTAS:
        if rel(p, pliq_min(t) if liq else pstm_max(t)) <= d * (1 + 1e-6): R.label('near:curve:%g' % d); break
    for d in DELTAS:
        if rel(p, PMAX) <= d * (1 + 1e-6): R.label('near:p100:%g' % d); break
    at = 'at t=%r degC, p=%r Pa' % (t, p)
    f67 = T.cowat if liq else T.supst
    f97 = I.cowat if liq else I.supst
    with R.lib(name):
        a = f67(t, p)
    a = two(R, a, 't2thermo.' + name, (t, p))
    with R.lib('IAPWS97.' + name):
        b = f97(t, p)
    b = two(R, b, 'IAPWS97.' + name, (t, p))
    if a is None or b is None: return
    # (a) calibrated differential
    if liq: td, tu = band_tol(CAL_LIQ, t)
    else: td, tu = band_tol(CAL_STM, t, clamp(p / pstm_max(t), 0.0, 1.0))
    ed, eu = abs(a[0] - b[0]) / b[0], abs(a[1] - b[1])
    R.label(decade('diffd:' + name, ed / td * CAL_FACTOR))
    R.check(ed <= td, 'diff:%s:d' % name, 'IFC-67 density %r vs IAPWS-97 %r: rel %.4g > %.4g (3 x calibrated maximum) %s' % (
        a[0], b[0], ed, td, at))
    R.check(eu <= tu, 'diff:%s:u' % name, 'IFC-67 internal energy %r vs IAPWS-97 %r: %.5g J/kg > %.5g (3 x calibrated maximum) %s' % (
        a[1], b[1], eu, tu, at))
    # range checking on: same value (the state is inside the documented range, except within rounding of the curve)
    if (in_cowat(t, p) if liq else in_supst(t, p)) and limit_distance(name, t, p)[1] > 1e-12:
        with R.lib(name):
            c = f67(t, p, bounds=True)
        if not (isinstance(c, tuple) and len(c) == 2 and c[0] is not None and c[1] is not None):
            R.fail('bounds:%s:none-inside' % name, '%s(%r, %r, bounds=True) = %r although the state is inside the documented range' % (name, t, p, c))
        else:
            R.check((float(c[0]), float(c[1])) == a, 'bounds:%s:on-off-differ' % name,
                    '%s(%r, %r) = %r with and %r without range checking' % (name, t, p, c, a))
    # (b) single-potential identity on the IFC-67 outputs
    hp, ht = (HP1, HT1) if liq else (HP2REL * p, HT2)
    if p - hp <= 0:
        R.label('fd-skipped'); return           # the stencil would need a negative pressure
    inr = in_cowat if liq else in_supst
    if not all(inr(tt, pp) for tt in (t - ht, t, t + ht) for pp in (p - hp, p, p + hp)):
        R.label('fd-skipped'); return           # every stencil point must lie inside the routine's stated range
    try:
        with R.lib('fd:' + name):
            res = maxwell_tp(lambda x, y: _pair(f67(x, y), name, x, y), t, p, hp, ht)
    except NoValue as e:
        R.fail('novalue:t2thermo.' + name, '%s next to %s' % (e, at)); return
    R.label(decade('resid:' + name, res))
    R.check(res <= TOL_MAXWELL[name], 'maxwell:' + name,
            '(dh/dp)_T differs from v - T (dv/dT)_p by %.3g of |v|+T|dv/dT| %s' % (res, at))


def case_sat(R, T, I, t):
    if not (TMIN <= t <= TC67): R.label('out-of-domain'); return
    R.label('sat'); R.nontrivial(round(t, 9) not in (26.85, 226.85, 326.85))
    if t == TMIN: R.label('end:sat:0.01')
    if t == TC67: R.label('end:sat:374.15')
    with R.lib('sat'):
        p = T.sat(t)
    if not num(p):
        R.fail('novalue:sat', 'sat(%r) = %r on the saturation line' % (t, p)); return
    R.check(rel(p, ksat(t)) <= TOL_KSAT, 'diff:sat:kfunction', 'sat(%r) = %r, K-function %r' % (t, p, ksat(t)))
    if t <= TC97:
        with R.lib('IAPWS97.sat'):
            p97 = I.sat(t)
        R.check(num(p97), 'novalue:IAPWS97.sat', 'IAPWS97.sat(%r) = %r on the saturation line' % (t, p97))
        if num(p97):
            tol = band_tol(CAL_SAT, t)[1]
            R.check(rel(p, p97) <= tol, 'diff:sat', 'IFC-67 sat(%r) = %r vs IAPWS-97 %r: rel %.4g > %.4g' % (t, p, p97, rel(p, p97), tol))
    with R.lib('tsat'):
        t2 = T.tsat(p)
    if not num(t2):
        R.fail('inverse:tsat(sat):novalue', 'tsat(sat(%r)) = tsat(%r) = %r' % (t, p, t2)); return
    R.check(abs(float(t2) - t) <= TOL_INV_T, 'inverse:tsat(sat)', 'tsat(sat(%r)) = %r (off by %.3g K)' % (t, t2, float(t2) - t))
    with R.lib('tsat'):
        t3 = T.tsat(p, bounds=True)
    if in_tsat(p) and limit_distance('tsat', 0, p)[1] > 1e-12:
        R.check(t3 is not None and float(t3) == float(t2), 'bounds:tsat:on-off-differ', 'tsat(%r, bounds=True) = %r, without %r' % (p, t3, t2))


def case_tsat(R, T, I, p):
    if not (ksat(TMIN) <= p <= PC67): R.label('out-of-domain'); return
    R.label('tsat'); R.nontrivial()
    if p == PC67: R.label('end:tsat:22.12MPa')
    if p == ksat(TMIN): R.label('end:tsat:sat(0.01)')
    with R.lib('tsat'):
        t = T.tsat(p)
    if not num(t):
        R.fail('novalue:tsat', 'tsat(%r) = %r on the saturation line' % (p, t)); return
    t = float(t)
    R.check(TMIN - 1e-5 <= t <= TC67 + 1e-5, 'inverse:tsat:off-line', 'tsat(%r) = %r outside 0.01..374.15' % (p, t))
    p2 = ksat(t)
    R.check(rel(p2, p) <= TOL_INV_P, 'inverse:sat(tsat)', 'sat(tsat(%r)) = sat(%r) = %r (rel %.3g)' % (p, t, p2, rel(p2, p)))
    if TMIN <= t <= TC67:
        with R.lib('sat'):
            p3 = T.sat(t)
        R.check(num(p3) and rel(p3, p) <= TOL_INV_P, 'inverse:sat(tsat)', 'sat(tsat(%r)) = sat(%r) = %r' % (p, t, p3))


def case_bnd(R, T, I, case):
    """bounds=True returns no value exactly outside the documented range.  A pressure given as the string 'sat' or
    'b23' means the library's own value of that limit at t (the limit itself, which is inside: limits are inclusive)."""
    fn = case['fn']
    R.label('bnd:' + fn); R.nontrivial()
    t, p = case.get('t'), case.get('p')
    exact = isinstance(p, str)
    if exact:
        with R.lib(p):
            pv = T.sat(t) if p == 'sat' else T.b23p(t)
        if not num(pv): R.label('out-of-domain'); return
        ok = (p == 'sat' and TMIN <= t <= (TC67 if fn == 'tsat' else T13)) or (p == 'b23' and fn == 'supst' and T13 < t <= T23)
        if not ok or (fn == 'tsat' and t != TMIN): R.label('out-of-domain'); return
        p = float(pv)
        if rel(p, ksat(t) if case['p'] == 'sat' else lb23(t)) > 1e-9:
            R.label('limit-curve-differs'); return     # reported by diff:sat:kfunction, not judged here
        inside = True
        R.label('bnd:%s:on-limit:%s' % (fn, case['p']))
    if fn == 'sat':
        inside = in_sat(t)
        flat, curved = limit_distance('sat', t, 0)
        args, state = (t,), 't=%r' % t
    elif fn == 'tsat':
        if not p > 0:
            # zero and negative pressures are outside every stated range: with range checking on, no value (and no exception)
            R.label('bnd:tsat:non-positive-pressure')
            with R.lib('tsat'):
                v = T.tsat(p, bounds=True)
            R.check(v is None, 'bounds:tsat:value-outside', 'tsat(%r, bounds=True) = %r although the pressure is outside the documented range' % (p, v))
            return
        if not exact: inside = in_tsat(p)
        flat, curved = limit_distance('tsat', 0, p)
        args, state = (p,), 'p=%r' % p
    else:
        if p == 0: R.label('out-of-domain'); return
        if not exact: inside = in_cowat(t, p) if fn == 'cowat' else in_supst(t, p)
        flat, curved = limit_distance(fn, t, p)
        args, state = (t, p), 't=%r, p=%r' % (t, p)
    dist = min(flat, curved)
    for d in DELTAS + (1.0,):
        if dist <= d * (1 + 1e-6):
            R.label('bnd:%s:%s:%g' % (fn, 'in' if inside else 'out', d)); break
    if flat == 0.0: R.label('bnd:%s:on-limit:constant' % fn)
    f = getattr(T, fn)
    # call history: in half of the cases (chosen by a stable hash of the case) the same state is first evaluated
    # WITHOUT range checking - whatever that returns or raises outside the range is not judged - so that an answer
    # which depends on an earlier call with the other flag (a cache keyed on the state alone) is exposed
    import zlib, json as _json
    if zlib.crc32(_json.dumps(case, sort_keys=True).encode()) & 1:
        R.label('bnd:order:off-then-on')
        try: f(*args)
        except Exception: pass
    else:
        R.label('bnd:order:on-first')
    with R.lib(fn):
        on = f(*args, bounds=True)
    none = on is None or (isinstance(on, tuple) and all(v is None for v in on))
    if fn in ('cowat', 'supst') and none:
        R.check(isinstance(on, tuple) and len(on) == 2, 'bounds:%s:not-a-pair' % fn, '%s(%s, bounds=True) = %r, documented (None, None)' % (fn, state, on))
    if curved <= 1e-12 and not exact:
        R.label('bnd:either'); return          # within rounding of a curved limit: either answer
    if inside:
        R.check(not none, 'bounds:%s:none-inside' % fn, '%s(%s, bounds=True) = %r although the state is inside the documented range' % (fn, state, on))
        if not none:
            with R.lib(fn):
                off = f(*args)
            same = (tuple(float(v) for v in on) == tuple(float(v) for v in off)) if isinstance(on, tuple) else float(on) == float(off)
            R.check(same, 'bounds:%s:on-off-differ' % fn, '%s(%s) = %r with and %r without range checking' % (fn, state, on, off))
    else:
        sig = 'bounds:%s:value-outside' % fn
        if fn == 'supst' and T13 < t <= TC67 and lb23(t) < p <= ksat(t): sig = 'bounds:supst:value-in-subregion3(350-374.15degC)'
        R.check(none, sig, '%s(%s, bounds=True) = %r although the state is outside the documented range' % (fn, state, on))
    # asking again gives the same answer - the second time with the flag given positionally, as the documented
    # signatures cowat(t, p, bounds), supst(t, p, bounds), sat(t, bounds), tsat(p, bounds) allow
    with R.lib(fn):
        again = f(*(tuple(args) + (True,)))
    none2 = again is None or (isinstance(again, tuple) and all(v is None for v in again))
    R.check(none2 == none, 'bounds:%s:answer-changes-on-repeat' % fn, '%s(%s, bounds=True) = %r, then %s(%s, True) = %r' % (
        fn, state, on, fn, state, again))
    if not none and not none2:
        same = (tuple(float(v) for v in on) == tuple(float(v) for v in again)) if isinstance(on, tuple) else float(on) == float(again)
        R.check(same, 'bounds:%s:positional-flag-differs' % fn, '%s(%s, bounds=True) = %r but %s(%s, True) = %r' % (fn, state, on, fn, state, again))


def case_reg(R, T, I, t, p):
    band = reg_pressures(t) if (TMIN <= t <= T13 or TC67 < t <= TMAX) else 'x'
    if band == 'x' or not (0 < p <= PMAX) or (band is not None and band[0] < p < band[1]):
        R.label('out-of-domain'); return
    R.label('reg'); R.nontrivial()
    with R.lib('region'):
        a = T.region(t, p)
    with R.lib('IAPWS97.region'):
        b = I.region(t, p)
    R.label('region:%s' % a)
    if a is None or b is None:
        R.fail('region:none', 't2thermo.region(%r, %r) = %r, IAPWS97.region = %r inside 0.01..800 degC, p <= 100 MPa' % (t, p, a, b)); return
    R.check(a == b, 'region:disagree', 't2thermo.region(%r, %r) = %r, IAPWS97.region = %r' % (t, p, a, b))
    # and both agree with the plain definition
    if t <= T13: want = 1 if p > max(ksat(t), sat97(t)) else 2
    elif t <= T23: want = 3 if p > max(lb23(t), b97(t)) else 2
    else: want = 2
    R.check(a == want, 'region:wrong', 't2thermo.region(%r, %r) = %r, definition gives %r' % (t, p, a, want))


def case_ssf(R, T, I, hs, p1, p2):
    ok = len(hs) >= 1 and all(0.0 <= h <= 3.5e6 for h in hs) and 0.1e6 <= p1 <= 5e6 and (p2 is None or 0.1e6 <= p2 <= 5e6)
    if not ok or list(hs) != sorted(hs): R.label('out-of-domain'); return
    R.label('ssf:two-stage' if p2 is not None else 'ssf:one-stage'); R.nontrivial()
    if p2 is not None and p2 > p1: R.label('ssf:second-stage-at-higher-pressure')
    for p in (p1, p2):
        if p is None: continue
        with R.lib('tsat'):
            ts = T.tsat(p)
        if not num(ts):
            R.fail('novalue:tsat', 'tsat(%r) = %r' % (p, ts)); return
    fr = []
    for h in hs:
        with R.lib('ssf'):
            x = T.separated_steam_fraction(h, p1) if p2 is None else T.separated_steam_fraction(h, p1, p2)
        if not num(x):
            R.fail('ssf:novalue', 'separated_steam_fraction(%r, %r, %r) = %r' % (h, p1, p2, x)); return
        x = float(x)
        R.check(0.0 <= x <= 1.0, 'ssf:outside[0,1]', 'separated_steam_fraction(%r, %r, %r) = %r' % (h, p1, p2, x))
        fr.append(x)
    if any(0.0 < x < 1.0 for x in fr): R.label('ssf:interior')
    if fr and fr[0] == 0.0: R.label('ssf:clamped-0')
    if fr and fr[-1] == 1.0: R.label('ssf:clamped-1')
    for i in range(1, len(fr)):
        if hs[i] > hs[i - 1]:
            R.check(fr[i] >= fr[i - 1], 'ssf:decreasing',
                    'separated_steam_fraction falls from %r at h=%r to %r at h=%r (p1=%r, p2=%r)' % (fr[i - 1], hs[i - 1], fr[i], hs[i], p1, p2))


def run_case(case, R):
    selftest()
    T, I = libs()
    k = case['k']
    if k in ('liq', 'stm'): case_fluid(R, T, I, k, float(case['t']), float(case['p']))
    elif k == 'sat': case_sat(R, T, I, float(case['t']))
    elif k == 'tsat': case_tsat(R, T, I, float(case['p']))
    elif k == 'bnd': case_bnd(R, T, I, case)
    elif k == 'reg': case_reg(R, T, I, float(case['t']), float(case['p']))
    elif k == 'ssf': case_ssf(R, T, I, [float(h) for h in case['h']], float(case['p1']), None if case['p2'] is None else float(case['p2']))
    else: raise HarnessError('unknown case kind %r' % k)
    purity(R, T, case)


def _same(a, b):
    if isinstance(a, tuple) or isinstance(b, tuple):
        return isinstance(a, tuple) and isinstance(b, tuple) and len(a) == len(b) and all(_same(x, y) for x, y in zip(a, b))
    if a is None or b is None: return a is None and b is None
    return float(a) == float(b) or (float(a) != float(a) and float(b) != float(b))


def purity(R, T, case):
    """Call history: the same state evaluated again after a call at a different state (and with the other bounds
    flag) gives the same answer."""
    k = case['k']
    calls = []
    if k in ('liq', 'stm'):
        t, p = float(case['t']), float(case['p'])
        f = T.cowat if k == 'liq' else T.supst
        calls = [(f, (t, p), {}, (t * 0.97 + 1.0, p * 1.03), {'bounds': True}), (T.region, (t, p), {}, (t + 40.0, p * 0.5), {})]
    elif k == 'sat':
        calls = [(T.sat, (float(case['t']),), {}, (float(case['t']) * 0.5 + 1.0,), {'bounds': True})]
    elif k == 'tsat':
        calls = [(T.tsat, (float(case['p']),), {}, (float(case['p']) * 0.7,), {'bounds': True})]
    elif k == 'ssf':
        h = [float(x) for x in case['h']]
        p1 = float(case['p1']); p2 = None if case['p2'] is None else float(case['p2'])
        a0 = (h[0], p1) if p2 is None else (h[0], p1, p2)
        calls = [(T.separated_steam_fraction, a0, {}, (h[-1] * 0.5 + 1e5, min(5e6, p1 * 1.5)), {})]
    for f, args, kw, other, okw in calls:
        try:
            a = f(*args, **kw)
            try: f(*other, **okw)
            except Exception: pass
            b = f(*args, **kw)
        except Exception:
            continue
        R.check(_same(a, b), 'purity:' + f.__name__, '%s%r = %r, and %r when asked again after %s%r %r' % (f.__name__, args, a, b, f.__name__, other, okw))


def finish(tier, seed, total):
    return {'calibration': {'factor': CAL_FACTOR,
                            'liquid[t_lo,t_hi,max_rel_d,max_abs_u]': [list(r) for r in CAL_LIQ],
                            'steam[t_lo,t_hi,f_lo,f_hi,max_rel_d,max_abs_u]': [list(r) for r in CAL_STM],
                            'psat[t_lo,t_hi,max_rel]': [list(r) for r in CAL_SAT]},
            'tolerances': {'maxwell_rel': dict(TOL_MAXWELL), 'tsat_inverse_K': TOL_INV_T, 'sat_inverse_rel': TOL_INV_P}}


LEVEL_TEXT = ('Generated-input search over the common range of the two formulations: tensor grids for liquid, steam, the saturation '
              'line, the region classifier and the steam-fraction routine, Hypothesis floats, and an explicit lattice of states '
              'inside/outside every limit of every documented range (relative offsets 0, 1e-9, 1e-6, 1e-3, 1e-2, 0.3). Oracles: '
              'calibrated differential IFC-67 vs IAPWS-97 (tolerance oracle), coefficient-free Maxwell identity, tsat/sat inverse, '
              'exact range predicate, classifier agreement, [0,1] and monotonicity of the steam fraction. Refutes, never proves.')
LEVEL_NOTE = ('Oracle (a) is a tolerance oracle: bound = 3 x the measured maximum of the sub-range (table in the module and in the '
              'evidence); it cannot see coefficient changes below the IFC-67/IAPWS-97 difference, the Maxwell identity and the '
              'independent K-/L-function predicate can.')
TECHNIQUE = ('property-based testing (Hypothesis) + dense grid enumeration + boundary lattice; calibrated differential oracle between '
             'two formulations, thermodynamic-identity oracle by Richardson finite differences, inverse-function and exact '
             'range-predicate oracles, monotonicity of the steam fraction')


def calibrate(n=120):
    """Re-measure CAL_LIQ, CAL_STM, CAL_SAT and the identity residuals on the tree under test (prints)."""
    T, I = libs()
    print('CAL_LIQ')
    for lo, hi, _d, _u in CAL_LIQ:
        md = mu = 0.0
        for t in lin(lo, hi, n):
            pl = pliq_min(t)
            for f in lin(0.0, 1.0, n):
                p = clamp(pl + f * f * (PMAX - pl), pl, PMAX)
                a, b = T.cowat(t, p), I.cowat(t, p)
                md = max(md, abs(a[0] - b[0]) / b[0]); mu = max(mu, abs(a[1] - b[1]))
        print('    (%r, %r, %.3g, %.1f),' % (lo, hi, md, mu))
    print('CAL_STM')
    for lo, hi, flo, fhi, _d, _u in CAL_STM:
        md = mu = 0.0
        for t in lin(lo, hi, n):
            ph = pstm_max(t)
            for f in lin(flo, fhi, n):
                p = clamp(f * ph, PMIN_STEAM, ph)
                a, b = T.supst(t, p), I.supst(t, p)
                md = max(md, abs(a[0] - b[0]) / b[0]); mu = max(mu, abs(a[1] - b[1]))
        print('    (%r, %r, %r, %r, %.3g, %.1f),' % (lo, hi, flo, fhi, md, mu))
    print('CAL_SAT')
    for lo, hi, _m in CAL_SAT:
        print('    (%r, %r, %.3g),' % (lo, hi, max(rel(T.sat(t), I.sat(t)) for t in lin(lo, hi, 40 * n))))
    m1 = max(maxwell_tp(T.cowat, c['t'], c['p'], HP1, HT1) for c in grid_liq(n, n // 2)())
    m2 = max(maxwell_tp(T.supst, c['t'], c['p'], HP2REL * c['p'], HT2) for c in grid_stm(n, n // 2)())
    print('maxwell cowat %.3g supst %.3g' % (m1, m2))
