"""C09 - reordering, renaming and MINC do not change the physics the grid describes."""
import os, math
from hypothesis import strategies as st
from vlib.core import Search, HarnessError
from gens import geo

ID = 'C09'
CASE_TIMEOUT = 300
RULE = ('grids built from geometry recipes (rectangular and irregular, all atmosphere types, surfaces giving unequal '
        'distances and non-zero gravity cosines) x a drawn sequence of {reorder with any block permutation, connection '
        'permutation and reversed subset; rename with fresh / swap / cycle / shift maps; optional write+read of the data '
        'file}; blocks and connections are tracked by object identity (and by the cumulative rename map across a file '
        'round trip) and their physical signature compared before/after. minc: 2..6 unnormalised volume fractions x 1..3 '
        'fracture-plane sets x scalar/list spacing x full/partial selection, with boundary blocks of zero or huge volume; '
        'embed: volume conservation. Non-trivial = a connection with unequal distances or non-zero gravity cosine was '
        'reversed, or MINC was applied to a partial selection / unnormalised fractions; distinct = case JSON.'
        " Also: reorder(geo=...) from the geometry the grid was built from, with the geometry's atmosphere type optionally set through its property first; block centres must survive the file (presence included)."
        " Rounds 7-10: MINC after reverse / rotate / demote; selections given as names, objects, None or the grid's own list; embedded grids converted from a geometry with atmosphere blocks; a first embed refused for a shared block name.")
ASSUMPTIONS = ['gravity cosine and distances are stored for the orientation block[0] -> block[1] (TOUGH2 CONNE record semantics)',
               'after a data-file round trip values are compared to the precision of their fields (relative 6e-4 for 10.4e fields, '
               'absolute 6e-8 for the 10.7f gravity cosine)']


def physical_signature(grid):
    """identity-tracked: block id -> (volume, rock, centre); frozenset(ids) -> per-side data"""
    blocks = {}
    for b in grid.blocklist:
        blocks[id(b)] = {'name': b.name, 'volume': float(b.volume), 'rock': b.rocktype.name,
                         'centre': None if b.centre is None else [float(x) for x in b.centre]}
    cons = {}
    for c in grid.connectionlist:
        a, b = c.block
        cons[frozenset((id(a), id(b)))] = {
            'area': float(c.area), 'direction': c.direction,
            'dist': {id(a): float(c.distance[0]), id(b): float(c.distance[1])},
            'nad': {id(a): c.nad1, id(b): c.nad2},
            # cosine for the orientation smaller-id -> larger-id (arbitrary but fixed reference orientation)
            'cos_ref': (float(c.dircos) if c.dircos is not None else None) if id(a) < id(b)
                       else (-float(c.dircos) if c.dircos is not None else None),
            'names': (a.name, b.name)}
    return blocks, cons


def compare_sig(R, tag, before, after, ids=None, tol=None, nad=True):
    """ids: optional map old id -> new id (file round trip); tol: None = exact"""
    b0, c0 = before; b1, c1 = after
    mp = (lambda i: ids[i]) if ids is not None else (lambda i: i)

    def eq(x, y, kind='rel'):
        if x is None or y is None: return x is None and y is None
        if tol is None: return x == y
        if kind == 'cos': return abs(x - y) <= 6e-8
        return abs(x - y) <= tol * max(abs(x), abs(y)) + 1e-300
    if not R.check(set(mp(i) for i in b0) == set(b1), tag + ':block-set', 'blocks lost or invented'): return
    for i, v in b0.items():
        w = b1[mp(i)]
        R.check(eq(v['volume'], w['volume']), tag + ':block-volume', '%r volume %r -> %r' % (w['name'], v['volume'], w['volume']))
        R.check(v['rock'] == w['rock'], tag + ':block-rock', '%r rock %r -> %r' % (w['name'], v['rock'], w['rock']))
        if True:
            ok = (v['centre'] is None and w['centre'] is None) or (
                v['centre'] is not None and w['centre'] is not None and
                all(abs(p - q) <= (0 if tol is None else 6e-4 * max(abs(p), abs(q), 1e-30) + 1e-300) for p, q in zip(v['centre'], w['centre'])))
            R.check(ok, tag + ':block-centre', '%r centre %r -> %r' % (w['name'], v['centre'], w['centre']))
    k0 = dict((frozenset(mp(i) for i in k), v) for k, v in c0.items())
    if not R.check(set(k0) == set(c1), tag + ':connection-set', 'connected pairs changed'): return
    for k, v in k0.items():
        w = c1[k]
        nm = w['names']
        R.check(eq(v['area'], w['area']), tag + ':area', '%r area %r -> %r' % (nm, v['area'], w['area']))
        R.check(v['direction'] == w['direction'], tag + ':direction', '%r permeability direction %r -> %r' % (nm, v['direction'], w['direction']))
        inv = dict((mp(i), i) for i in v['dist'])
        for j in w['dist']:
            R.check(eq(v['dist'][inv[j]], w['dist'][j]), tag + ':distance',
                    '%r: a block\'s own distance to the interface changed: %r -> %r' % (nm, sorted(v['dist'].values()), sorted(w['dist'].values())))
            if nad: R.check(v['nad'][inv[j]] == w['nad'][j], tag + ':nad', '%r: nad moved to the other block' % (nm,))
        # oriented cosine: re-express the reference orientation through the id map
        ids_old = sorted(v['dist'])       # reference orientation of "before": smaller old id -> larger old id
        a_new, b_new = mp(ids_old[0]), mp(ids_old[1])
        cos_after = w['cos_ref'] if w['cos_ref'] is None else (w['cos_ref'] if a_new < b_new else -w['cos_ref'])
        R.check(eq(v['cos_ref'], cos_after, 'cos'), tag + ':gravity-cosine',
                '%r: gravity cosine for the same physical orientation %r -> %r' % (nm, v['cos_ref'], cos_after))


def seq_case():
    @st.composite
    def s(draw):
        rc = draw(geo.geometry(max_nx=4, max_ny=4, max_nz=4, shipped=True, ops=False, with_surfaces=True,
                               max_shipped_cols=20, tiny_ok=True, conventions=(0, 1, 2)))
        steps = []
        for _ in range(draw(st.integers(1, 4))):
            k = draw(st.sampled_from(['reorder', 'reorder', 'rename', 'file', 'reorder_geo', 'demote']))
            if k == 'reorder':
                steps.append({'op': 'reorder', 'bseed': draw(st.integers(0, 10 ** 6)), 'cseed': draw(st.integers(0, 10 ** 6)),
                              'flip': draw(st.one_of(st.sampled_from(['none', 'all', 'first']),
                                                     st.lists(st.integers(0, 500), min_size=1, max_size=12))),
                              'with_blocks': draw(st.booleans())})
            elif k == 'rename':
                steps.append({'op': 'rename', 'src': draw(st.lists(st.integers(0, 500), min_size=1, max_size=6)),
                              'kind': draw(st.sampled_from(['fresh', 'swap', 'cycle', 'shift']))})
            elif k == 'reorder_geo':
                steps.append({'op': 'reorder_geo'})
            elif k == 'demote':
                steps.append({'op': 'demote', 'blocks': draw(st.lists(st.integers(0, 500), min_size=1, max_size=5)),
                              'repeat': draw(st.booleans())})
            else:
                steps.append({'op': 'file', 'mesh': draw(st.sampled_from(['infile', 'infile', 'meshfile', 'binary']))})
        c = {'k': 'seq', 'rc': rc, 'steps': steps}
        # the geometry's atmosphere type set through its property after construction (the grid is built afterwards)
        if draw(st.integers(0, 2)) == 0: c['atmos_setter'] = draw(st.lists(st.sampled_from([0, 1, 2]), min_size=1, max_size=2))
        return c
    return s()


def minc_case():
    @st.composite
    def s(draw):
        rc = draw(geo.geometry(max_nx=3, max_ny=3, max_nz=3, shipped=False, ops=False, with_surfaces=True, tiny_ok=True,
                               conventions=(0,)))
        nf = draw(st.integers(2, 6))
        vf = [draw(st.sampled_from([0.02, 0.1, 0.3, 1.0, 5.0, 20.0, 50.0])) for _ in range(nf)]
        if draw(st.integers(0, 3)) == 0:
            # fractions as people type them: rounded thirds / sixths / sevenths, adding up to almost - not exactly - one
            vf = draw(st.sampled_from([[0.03333, 0.13333, 0.83333], [0.33333, 0.66666], [0.16667, 0.16667, 0.66667],
                                       [0.142857, 0.285714, 0.571428], [0.1, 0.2, 0.3, 0.39999], [0.05, 0.95001]]))
        nfp = draw(st.integers(1, 3))
        spacing = draw(st.one_of(st.sampled_from([10.0, 50.0, 100.0]),
                                 st.lists(st.sampled_from([10.0, 40.0, 80.0]), min_size=1, max_size=3)))
        return {'k': 'minc', 'rc': rc, 'vf': vf, 'nfp': nfp, 'spacing': spacing,
                'select': draw(st.one_of(st.none(), st.lists(st.integers(0, 200), min_size=1, max_size=8))),
                'boundary': draw(st.sampled_from(['none', 'zero', 'huge', 'both'])),
                'host_standin': draw(st.booleans()),
                # the grid may have been put in another block order before MINC is applied
                'pre': draw(st.sampled_from(['none', 'none', 'reverse', 'rotate', 'demote-first'])),
                'select_form': draw(st.sampled_from(['names', 'names', 'objects', 'own-list', 'none'])),
                # the embedded grid may itself come from a geometry, with atmosphere blocks (of a small volume)
                'sub': draw(st.sampled_from(['blocks', 'blocks', 'geo-atm0', 'geo-atm1', 'geo-atm2']))}
    return s()


def searches(tier):
    q = tier == 'quick'
    return [Search('reorder_rename_file', 'hyp', seq_case, n=2000 if q else 24000, shards=8 if q else 16),
            Search('minc_embed', 'hyp', minc_case, n=1200 if q else 12000, shards=8 if q else 16)]


def _perm(n, seed):
    """deterministic permutation of range(n) from an integer (no RNG state): Lehmer code of the seed"""
    items = list(range(n)); out = []
    s = seed
    for k in range(n, 0, -1):
        s, r = divmod(s * 6364136223846793005 + 1442695040888963407, k)
        out.append(items.pop(r))
        s = s % (1 << 64)
    return out


def run_seq(case, R):
    import t2grids, t2data, mulgrids
    try:
        gg = geo.build(case['rc'])
    except mulgrids.NamingConventionError:
        R.label('build:naming-capacity'); return
    if geo.input_defects(gg): R.exclude('input:invalid-geometry'); return
    for v in case.get('atmos_setter') or []:
        R.label('geometry:atmosphere-type-set-by-property')
        with R.lib('set-atmosphere_type'): gg.atmosphere_type = v
    with R.lib('fromgeo'):
        grid = t2grids.t2grid().fromgeo(gg)
    if case.get('rocks', len(case['steps']) % 2 == 1):
        # user-assigned rock types with blank-padded five-character names: one for the atmosphere blocks, one for every third block
        R.label('rocks:blank-padded-names-assigned')
        for nm_ in ('atm  ', ' cap ', 'r1   '): grid.add_rocktype(t2grids.rocktype(nm_))
        for i_, b_ in enumerate(grid.blocklist):
            if b_.atmosphere: b_.rocktype = grid.rocktype['atm  ']
            elif i_ % 3 == 1: b_.rocktype = grid.rocktype[' cap ' if i_ % 2 else 'r1   ']
    renamed = False
    for i, c in enumerate(grid.connectionlist):       # make nad1/nad2 side-specific so a mix-up is visible
        if i % 3 == 0: c.nad1, c.nad2 = 1, 2
    nontrivial = False
    for step in case['steps']:
        before = physical_signature(grid)
        nb, nc = grid.num_blocks, grid.num_connections
        if step['op'] == 'reorder':
            R.label('step:reorder')
            bp = _perm(nb, step['bseed']); cp = _perm(nc, step['cseed'])
            fl = step['flip']
            flips = set() if fl == 'none' else set(range(nc)) if fl == 'all' else {0} if fl == 'first' else set(i % nc for i in fl) if nc else set()
            bnames = [grid.blocklist[i].name for i in bp] if step['with_blocks'] else None
            cnames = []
            for i in cp:
                c = grid.connectionlist[i]
                nm = (c.block[0].name, c.block[1].name)
                if i in flips:
                    nm = nm[::-1]
                    if c.distance[0] != c.distance[1] or c.dircos not in (0, 0.0, None) or c.nad1 != c.nad2:
                        nontrivial = True; R.label('reversed:asymmetric-connection')
                cnames.append(nm)
            with R.lib('reorder'):
                grid.reorder(bnames, cnames if nc else None)
            if bnames is not None:
                R.check([b.name for b in grid.blocklist] == bnames, 'reorder:block-order', 'block order is not the requested one')
            if nc:
                R.check([(c.block[0].name, c.block[1].name) for c in grid.connectionlist] == cnames, 'reorder:connection-order',
                        'connection order/orientation is not the requested one')
            compare_sig(R, 'reorder', before, physical_signature(grid))
        elif step['op'] == 'demote':
            # the library's other block-reordering call: the named blocks go to the end of the list, in the order given
            # (a name given twice is still one block)
            R.label('step:demote' + (':repeated-name' if step['repeat'] else ''))
            names0 = [b.name for b in grid.blocklist]
            sel = list(dict.fromkeys(names0[i % nb] for i in step['blocks']))
            arg = sel + sel[:1] if step['repeat'] else sel
            with R.lib('demote_block'):
                grid.demote_block(arg if len(arg) > 1 else arg[0])
            want = [n for n in names0 if n not in sel] + sel
            got_names = [b.name for b in grid.blocklist]
            if step['repeat']:
                # a name mentioned twice: the documentation fixes only that the named blocks end up last - still one of each
                ok_order = got_names[:len(want) - len(sel)] == want[:len(want) - len(sel)] and sorted(got_names[len(want) - len(sel):]) == sorted(sel)
            else: ok_order = got_names == want
            R.check(ok_order, 'demote:block-order',
                    lambda: 'after demote_block(%r): %d blocks %r..., expected %d %r...' % (
                        arg, len(grid.blocklist), [b.name for b in grid.blocklist][-4:], len(want), want[-4:]))
            compare_sig(R, 'demote', before, physical_signature(grid))
        elif step['op'] == 'reorder_geo':
            # the other form of the call: the order is taken from a geometry (here the one the grid was built from)
            if renamed or [b.name for b in grid.blocklist] and sorted(b.name for b in grid.blocklist) != sorted(gg.block_name_list):
                R.label('step:reorder_geo:skipped(names no longer the geometry\'s)'); continue
            R.label('step:reorder_geo')
            with R.lib('reorder-geo'):
                grid.reorder(geo=gg)
            R.check([b.name for b in grid.blocklist] == list(gg.block_name_list), 'reorder-geo:block-order', 'block order is not the geometry\'s')
            compare_sig(R, 'reorder-geo', before, physical_signature(grid))
        elif step['op'] == 'rename':
            renamed = True
            R.label('step:rename:' + step['kind'])
            names = [b.name for b in grid.blocklist]
            src = list(dict.fromkeys(names[i % nb] for i in step['src']))
            used = set(names)
            fresh = []
            n = 0
            while len(fresh) < len(src) + 1:
                cand = 'Q%s%2d' % ('abcdefghijklmnopqrstuvwxyz'[n // 90 % 26] + 'x', 10 + n % 90)
                if cand not in used: fresh.append(cand)
                n += 1
            kind = step['kind']
            if kind == 'fresh': tg = fresh[:len(src)]
            elif kind == 'swap': tg = src[:2][::-1] + src[2:]
            elif kind == 'cycle': tg = src[1:] + src[:1]
            else: tg = src[1:] + [fresh[0]]
            mp = dict((a, b) for a, b in zip(src, tg) if a != b)
            if not mp: R.label('rename:empty'); continue
            # names must survive the (A3,I2) repair unchanged
            if any(mulgrids.fix_blockname(v) != v or mulgrids.fix_blockname(k) != k for k, v in mp.items()):
                R.label('rename:repair-sensitive-skipped'); continue
            with R.lib('rename_blocks'):
                grid.rename_blocks(dict(mp))
            R.check(sorted(b.name for b in grid.blocklist) == sorted(mp.get(n, n) for n in names), 'rename:names',
                    'names after renaming are not the mapped names')
            compare_sig(R, 'rename', before, physical_signature(grid))
        else:
            R.label('step:file')
            dat = t2data.t2data()
            dat.grid = grid
            fn = os.path.join(R.tmp, 'g.dat')
            old_by_name = dict((b.name, id(b)) for b in grid.blocklist)
            from refs.incon_ref import a3i2_print as _p
            mesh = step.get('mesh', 'infile')
            if mesh == 'binary' and (any(b.centre is None for b in grid.blocklist) or any(_p(b.name) != b.name for b in grid.blocklist)):
                mesh = 'meshfile'       # MESHA/MESHB hold centres and verbatim names: only for grids that have both in file form
            R.label('file:mesh-' + mesh)
            mf = '' if mesh == 'infile' else os.path.join(R.tmp, 'MESH') if mesh == 'meshfile' else \
                [os.path.join(R.tmp, 'MESHA'), os.path.join(R.tmp, 'MESHB')]
            with R.lib('write'):
                dat.write(fn, meshfilename=mf)
            with R.lib('read'):
                d2 = t2data.t2data(fn, meshfilename=mf)
            grid2 = d2.grid
            new_by_name = dict((b.name, id(b)) for b in grid2.blocklist)
            # a name passes through the simulator's (A3,I2) form on the way out and is repaired on the way in
            from refs.incon_ref import a3i2_print, quirk_repair
            canon = dict((n, quirk_repair(a3i2_print(n))) for n in old_by_name)
            if len(set(canon.values())) != len(canon):
                R.exclude('domain:names-collide-in-A3I2-form'); return
            if any(canon[n] != n for n in canon): R.label('file:names-normalised-by-A3I2')
            if not R.check(set(canon.values()) == set(new_by_name), 'file:block-names', 'block names changed in the data file'):
                return
            ids = dict((old_by_name[n], new_by_name[canon[n]]) for n in old_by_name)
            compare_sig(R, 'file', before, physical_signature(grid2), ids=ids, tol=6e-4, nad=(mesh != 'binary'))    # (MESHB has no NAD fields)
            R.check([b.name for b in grid2.blocklist] == [canon[b.name] for b in grid.blocklist], 'file:block-order', 'block order changed')
            R.check([(c.block[0].name, c.block[1].name) for c in grid2.connectionlist] ==
                    [(canon[c.block[0].name], canon[c.block[1].name]) for c in grid.connectionlist], 'file:connection-order',
                    'connection order/orientation changed')
            grid = grid2
        if R.findings: break
    R.nontrivial(nontrivial)


def run_minc(case, R):
    import t2grids, mulgrids, numpy as np
    try:
        gg = geo.build(case['rc'])
    except mulgrids.NamingConventionError:
        R.label('build:naming-capacity'); return
    with R.lib('fromgeo'):
        grid = t2grids.t2grid().fromgeo(gg)
    nb = grid.num_blocks
    if case['boundary'] in ('zero', 'both') and nb > 1: grid.blocklist[-1].volume = 0.0
    if case['boundary'] in ('huge', 'both') and nb > 2: grid.blocklist[1].volume = 1e30
    pre = case.get('pre', 'none')
    if pre != 'none' and nb > 1:
        R.label('minc:after-' + pre)
        order = [b.name for b in grid.blocklist]
        with R.lib('pre-' + pre):
            if pre == 'reverse': grid.reorder(order[::-1])
            elif pre == 'rotate': grid.reorder(order[nb // 2:] + order[:nb // 2])
            else: grid.demote_block(order[:max(1, gg.num_atmosphere_blocks)])
    sel = None
    if case['select'] is not None:
        sel = list(dict.fromkeys(grid.blocklist[i % nb].name for i in case['select']))
    names0 = [b.name for b in grid.blocklist]
    vol0 = dict((b.name, float(b.volume)) for b in grid.blocklist)
    cons0 = [(c.block[0].name, c.block[1].name, float(c.area), [float(d) for d in c.distance]) for c in grid.connectionlist]
    vf = [float(v) for v in case['vf']]
    tot = sum(vf)
    R.label('minc:levels:%d' % len(vf), 'minc:planes:%d' % case['nfp'], 'minc:%s' % ('partial' if sel else 'all'),
            'minc:boundary:' + case['boundary'], 'minc:fractions-%s' % ('normalised' if abs(tot - 1) < 1e-12 else 'unnormalised'))
    R.nontrivial(bool(sel) or abs(tot - 1) > 1e-12)
    target = sel if sel else names0
    proc = [n for n in target if 0. < vol0[n] < 1e25]
    new = [str(l) + n[len(str(l)):] for n in proc for l in range(1, len(vf))]
    collide = len(set(new)) != len(new) or bool(set(new) & set(names0))
    try:
        with R.lib('minc'):
            form = case.get('select_form', 'names')
            R.label('minc:selection-as-' + (form if (sel or form != 'own-list') else 'the-grid-own-block-list'))
            if form == 'objects': arg = [grid.block[n] for n in target]
            elif form == 'own-list' and not sel: arg = grid.blocklist          # "all blocks", said with the grid's own list
            elif form == 'none' and not sel: arg = None
            else: arg = list(target)
            grid.minc(vf, spacing=case['spacing'], num_fracture_planes=case['nfp'], blocks=arg)
    except Exception as e:
        if type(e).__name__ == 'Aborted' and collide and R.findings and 'Duplicate MINC matrix block name' in R.findings[-1][1]:
            R.findings.pop(); R.label('minc:refused-name-collision'); return
        raise
    if collide:
        R.label('minc:collision-not-refused')     # matrix names collide: outcome not judged
        return
    # untouched blocks
    for n in names0:
        if n not in proc:
            R.check(float(grid.block[n].volume) == vol0[n], 'minc:untouched-block-changed', '%r volume %r -> %r' % (n, vol0[n], grid.block[n].volume))
    got_cons = [(c.block[0].name, c.block[1].name) for c in grid.connectionlist]
    R.check(got_cons[:len(cons0)] == [(a, b) for a, b, _x, _d in cons0], 'minc:original-connections-changed', 'original connections reordered or lost')
    for (a, b, ar, ds), c in zip(cons0, grid.connectionlist):
        R.check(float(c.area) == ar and [float(d) for d in c.distance] == ds, 'minc:original-connection-params', '%r' % ((a, b),))
    chain = []
    for n in proc:
        parts = [n] + [str(l) + n[len(str(l)):] for l in range(1, len(vf))]
        if not R.check(all(p in grid.block for p in parts), 'minc:continua-missing', 'block %r: continua %r' % (n, parts)): continue
        vols = [float(grid.block[p].volume) for p in parts]
        R.check(abs(sum(vols) - vol0[n]) <= 1e-12 * vol0[n], 'minc:volume-sum',
                'block %r: continua %r sum to %r, original %r' % (n, vols, sum(vols), vol0[n]))
        for l, (v, f) in enumerate(zip(vols, vf)):
            R.check(abs(v - vol0[n] * f / tot) <= 1e-12 * vol0[n], 'minc:volume-fraction',
                    'block %r level %d: %r expected %r x %r/%r' % (n, l, v, vol0[n], f, tot))
        chain += list(zip(parts[:-1], parts[1:]))
    R.check(got_cons[len(cons0):] == chain, 'minc:chain', lambda: 'added connections %r expected nested chain %r' % (
        got_cons[len(cons0):][:4], chain[:4]))
    R.check(grid.num_blocks == len(names0) + len(new), 'minc:block-count', '%d blocks expected %d' % (grid.num_blocks, len(names0) + len(new)))
    # embed: volume conservation
    host = next((b for b in grid.blocklist if 1.0 < b.volume < 1e25), None)
    if host is not None:
        total0 = sum(float(b.volume) for b in grid.blocklist)
        vols_before = dict((b.name, float(b.volume)) for b in grid.blocklist)
        sub = t2grids.t2grid()
        sub.add_rocktype(t2grids.rocktype('sub  '))
        s1 = t2grids.t2block('Zz 98', 0.25, sub.rocktypelist[0], centre=[0., 0., 0.])
        s2 = t2grids.t2block('Zz 99', 0.5, sub.rocktypelist[0], centre=[0., 0., 1.])
        sub.add_block(s1); sub.add_block(s2)
        sub.add_connection(t2grids.t2connection([s1, s2], 1, [0.1, 0.2], 1.0, 0.0))
        subvol = 0.75
        if case.get('sub', 'blocks') != 'blocks' and not any(n[2] in 'XY' or n == 'SUBAT' for n in vols_before):
            # a sub-grid converted from its own little geometry: two columns, two layers, atmosphere blocks of volume 0.1
            at = int(case['sub'][-1])
            R.label('embed:sub-grid-from-geometry:atmosphere-type-%d' % at)
            gs = mulgrids.mulgrid().rectangular([0.5, 0.25], [0.5], [0.5, 0.25], atmos_type=at, chars='XY')
            gs.atmosphere_volume = 0.1
            sub = t2grids.t2grid().fromgeo(gs, {'ATM 0': 'SUBAT'})
            s1 = sub.blocklist[-1]
            subvol = sum(float(b.volume) for b in sub.blocklist)
        # embed() resolves the connection's blocks by name: the host block may be given as the grid's own object
        # or as a stand-in block of the same name (e.g. taken from a second grid built from the same geometry)
        hostarg = host
        if case.get('host_standin'):
            hostarg = t2grids.t2block(host.name, host.volume, host.rocktype, centre=host.centre)
            R.label('embed:host-given-as-stand-in')
        if case.get('refused_first', len(vols_before) % 2 == 0):
            # first an embed that is refused - the sub-grid has a block called like one of the host grid's: nothing happens
            other_name = next(n for n in vols_before if n != host.name) if len(vols_before) > 1 else None
            if other_name is not None:
                R.label('embed:first-one-refused-for-a-shared-block-name')
                clash = t2grids.t2grid(); clash.add_rocktype(t2grids.rocktype('sub  '))
                cb = t2grids.t2block(other_name, 0.125, clash.rocktypelist[0], centre=[0., 0., 0.])
                clash.add_block(cb)
                with R.lib('embed-refused'):
                    r0 = grid.embed(clash, t2grids.t2connection([hostarg, cb], 1, [0.3, 0.1], 1.0, 0.0))
                R.check(r0 is None, 'embed:shared-name-not-refused', 'embed() of a sub-grid holding a block named %r (as the host grid does) returned %r' % (other_name, r0))
                now = dict((b.name, float(b.volume)) for b in grid.blocklist)
                R.check(now == vols_before, 'embed:refused-call-changed-volumes', lambda: 'after the refused embed: %r' % sorted((n, vols_before[n], now.get(n)) for n in vols_before if now.get(n) != vols_before[n])[:3])
        with R.lib('embed'):
            res = grid.embed(sub, t2grids.t2connection([hostarg, s1], 1, [0.3, 0.1], 1.0, 0.0))
        if R.check(res is not None, 'embed:refused', 'embed returned None although the host (%r) is larger than the sub-grid' % host.volume):
            total1 = sum(float(b.volume) for b in res.blocklist)
            R.check(abs(total1 - total0) <= 1e-12 * total0, 'embed:volume', 'total volume %r -> %r' % (total0, total1))
            R.label('embed')
            # documented: the sub-grid's volume is taken out of the host block (and of no other block)
            for n, v in vols_before.items():
                exp = v - subvol if n == host.name else v
                R.check(abs(float(res.block[n].volume) - exp) <= 1e-12 * max(abs(v), 1.0), 'embed:host-volume',
                        'block %r volume %r -> %r (host is %r)' % (n, v, res.block[n].volume, host.name))


def run_case(case, R):
    if case['k'] == 'seq': run_seq(case, R)
    else: run_minc(case, R)


LEVEL_TEXT = ('Hypothesis-generated grids (from geometry recipes) and operation sequences (reorder with reversed subsets, rename '
              'maps incl. swaps/cycles, data-file round trips) judged by an identity-tracked physical signature; MINC/embed '
              'judged by volume algebra and chain structure. Refutes only.')
LEVEL_NOTE = 'Trusted: the signature extractor in props/c09.py (reads public attributes), TOUGH2 CONNE orientation semantics.'
TECHNIQUE = 'property-based testing (Hypothesis) with a metamorphic oracle: identity-tracked physical signature invariant under reorder/rename/file round trip; algebraic oracle for MINC'
