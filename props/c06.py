"""C06 - history(selection) equals stepping through the listing, and terminates."""
import os, sys, itertools
import numpy as np
from hypothesis import strategies as st
from vlib.core import Search, HarnessError
from refs import listing_ref as LR
from gens import listing as GL

ID = 'C06'
RULE = ('enumerated: per shipped file every ordered subset of its tables of size <= 2 plus a deterministic third of the larger '
        'ones (quick; all ordered subsets in thorough) x V variants that rotate the row form (name / reversed name on '
        'connection tables / integer index), the row position (first / last / interior), the column, list vs single-tuple '
        'form, short True/False on AUTOUGH2 files with short output, upper/lower case table letter, and the start index. '
        'random: Hypothesis lists of 1-7 items over the file\'s tables (repetition allowed) with abstract row/column picks '
        'resolved against the file. Oracle: a second listing instance visits first(), next()... and reads the cell; for '
        'AUTOUGH2 short output the printed short tables are read by the independent scanner; termination is refuted by '
        'more than 1000 consecutive reads at end of file. Non-trivial = two or more tables, or a selection that skips a '
        'table lying between two selected ones, or a reversed key, or short output; distinct = distinct case JSON.'
        ' Also: search call_history = a warm-up history() of a related selection (reversed, rotated, sorted, sub-selection, same, other short flag) on the same reader before the judged call.')
ASSUMPTIONS = ['selections name only tables, rows and columns that exist in the file (the documented use)',
               'a one-item list may come back as a bare (times, values) pair, as the single-tuple form does',
               'with AUTOUGH2 short output an item printed in the short tables is returned at every time (listing.times), '
               'any other item at the full-output times (listing.fulltimes)']

SPEC = {'element': 'e', 'connection': 'c', 'generation': 'g', 'primary': 'p', 'element1': 'e1', 'element2': 'e2'}
FILE_ORDER = ['element', 'element1', 'connection', 'primary', 'element2', 'generation']
BY = ['name', 'int', 'rev']
POS = ['first', 'last', 'mid']

# ------------------------------------------------------------------------------------------------
# per-process caches

_step = {}


def stepped(rel):
    """the reference: a listing instance of its own visiting first(), next(), ... -> arrays per table"""
    if rel not in _step:
        lst = GL.open_listing(GL.path_of(rel))
        try:
            lst.first()
            data = dict((n, []) for n in lst._table)
            times = []
            while True:
                times.append(lst.time)
                for n in lst._table: data[n].append(np.array(lst._table[n]._data, copy=True))
                if not lst.next(): break
            info = {'times': np.array(times), 'fulltimes': np.array(lst.fulltimes, copy=True),
                    'alltimes': np.array(lst.times, copy=True),
                    'rows': dict((n, list(lst._table[n].row_name)) for n in lst._table),
                    'cols': dict((n, list(lst._table[n].column_name)) for n in lst._table),
                    'data': dict((n, np.array(v)) for n, v in data.items()),
                    'tablenames': list(lst._tablenames), 'n': lst.num_fulltimes,
                    'short_types': list(lst.short_types), 'simulator': lst.simulator}
            if len(times) != lst.num_fulltimes:
                raise HarnessError('stepping visited %d of %d times' % (len(times), lst.num_fulltimes))
        finally:
            lst.close()
        _step[rel] = info
    return _step[rel]


_scan = {}


def scanned(rel):
    if rel not in _scan: _scan[rel] = LR.scan(GL.path_of(rel))
    return _scan[rel]


_meta = {}


def meta(rel):
    """table names in file order and whether the file has short output (from the scanner, so that the
    enumeration does not depend on the reader under test)"""
    if rel not in _meta:
        S = scanned(rel)
        names = [t.name for t in S.full[0].tables if t.status == 'ok' or True]
        _meta[rel] = {'tables': names, 'short': any(b.kind == 'short' for b in S.blocks), 'n': len(S.full)}
    return _meta[rel]


# ------------------------------------------------------------------------------------------------
# searches

def ordered_subsets(names, maxsize):
    for k in range(1, maxsize + 1):
        for p in itertools.permutations(names, k):
            yield list(p)


def variants(rel, sub, v, short_file, n):
    """one concrete selection for ordered table subset `sub`, variant number v"""
    items = []
    for j, tn in enumerate(sub):
        by = BY[(v + j) % 3]
        pos = POS[(v + 2 * j + len(sub)) % 3]
        items.append({'t': SPEC[tn].upper() if (v + j) % 4 == 3 else SPEC[tn], 'by': by, 'pos': pos, 'col': 3 * v + 5 * j})
    case = {'file': rel, 'sel': items, 'form': 'tuple' if (len(items) == 1 and v % 2 == 1) else 'list',
            'short': (v % 2 == 0), 'start': [0, -1, n // 2][v % 3]}
    return case


def enum_cases(tier):
    def g():
        V = 3 if tier == 'quick' else 6
        for rel in GL.shipped():
            m = meta(rel)
            names = m['tables']
            small = list(ordered_subsets(names, min(2, len(names))))
            big = [s for s in ordered_subsets(names, len(names)) if len(s) > 2]
            if tier == 'quick': big = big[::3] if len(big) <= 90 else big[::11]
            for sub in small + big:
                for v in range(V):
                    yield variants(rel, sub, v, m['short'], m['n'])
            for sub in small:
                # the table letter in upper case (the docstring allows either) together with every way of naming the row
                for v in range(3):
                    cc = variants(rel, sub, v, m['short'], m['n'])
                    for j, it in enumerate(cc['sel']): it['t'] = it['t'].upper(); it['by'] = BY[(v + j) % 3]
                    yield cc
            if m['short']:
                # both settings of `short` for every single table and pair, and rows printed in the short tables
                for sub in small:
                    for v in (1, 2):
                        c = variants(rel, sub, v, True, m['n'])
                        c['short'] = not c['short']
                        yield c
                    for v in (0, 1, 2, 3):
                        c = variants(rel, sub, v, True, m['n'])
                        for j, it in enumerate(c['sel']):
                            if (v + j) % 2 == 0 or len(c['sel']) == 1: it['pos'] = 'short'
                        c['short'] = v < 3
                        yield c
    return g


@st.composite
def random_case(draw):
    rel = draw(st.sampled_from(GL.shipped()))
    m = meta(rel)
    specs = [SPEC[n] for n in m['tables']]
    item = st.fixed_dictionaries({
        't': st.sampled_from(specs + specs + [s.upper() for s in specs]),
        'by': st.sampled_from(BY),
        'pos': st.one_of(st.sampled_from(POS + ['short']), st.integers(0, 6000)),
        'col': st.integers(0, 12)})
    items = draw(st.lists(item, min_size=1, max_size=7))
    form = 'list'
    if len(items) == 1 and draw(st.booleans()): form = 'tuple'
    return {'file': rel, 'sel': items, 'form': form, 'short': draw(st.booleans()),
            'start': draw(st.one_of(st.just(0), st.just(-1), st.integers(0, 40))),
            'warm': draw(st.sampled_from([None, None, 'reversed', 'rotated', 'same', 'first', 'other-short', 'sorted']))}


WARM = ['reversed', 'rotated', 'same', 'first', 'other-short', 'sorted']


def history_cases(tier):
    """the same reader asked twice: a warm-up history() of a related selection, then the judged call"""
    def g():
        for rel in GL.shipped():
            m = meta(rel)
            names = m['tables']
            subs = [s for s in ordered_subsets(names, min(3, len(names))) if len(s) >= 2]
            if tier == 'quick': subs = subs[::2] if len(subs) <= 12 else subs[::5]
            for i, sub in enumerate(subs):
                for v in range(2 if tier == 'quick' else 6):
                    c = variants(rel, sub, v, m['short'], m['n'])
                    c['warm'] = WARM[(i + v) % len(WARM)]
                    yield c
            # several rows of ONE table in two orders (positions come back in the order asked)
            for tn in names:
                for v in range(2 if tier == 'quick' else 4):
                    c = variants(rel, [tn, tn, tn], v, m['short'], m['n'])
                    for j, it in enumerate(c['sel']): it['pos'] = POS[j % 3]; it['by'] = BY[(v + j) % 2]
                    c['warm'] = ['reversed', 'rotated', 'sorted', 'other-short'][v]
                    yield c
    return g


def searches(tier):
    q = tier == 'quick'
    return [Search('ordered_table_subsets', 'enum', enum_cases(tier), shards=16),
            Search('call_history', 'enum', history_cases(tier), shards=16),
            Search('random_selections', 'hyp', random_case, n=640 if q else 120000, shards=16, max_shrink_s=20)]


# ------------------------------------------------------------------------------------------------

_short_rows = {}


def short_rows(rel, tn):
    if (rel, tn) not in _short_rows:
        keys = set()
        for b in scanned(rel).blocks:
            if b.kind != 'short': continue
            t = b.table(tn)
            if t is not None and t.status == 'ok':
                keys.update(LR.repair_name(r.key) for r in t.rows)
        _short_rows[(rel, tn)] = keys
    return _short_rows[(rel, tn)]


def tablename_of(spec):
    for n, s in SPEC.items():
        if s == spec.lower(): return n
    raise HarnessError('bad table spec %r' % spec)


def resolve(case, ref):
    """concrete selection: [(spec, key-or-int, column name)], plus (table, row, col, reversed) per item"""
    sel, info = [], []
    for it in case['sel']:
        tn = tablename_of(it['t'])
        rows, cols = ref['rows'][tn], ref['cols'][tn]
        nr = len(rows)
        pos = it['pos']
        if pos == 'first': r = 0
        elif pos == 'last': r = nr - 1
        elif pos == 'mid': r = nr // 2
        elif pos == 'short':
            # a row that is printed in the AUTOUGH2 short tables, if the file has any for this table
            r = nr // 3
            keys = short_rows(case['file'], tn)
            hits = [i for i, k in enumerate(rows) if k in keys]
            if hits: r = hits[(it['col'] + len(case['sel'])) % len(hits)]
        else: r = pos % nr
        c = it['col'] % len(cols)
        by = it['by']
        rev = False
        if by == 'int': key = r
        else:
            key = rows[r]
            if by == 'rev' and tn == 'connection' and isinstance(key, tuple) and key[::-1] not in rows and key[0] != key[1]:
                key = key[::-1]; rev = True
            # a name that occurs twice addresses its last occurrence: use the index the name maps to
            if rows.count(rows[r]) > 1:
                r = len(rows) - 1 - rows[::-1].index(rows[r])
        sel.append((it['t'], key, cols[c]))
        info.append((tn, r, c, rev))
    return sel, info


def short_expectation(rel, ref, info):
    """per item: (times, values) expected with short=True on a file with short output, or None when the
    scanner cannot decide (then the item is not judged)"""
    S = scanned(rel)
    out = []
    full_i = -1
    per_block = []
    for b in S.blocks:
        if b.kind == 'full': full_i += 1
        per_block.append((b, full_i))
    for (tn, r, c, rev) in info:
        key = ref['rows'][tn][r]
        colname = ref['cols'][tn][c]
        if ref['rows'][tn].count(key) > 1:
            # two rows of the full table carry this name: which of them a short-table line belongs to is undecidable
            out.append(None); continue
        vals, present = [], []
        ok = True
        for b, fi in per_block:
            if b.kind == 'full':
                vals.append(ref['data'][tn][fi, r, c]); continue
            t = b.table(tn)
            hit = None
            if t is not None:
                if t.status != 'ok' or colname not in t.colnames: ok = False; break
                j = t.colnames.index(colname)
                for row in t.rows:
                    if LR.repair_name(row.key) == key: hit = row.cells[j]
            present.append(hit is not None)
            vals.append(hit)
        if not ok or (any(present) and not all(present)):
            out.append(None); continue
        sgn = -1.0 if rev else 1.0
        if present and all(present):
            out.append((np.array([b.time for b, fi in per_block]), sgn * np.array(vals, dtype=float)))
        else:
            out.append((ref['fulltimes'], sgn * ref['data'][tn][:, r, c]))
    return out


def hang_where():
    """innermost frames of the reader at the moment the end-of-file counter trips"""
    f = sys._getframe(2)
    names = []
    extra = ''
    while f is not None:
        fn = f.f_code.co_filename
        if os.path.basename(fn) == 't2listing.py':
            names.append(f.f_code.co_name)
            if f.f_code.co_name.startswith('skip_to_table') and not extra:
                extra = ':%s->%s' % (f.f_locals.get('last_tablename'), f.f_locals.get('tablename'))
        f = f.f_back
    for n in names:
        if n.startswith('skip_to_table') or n in ('history',): return n + extra
    return (names[0] if names else '?') + extra


class Watch(GL.EOFWatch):
    def _note(self, data):
        try:
            return GL.EOFWatch._note(self, data)
        except GL.Hang as e:
            raise GL.Hang('%s|%s' % (hang_where(), e))


def skips_intermediate(tables, present):
    order = [n for n in FILE_ORDER if n in present]
    idx = sorted(set(order.index(t) for t in tables))
    return any(b - a > 1 for a, b in zip(idx, idx[1:]))


def run_case(case, R):
    rel = case['file']
    ref = stepped(rel)
    fam = GL.family(rel)
    sel, info = resolve(case, ref)
    tables = [i[0] for i in info]
    R.label('sim:' + fam, 'ntables:%d' % len(set(tables)), 'items:%d' % min(len(sel), 4))
    for (tn, r, c, rev), it in zip(info, case['sel']):
        R.label('table:' + tn, 'row-by:' + ('rev' if rev else it['by'] if it['by'] != 'rev' else 'name'))
        if it['t'] != it['t'].lower(): R.label('letter:upper-case' + (':reversed-connection' if rev else ''))
        if 0 < r < len(ref['rows'][tn]) - 1: R.label('row:interior')
        elif r == 0: R.label('row:first')
        else: R.label('row:last')
    skipping = skips_intermediate(tables, ref['tablenames'])
    if skipping: R.label('skips-intermediate-table')
    order = [FILE_ORDER.index(t) for t in tables]
    if order != sorted(order): R.label('selection-not-in-file-order')
    has_short = bool(ref['short_types'])
    use_short = bool(case['short'])
    if has_short: R.label('short-file:short=%s' % use_short)
    R.nontrivial(len(set(tables)) >= 2 or skipping or any(i[3] for i in info) or (has_short and use_short))

    lst = None
    with R.lib('open'):
        lst = GL.open_listing(GL.path_of(rel))
    try:
        n = lst.num_fulltimes
        start = case['start'] % n if case['start'] >= 0 else n - 1
        if start: R.label('start-index-nonzero')
        with R.lib('set-start'):
            lst.index = start
        before = GL.snapshot(lst)
        arg = sel[0] if case['form'] == 'tuple' else list(sel)
        if case['form'] == 'tuple': R.label('single-tuple-form')
        warm = case.get('warm')
        if warm:
            # an earlier history() on the same reader must leave nothing behind that changes this call's answer
            ws = {'reversed': sel[::-1], 'rotated': sel[1:] + sel[:1], 'same': list(sel), 'first': sel[:1],
                  'other-short': list(sel), 'sorted': sorted(sel, key=repr)}[warm]
            R.label('warm:' + warm, 'warm-changes-order' if list(ws) != list(sel) else 'warm-same-order')
            wshort = (not use_short) if warm == 'other-short' else use_short
            w0 = Watch(lst._file)
            lst._file = w0
            try:
                with R.lib('history-warmup'):
                    try:
                        lst.history(list(ws), short=wshort)
                    except GL.Hang as e:
                        R.fail('hang:warmup', '%s: history(%r, short=%r) does not terminate: %s' % (rel, ws, wshort, e)); return
            finally:
                lst._file = w0._f
        w = Watch(lst._file)
        lst._file = w
        hang = None
        try:
            with R.lib('history'):
                try:
                    res = lst.history(arg, short=use_short)
                except GL.Hang as e:
                    hang = e
        finally:
            lst._file = w._f
        if hang is not None:
            where, _, msg = str(hang).partition('|')
            R.fail('hang:%s' % where, '%s: history(%r, short=%r) from index %d does not terminate: %s' % (
                rel, arg, use_short, start, msg))
            return
        R.label('max-eof-reads:%s' % ('0' if w.max_empty == 0 else '1-9' if w.max_empty < 10 else '10+'))
        # shape of the result
        if res is None:
            R.fail('result:none', '%s: history(%r) returned None' % (rel, arg)); return
        if len(sel) == 1 and isinstance(res, tuple) and len(res) == 2 and not isinstance(res[0], tuple):
            res = [res]
        if case['form'] == 'list' and len(sel) > 1 and not isinstance(res, list):
            R.fail('result:container', '%s: history(list of %d) returned %s' % (rel, len(sel), type(res).__name__)); return
        if len(res) != len(sel):
            R.fail('result:length', '%s: %d histories for %d items' % (rel, len(res), len(sel))); return
        exp_short = short_expectation(rel, ref, info) if (has_short and use_short) else None
        for k, ((tn, r, c, rev), pair) in enumerate(zip(info, res)):
            what = '%s: item %d %r of history(%r, short=%r)' % (rel, k, sel[k], arg, use_short)
            try:
                t, v = pair
                t = np.asarray(t); v = np.asarray(v, dtype=float)
            except Exception:
                R.fail('result:pair', '%s is %r' % (what, pair)); continue
            if exp_short is not None:
                if exp_short[k] is None:
                    R.exclude('scanner-cannot-decide-short-item'); continue
                et, ev = exp_short[k]
                kind = 'short'
                R.label('short-item:' + ('printed-in-short-tables' if len(et) > len(ref['fulltimes']) else 'full-output-only'))
            else:
                et = ref['fulltimes']
                ev = ref['data'][tn][:, r, c] * (-1.0 if rev else 1.0)
                kind = 'rev' if rev else 'full'
            if v.shape != ev.shape:
                R.fail('values:%s:length' % kind, '%s: %d values, %d result times expected' % (what, v.size, ev.size)); continue
            if t.shape != et.shape or not np.array_equal(t, et):
                R.fail('times:%s' % kind, '%s: times %r..., expected %r...' % (what, t[:4], et[:4]))
            okv = (v == ev) | (np.isnan(v) & np.isnan(ev))
            if not okv.all():
                i = int(np.argwhere(~okv)[0][0])
                sig = 'values:%s' % kind
                if rev and np.array_equal(v, -ev): sig = 'values:rev:not-negated'
                R.fail(sig, '%s: at time %d history gives %r, stepping reads %r (%d of %d differ)' % (
                    what, i, v[i], ev[i], int((~okv).sum()), v.size))
        after = GL.snapshot(lst)
        for field, detail in GL.diff_snapshot(before, after):
            R.fail('after:%s' % field.split(':')[0], '%s: after history(%r) from index %d: %s' % (rel, arg, start, detail))
    finally:
        lst.close()


LEVEL_TEXT = ('Enumeration of ordered table subsets per shipped file (all of size <= 2, a third of the larger ones in quick, '
              'all in thorough) with rotating row/column/form variants, plus Hypothesis-generated selections. Oracle: '
              'independent step-through instance (scanner for short output); non-termination refuted deterministically by an '
              'end-of-file read counter around listing._file. Refutes only; termination cannot be established by testing.')
LEVEL_NOTE = ('Trusted: next()/first() of a separate instance as the definition of "stepping" (navigation itself is C07\'s '
              'subject), refs/listing_ref.py for short-output tables.')
TECHNIQUE = ('differential testing (fast path vs step-through reference) over enumerated ordered table subsets + Hypothesis '
             'selections, deterministic EOF-read watchdog for non-termination, before/after state snapshot')
