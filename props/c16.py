"""C16 - Fortran-written numbers are read with Fortran's meaning, and never raise."""
import itertools, math
from hypothesis import strategies as st
from vlib.core import Search, HarnessError
from refs import fnum

ID = 'C16'
RULE = ('real: (sign, 1-17 digits, exponent -300..300) rendered in a drawn Fortran output style '
        '(E/D/e/d letter, letter dropped for 3-digit exponents, blank for + in exponent, '
        'leading point, explicit +, leading/trailing/embedded blanks), expected value = Python '
        'conversion of the canonical numeral built from the same components; int: padded/blank-embedded '
        'integers; str: arbitrary ASCII-printable (and latin-1) strings <=20 judged by the reference '
        'classifier (python-accepted / blank / impossible character -> nan / Fortran numeral / other = '
        'must not raise); enum: every string up to the stated length over a 14-symbol numeric alphabet. '
        'Non-trivial = plain float()/int() rejects the text. distinct = distinct case JSON.'
        ' Rounds 7-8: one foreign character in a well-formed rendering (on purpose where the exponent letter is); the table readers fortran_read_float / fortran_read_function[e,f,g] judged like fortran_float; read_function_dict() called before every case (must hand out new dictionaries).')
ASSUMPTIONS = ['Fortran READ semantics taken as: BN blank handling (blanks ignored), D==E, '
               'exponent letter optional when the exponent carries a sign',
               'inputs are str objects (the property quantifies over text)']

ALPHA14 = '019+-.eEdD *_n'


@st.composite
def real_case(draw):
    sign = draw(st.sampled_from(['', '-', '+']))
    nd = draw(st.integers(1, 17))
    digits = draw(st.text('0123456789', min_size=nd, max_size=nd))
    exp = draw(st.integers(-300, 300))
    form = draw(st.sampled_from(['0.d', 'd.d', '.d', 'd.', 'd']))
    if form == '0.d': mant = '0.' + digits
    elif form == '.d': mant = '.' + digits
    elif form == 'd.d':
        mant = digits[0] + '.' + digits[1:]
    elif form == 'd.': mant = digits + '.'
    else: mant = digits
    canon = '%s%se%d' % (sign, mant if mant[-1] != '.' else mant + '0', exp)
    if canon.startswith(('.', '-.', '+.')):
        canon = canon.replace('.', '0.', 1)
    estyle = draw(st.sampled_from(['E', 'D', 'e', 'd', 'drop', 'blankplus', 'Eshort', 'none']))
    a = abs(exp)
    width = draw(st.sampled_from([2, 3])) if a < 100 else 3
    es = '+' if exp >= 0 else '-'
    if estyle in 'EDed':
        explicit_plus = draw(st.booleans())
        e = estyle + (es if (exp < 0 or explicit_plus) else '') + str(a).zfill(width)
    elif estyle == 'drop':
        e = es + str(a).zfill(3)         # 0.123-105 / 0.123+105
    elif estyle == 'blankplus':
        e = 'E' + (' ' if exp >= 0 else '-') + str(a).zfill(width)
    elif estyle == 'Eshort':
        e = 'E' + (es if exp < 0 else '') + str(a)
    else:
        e = ''
        canon = canon[:canon.index('e')] + 'e0'
    s = sign + mant + e
    # blanks: leading, trailing, embedded
    lead = draw(st.integers(0, 4)); trail = draw(st.integers(0, 3))
    nemb = draw(st.sampled_from([0, 0, 0, 1, 2]))
    for _ in range(nemb):
        i = draw(st.integers(0, len(s)))
        s = s[:i] + ' ' + s[i:]
    s = ' ' * lead + s + ' ' * trail
    return {'kind': 'real', 's': s, 'canon': canon, 'estyle': estyle, 'form': form}


@st.composite
def int_case(draw):
    n = draw(st.one_of(st.integers(-10**9, 10**9), st.integers(-99999, 99999),
                       st.integers(-10**19, 10**19)))
    s = str(n)
    if n >= 0 and draw(st.booleans()): s = '+' + s
    nemb = draw(st.sampled_from([0, 0, 1, 2]))
    for _ in range(nemb):
        i = draw(st.integers(0, len(s)))
        s = s[:i] + ' ' + s[i:]
    s = ' ' * draw(st.integers(0, 5)) + s + ' ' * draw(st.integers(0, 3))
    return {'kind': 'int', 's': s, 'value': n}


PRINTABLE = ''.join(chr(i) for i in range(32, 127)) + '\t\n\r\x0b\x0c'
LATIN1 = ''.join(chr(i) for i in range(256))


def str_case():
    numericish = st.text(alphabet='0123456789+-.eEdD *', max_size=20)
    return st.one_of(
        st.text(alphabet=PRINTABLE, max_size=20),
        numericish, numericish,
        st.text(alphabet='0123456789+-.eEdD _infatyINFATY', max_size=12),
        st.text(alphabet=LATIN1, max_size=20),
        st.builds(lambda a, c, b: a + c + b, numericish, st.sampled_from('*#x,:/$?!'), numericish),
        st.integers(0, 25).map(lambda n: ' ' * n),
        st.integers(1, 20).map(lambda n: '*' * n),
    ).map(lambda s: {'kind': 'str', 's': s})


FOREIGN = ''.join(ch for ch in PRINTABLE[:95] if ch not in fnum.NUMERIC_ALPHABET)


@st.composite
def corrupted_case(draw):
    """a well-formed Fortran rendering in which ONE character is replaced by, or one position receives, a character that
    cannot occur in a number - at a drawn position, and on purpose where the exponent letter is or would be"""
    base = draw(real_case())
    s = base['s']
    ch = draw(st.sampled_from(FOREIGN))
    spots = [i for i, c in enumerate(s) if c in 'eEdD']
    if not spots:
        spots = [i for i, c in enumerate(s) if c in '+-' and i > 0 and s[:i].strip(' +-') != '']    # sign of a letter-less exponent
    where = draw(st.sampled_from(['exponent', 'exponent', 'anywhere']))
    if where == 'exponent' and spots:
        i = spots[-1]
        s2 = s[:i] + ch + s[i + 1:] if s[i] in 'eEdD' else s[:i] + ch + s[i:]
    else:
        i = draw(st.integers(0, len(s)))
        s2 = (s[:i] + ch + s[i + 1:]) if draw(st.booleans()) and i < len(s) else (s[:i] + ch + s[i:])
        where = 'anywhere'
    return {'kind': 'str', 's': s2, 'corrupted': where}


def enum_strings(maxlen):
    def g():
        for n in range(0, maxlen + 1):
            for t in itertools.product(ALPHA14, repeat=n):
                yield {'kind': 'str', 's': ''.join(t)}
    return g


def searches(tier):
    q = tier == 'quick'
    return [
        Search('real_renderings', 'hyp', real_case, n=6000 if q else 400000, shards=4 if q else 16),
        Search('int_renderings', 'hyp', int_case, n=2000 if q else 100000, shards=2 if q else 16),
        Search('strings', 'hyp', str_case, n=6000 if q else 400000, shards=4 if q else 16),
        Search('enum_short_strings', 'enum', enum_strings(4 if q else 5), shards=8 if q else 16),
        Search('one_foreign_character', 'hyp', corrupted_case, n=6000 if q else 300000, shards=4 if q else 16),
    ]


BLANKS = [0.0, None, -1.5]
_SENTINEL = object()
# the caller's blank value comes back as it is, whatever it is (a marker object, a float, text, nan)
IBLANKS = (0, None, -7, -1.5, 'none', float('nan'), _SENTINEL)
BLANKS = BLANKS + [7, 'none', _SENTINEL]


def _call(R, f, s, **kw):
    try:
        return f(s, **kw)
    except Exception as e:
        R.fail('raises:%s:%s' % (f.__name__ if hasattr(f, '__name__') else 'partial', type(e).__name__),
               'input %r raised %r' % (s, e))
        return 'RAISED'


def run_case(case, R):
    import fixed_format_file as fff
    s = case['s']
    kind = case['kind']
    # the public helper that builds such dictionaries, used the way a caller with readers of their own would use it: it
    # hands out new dictionaries and leaves the module's own (default_read_function, fortran_read_function) alone
    mine = fff.read_function_dict()
    mine2 = fff.read_function_dict(lambda t: 0.0, lambda t: 0)
    if mine is fff.fortran_read_function or mine2 is fff.fortran_read_function or mine2 is fff.default_read_function:
        R.fail('helper:read_function_dict-hands-out-a-module-dictionary', 'read_function_dict() returned the module-level dictionary itself')
    try:
        float(s); py_ok = True
    except ValueError:
        py_ok = False
    R.nontrivial(not py_ok)
    if kind == 'real':
        R.label('estyle:' + case['estyle'], 'form:' + case['form'])
        if ' ' in s.strip(' '): R.label('embedded_blank')
        expected = float(case['canon'])
        k = fnum.classify_real(s)
        if k[0] not in ('python', 'fortran') or not fnum.same_float(k[1], expected):
            raise HarnessError('reference reader disagrees with construction: %r -> %r vs %r' % (s, k, expected))
        for f in (fff.fortran_float, fff.fortran_read_float, fff.fortran_read_function['e']):
            v = _call(R, f, s)
            if v == 'RAISED': continue
            R.check(isinstance(v, float) and fnum.same_float(v, expected),
                    'real:%s' % case['estyle'],
                    'fortran_float(%r) = %r, Fortran value %r' % (s, v, expected))
    elif kind == 'int':
        n = case['value']
        for f in (fff.fortran_int, fff.fortran_read_int, fff.fortran_read_function['d']):
            v = _call(R, f, s)
            if v == 'RAISED': continue
            R.check(type(v) is int and v == n, 'int:value', 'fortran_int(%r) = %r, expected %r' % (s, v, n))
    elif kind == 'str':
        # reals
        k = fnum.classify_real(s)
        R.label('realclass:' + k[0])
        for bv in BLANKS:
            v = _call(R, fff.fortran_float, s, blank_value=bv)
            if v == 'RAISED': continue
            if k[0] in ('python', 'fortran'):
                R.check(isinstance(v, float) and fnum.same_float(v, k[1]), 'str:real:' + k[0],
                        'fortran_float(%r) = %r, expected %r' % (s, v, k[1]))
            elif k[0] == 'blank':
                R.check(v is bv or (v == bv and type(v) is type(bv)), 'str:real:blank',
                        'fortran_float(%r, blank_value=%r) = %r' % (s, bv, v))
            elif k[0] == 'nan':
                R.check(isinstance(v, float) and math.isnan(v), 'str:real:nan',
                        'fortran_float(%r) = %r, expected nan' % (s, v))
            else:
                R.check(isinstance(v, float) or v is bv, 'str:real:other',
                        'fortran_float(%r) = %r is not a float' % (s, v))
        if case.get('corrupted'): R.label('one-foreign-character:' + case['corrupted'])
        # the readers as the format tables use them (what t2incon / t2data are handed): same answers, blank -> None
        for nm, f in (('fortran_read_float', fff.fortran_read_float), ("fortran_read_function['e']", fff.fortran_read_function['e']),
                      ("fortran_read_function['f']", fff.fortran_read_function['f']), ("fortran_read_function['g']", fff.fortran_read_function['g'])):
            v = _call(R, f, s)
            if v == 'RAISED': continue
            if k[0] == 'blank':
                R.check(v is None, 'str:read_float:blank', '%s(%r) = %r' % (nm, s, v))
            elif k[0] in ('python', 'fortran'):
                R.check(isinstance(v, float) and fnum.same_float(v, k[1]), 'str:read_float:' + k[0], '%s(%r) = %r, expected %r' % (nm, s, v, k[1]))
            elif k[0] == 'nan':
                R.check(isinstance(v, float) and math.isnan(v), 'str:read_float:nan', '%s(%r) = %r, expected nan' % (nm, s, v))
        # ints
        ki = fnum.classify_int(s)
        R.label('intclass:' + ki[0])
        for bv in IBLANKS:
            v = _call(R, fff.fortran_int, s, blank_value=bv)
            if v == 'RAISED': continue
            if ki[0] in ('python', 'fortran'):
                R.check(type(v) is int and v == ki[1], 'str:int:' + ki[0],
                        'fortran_int(%r) = %r, expected %r' % (s, v, ki[1]))
            elif ki[0] == 'blank':
                R.check(v is bv or (v == bv and type(v) is type(bv)), 'str:int:blank',
                        'fortran_int(%r, blank_value=%r) = %r' % (s, bv, v))
            elif ki[0] == 'none':
                R.check(v is None, 'str:int:none', 'fortran_int(%r) = %r, expected None' % (s, v))
            else:
                R.check(v is None or type(v) is int or v is bv, 'str:int:other',
                        'fortran_int(%r) = %r' % (s, v))
    else:
        raise HarnessError('unknown case kind')


SEED_CORPUS = ['0.12345E+05', '-0.5D-03', '0.12345-100', '1.5+100', ' .5e 05', '-1 .5', '12345',
               '*****', '0.1E+3 1', 'NaN', '1_0', '+.5D5', ' - 3', '1e', 'e5', '1.2.3', '5-3-1',
               'inf', '  ', '1d+']


def _atheris_campaign(seed, runs, corpus, total, tag):
    """One libFuzzer campaign in a subprocess; a saved crash input is re-evaluated here."""
    import os, sys, subprocess, tempfile, shutil, re as _re
    from vlib import core
    d = tempfile.mkdtemp(prefix='pytough_verif_fuzz_')
    try:
        cdir = os.path.join(d, 'corpus'); os.makedirs(cdir)
        for i, s in enumerate(corpus):
            with open(os.path.join(cdir, 'seed%02d' % i), 'wb') as fh:
                fh.write(s.encode('latin-1'))
        env = dict(os.environ, VERIF_REPO=core.REPO)
        cmd = [sys.executable, os.path.join(core.VERIF, 'fuzz', 'c16_target.py'), cdir,
               '-runs=%d' % runs, '-seed=%d' % (seed if seed > 0 else 1), '-max_len=20',
               '-artifact_prefix=%s/' % d, '-print_final_stats=1']
        p = subprocess.run(cmd, stdout=subprocess.PIPE, stderr=subprocess.STDOUT, env=env,
                           universal_newlines=True, errors='replace', cwd=d)
        out = p.stdout
        m = _re.search(r'stat::number_of_executed_units:\s*(\d+)', out)
        execs = int(m.group(1)) if m else 0
        if 'atheris' in out and 'ModuleNotFoundError' in out:
            return {'campaign': tag, 'status': 'atheris not importable', 'executions': 0}
        crashes = [f for f in os.listdir(d) if f.startswith('crash-')]
        for f in crashes:
            with open(os.path.join(d, f), 'rb') as fh:
                s = fh.read().decode('latin-1')[:20]
            case = {'kind': 'str', 's': s}
            total.add('atheris:' + tag, seed, case, core.evaluate(sys.modules[__name__], case))
        mc = _re.search(r'cov: (\d+)', out[::-1][:0] or out)
        covs = _re.findall(r'cov: (\d+)', out)
        corp = len(os.listdir(cdir))
        if p.returncode != 0 and not crashes:
            raise HarnessError('atheris campaign failed:\n' + out[-2000:])
        return {'campaign': tag, 'executions': execs, 'crash_inputs': len(crashes),
                'final_cov': int(covs[-1]) if covs else None, 'corpus_size': corp}
    finally:
        shutil.rmtree(d, ignore_errors=True)


def finish(tier, seed, total):
    """Coverage-guided campaign (atheris/libFuzzer) over raw bytes with the same oracle
    inside the target; empty corpus and a small seed corpus."""
    import multiprocessing.dummy as mpd
    runs = 150000 if tier == 'quick' else 6000000
    jobs = [(seed, runs, [], 'empty_corpus'), (seed + 1, runs, SEED_CORPUS, 'seed_corpus')]
    if tier != 'quick':
        jobs += [(seed * 100 + i, runs, SEED_CORPUS if i % 2 else [], 'shard%d' % i) for i in range(2, 16)]
    try:
        import atheris  # noqa
    except Exception as e:
        return {'atheris': 'not importable (%s); campaign skipped, other engines ran' % e}
    with mpd.Pool(len(jobs)) as pool:
        res = pool.map(lambda j: _atheris_campaign(j[0], j[1], j[2], total, j[3]), jobs)
    n = sum(r.get('executions', 0) for r in res)
    total.evaluations += n
    return {'atheris_campaigns': res, 'atheris_executions': n}


LEVEL_TEXT = ('Generated-input search: structured Fortran renderings, arbitrary strings, complete enumeration of all '
              'strings up to length 4 (quick) / 5 (thorough) over a 14-symbol numeric alphabet, and a coverage-guided '
              'atheris campaign whose gradient comes from the instrumented reference recogniser. Refutes, never proves; '
              'exhaustive only for the enumerated short-string space.')
LEVEL_NOTE = ('Trusted: refs/fnum.py (regex and hand-written recogniser cross-checked against each other on every case) '
              'and Python\'s correctly rounded decimal->binary conversion.')
TECHNIQUE = 'property-based testing (Hypothesis) + exhaustive short-string enumeration + coverage-guided fuzzing (atheris) against a reference Fortran numeral reader'
