"""C11 - refining / bisecting / splitting / triangulating / decomposing columns and refining layers conserves plan
area and rock volume, tiles the old columns, keeps surfaces and leaves a conforming mesh."""
import math
from hypothesis import strategies as st
from vlib.core import Search, HarnessError
from gens import geo
from refs import geom_ref

ID = 'C11'
CASE_TIMEOUT = 240
RULE = ('geometry recipe (gens/geo.py: rectangular with drawn non-uniform spacings and origins up to 7 digits, BFS pieces of the '
        'shipped geometries, triangle mesh, "hang" meshes = rectangular cells cut 1..4-fold with hanging nodes -> 5..16-sided '
        'columns, "ngon" meshes = convex 3..10-gon with 0..3 straight nodes per side inside a ring of quadrilaterals; optional '
        'rotation/translation; drawn surfaces) followed by 1..3 judged steps: refine(region shape in {single, strip, L, ring '
        'with hole, blob, boundary, checker, random, all} x bisect in {False, True, x, y} x bisect_edge_columns drawn from the '
        'transition region), split_column, triangulate_column, decompose_columns(all | subset), refine_layers(layer subset, '
        'factor 2..4). After every step: total area / volume (independent exact-rational shoelace and library block_volume '
        'sum), sample points (convex combinations of the vertices of every old column with Hypothesis-drawn integer weights) '
        'located by winding number in the new columns, parent containment and per-parent area sums, surface inheritance, '
        'hanging-node search over all node/side pairs, side-sharing <=> connection. Non-trivial = a refinement with '
        'transition columns (region neither empty nor everything), a decomposition special case, a split, or a layer '
        'refinement of a proper subset; distinct = case JSON.')
ASSUMPTIONS = [
    'columns are convex (generated ones by construction, shipped ones checked: a non-convex column is counted as excluded input); '
    'for refine and split_column every interior angle is below pi - 1e-3 (no triangle-shaped quadrilaterals)',
    'the input geometry itself is conforming (side-sharing <=> connection, no hanging nodes); otherwise only conservation and tiling are judged',
    'sample points closer than 1e-6 column diameters + 1e-9 |coordinate| to an old or new column side are not judged (counted)',
    'area/volume tolerance: relative 1e-9 plus (perimeter x |coordinate| x 1e-15), the rounding of mid-side nodes of boundary sides '
    '(measured, label area:deviation/tolerance: 90 % of the steps conserve the exact-rational area exactly, the rest deviate by less '
    'than 0.1 % of the tolerance)',
    'triangulate_column called directly is an undocumented helper that does not create connections or refresh the block list: '
    'for it only conservation, tiling, surfaces, hanging nodes and "every connection joins side-sharing columns" are judged',
    'refine_layers on a geometry whose atmosphere layer name collides with a regenerated layer name (known, shipped g4.dat) is '
    'counted as excluded for the block-volume sum',
]

PRIMES = [3, 11, 23, 7, 31, 13, 41, 19, 5, 29, 17, 37, 2, 43, 47, 53]
REFINE_SHAPES = ['single', 'strip', 'L', 'ring', 'blob', 'boundary', 'checker', 'random', 'all']
REFINABLE_SHIPPED = ['g2.dat', 'g4.dat', 'g5.dat', 'g6.dat', 'g7.dat']


# ---------------------------------------------------------------------- strategies

@st.composite
def region_spec(draw):
    shape = draw(st.sampled_from(REFINE_SHAPES))
    sp = {'shape': shape, 'seed': draw(st.integers(0, 500))}
    if shape in ('strip', 'L'): sp['axis'] = draw(st.sampled_from(['x', 'y']))
    if shape == 'blob': sp['size'] = draw(st.integers(2, 12))
    if shape == 'boundary': sp['side'] = draw(st.sampled_from([None, 'x0', 'x1', 'y0', 'y1']))
    if shape == 'random': sp['pick'] = draw(st.lists(st.integers(0, 500), min_size=1, max_size=8))
    if shape == 'all': sp['implicit'] = draw(st.booleans())
    return sp


@st.composite
def refine_op(draw):
    op = {'op': 'refine', 'region': draw(region_spec()),
          'bisect': draw(st.sampled_from([False, False, True, 'x', 'y']))}
    if draw(st.integers(0, 2)) == 0:
        op['edge_pick'] = draw(st.lists(st.integers(0, 60), min_size=1, max_size=6))
    return op


def weights():
    return st.lists(st.integers(1, 60), min_size=12, max_size=12)


@st.composite
def base_common(draw, rc, allow_surfaces=True):
    rc['atmos'] = draw(st.sampled_from([0, 1, 2]))
    rc['block_order'] = draw(st.sampled_from([None, 'layer_column']))
    rc['ops'] = []
    k = draw(st.integers(0, 5))
    if k == 0: rc['ops'].append({'op': 'rotate', 'angle': draw(st.sampled_from([30.0, 45.0, 90.0, -17.5, 123.0]))})
    if k == 1: rc['ops'].append({'op': 'translate', 'shift': [draw(st.integers(-300, 300)) * 1.0,
                                                              draw(st.integers(-300, 300)) * 1.0, draw(st.integers(-50, 50)) * 1.0]})
    rc['surfaces'] = draw(geo.surfaces()) if allow_surfaces else []
    rc['det'] = True
    return rc


@st.composite
def refinable_base(draw, quick=True):
    kind = draw(st.sampled_from(['rect', 'rect', 'rect', 'shipped', 'tri']))
    rc = {}
    if kind == 'rect':
        conv = draw(st.sampled_from([0, 0, 2, 3]))
        rc['convention'] = conv
        rc['base'] = draw(geo.rect_base(6, 6, 4, conv))
        rc['chars'] = draw(st.sampled_from(['lower', 'upper']))
    elif kind == 'shipped':
        rc['base'] = {'kind': 'shipped', 'file': draw(st.sampled_from(REFINABLE_SHIPPED)), 'seed': draw(st.integers(0, 2000)),
                      'ncols': draw(st.integers(3, 40 if quick else 90))}
    else:
        rc['base'] = {'kind': 'tiny', 'which': 2}
    return draw(base_common(rc))


@st.composite
def refine_case(draw, quick=True):
    rc = draw(refinable_base(quick))
    steps = [draw(refine_op()) for _ in range(draw(st.sampled_from([1, 1, 2, 2, 3])))]
    return {'rc': rc, 'steps': steps, 'w': draw(weights())}


@st.composite
def hang_base(draw):
    nx, ny = draw(st.integers(1, 4)), draw(st.integers(1, 4))
    conv = draw(st.sampled_from([0, 0, 3]))
    dx = draw(geo.spacing(nx, nx, 5.0, 400.0)); dy = draw(geo.spacing(ny, ny, 5.0, 400.0))
    pool = draw(st.sampled_from([[1, 1, 1, 2, 2, 3, 4], [2, 2, 2, 1], [1, 2], [3, 3, 1, 2], [2, 2, 2, 2, 1, 4]]))
    k = [[draw(st.sampled_from(pool)) for _ in range(nx)] for _ in range(ny)]
    org = draw(st.sampled_from([[0., 0., 0.], [-250., 130., 40.], [2770000.25, 6290000.5, 500.]]))
    return {'convention': conv, 'chars': draw(st.sampled_from(['lower', 'upper'])),
            'base': {'kind': 'hang', 'dx': dx, 'dy': dy, 'dz': draw(geo.spacing(1, 4, 0.5, 200.0)), 'k': k, 'origin': org}}


@st.composite
def ngon_base(draw):
    n = draw(st.integers(3, 10))
    hang = [draw(st.sampled_from([0, 0, 0, 1, 1, 2, 3])) for _ in range(n)]
    spread = 0.25 if n <= 5 else (0.1 if n <= 7 else 0.05)
    radii = [round(1.0 + spread * draw(st.integers(-4, 4)) / 4.0, 4) for _ in range(n)]
    return {'convention': draw(st.sampled_from([0, 3])),
            'base': {'kind': 'ngon', 'corners': n, 'hang': hang, 'radii': radii, 'phase': draw(st.sampled_from([0.0, 0.3, 1.1])),
                     'ring': draw(st.sampled_from([1.5, 1.8, 2.5])), 'dz': draw(geo.spacing(1, 4, 0.5, 200.0)),
                     'origin': draw(st.sampled_from([[0., 0., 0.], [5000., -3000., 100.]]))}}


@st.composite
def decompose_case(draw, quick=True):
    kind = draw(st.sampled_from(['hang', 'hang', 'ngon', 'ngon', 'shipped', 'tiny']))
    if kind == 'hang': rc = draw(hang_base())
    elif kind == 'ngon': rc = draw(ngon_base())
    elif kind == 'shipped':
        rc = {'base': {'kind': 'shipped', 'file': draw(st.sampled_from(list(geo.MANY_SIDED))), 'seed': draw(st.integers(0, 2000)),
                       'ncols': draw(st.integers(3, 40 if quick else 90))}}
    else:
        rc = {'base': {'kind': 'tiny', 'which': draw(st.integers(0, 1))}}
    rc = draw(base_common(rc))
    how = draw(st.sampled_from(['all', 'all', 'subset', 'triangulate']))
    if how == 'all': steps = [{'op': 'decompose', 'convex_only': True} if kind == 'shipped' else {'op': 'decompose'}]
    elif how == 'subset': steps = [{'op': 'decompose', 'cols': draw(st.lists(st.integers(0, 300), min_size=1, max_size=5))}]
    else: steps = [{'op': 'triangulate', 'col': draw(st.integers(0, 300))}]
    if how == 'all' and draw(st.booleans()):
        steps.append(draw(refine_op()))           # everything is 3/4-sided now: an "earlier refinement" chain
    elif draw(st.integers(0, 3)) == 0:
        steps.append({'op': 'decompose'})
    return {'rc': rc, 'steps': steps, 'w': draw(weights())}


@st.composite
def split_case(draw, quick=True):
    rc = draw(refinable_base(quick))
    steps = []
    for _ in range(draw(st.integers(1, 3))):
        if draw(st.integers(0, 3)) == 0: steps.append({'op': 'triangulate', 'col': draw(st.integers(0, 300))})
        else: steps.append({'op': 'split', 'col': draw(st.integers(0, 300)), 'node': draw(st.integers(0, 3))})
    if all(o['op'] == 'split' for o in steps) and draw(st.integers(0, 2)) == 0: steps.append(draw(refine_op()))
    return {'rc': rc, 'steps': steps, 'w': draw(weights())}


@st.composite
def layers_case(draw, quick=True):
    kind = draw(st.sampled_from(['rect', 'rect', 'shipped', 'tiny', 'hang']))
    if kind == 'rect':
        conv = draw(st.sampled_from([0, 1, 2, 3]))
        rc = {'convention': conv, 'base': draw(geo.rect_base(4, 4, 6, conv)), 'chars': draw(st.sampled_from(['lower', 'upper']))}
    elif kind == 'shipped':
        rc = {'base': {'kind': 'shipped', 'file': draw(st.sampled_from(geo.SHIPPED)), 'seed': draw(st.integers(0, 2000)),
                       'ncols': draw(st.integers(3, 25))}}
    elif kind == 'hang': rc = draw(hang_base())
    else: rc = {'base': {'kind': 'tiny', 'which': draw(st.integers(0, 2))}}
    rc = draw(base_common(rc))
    steps = []
    for _ in range(draw(st.sampled_from([1, 1, 2]))):
        lays = draw(st.one_of(st.just([]), st.lists(st.integers(0, 40), min_size=1, max_size=6)))
        steps.append({'op': 'refine_layers', 'layers': lays, 'factor': draw(st.sampled_from([2, 3, 4]))})
    return {'rc': rc, 'steps': steps, 'w': draw(weights())}


def shipped_cases(tier):
    q = tier == 'quick'
    W = [7, 13, 29, 3, 41, 17, 5, 23, 11, 37, 2, 31]
    out = []
    for f in (['g7.dat'] if q else REFINABLE_SHIPPED):
        for bis in (False, True, 'x', 'y'):
            for reg in ({'shape': 'all', 'implicit': True}, {'shape': 'blob', 'seed': 40, 'size': 9},
                        {'shape': 'ring', 'seed': 55}, {'shape': 'strip', 'seed': 30, 'axis': 'y'}):
                if q and reg['shape'] == 'strip': continue
                out.append({'rc': {'base': {'kind': 'shipped', 'file': f}, 'det': True}, 'w': W,
                            'steps': [{'op': 'refine', 'region': reg, 'bisect': bis}]})
    for f in geo.MANY_SIDED:
        if q:
            out.append({'rc': {'base': {'kind': 'shipped', 'file': f, 'seed': 100, 'ncols': 120}}, 'w': W,
                        'steps': [{'op': 'decompose', 'convex_only': True}]})
        else:
            out.append({'rc': {'base': {'kind': 'shipped', 'file': f}}, 'w': W, 'steps': [{'op': 'decompose', 'convex_only': True}]})
    for f in (['g7.dat'] if q else geo.SHIPPED):
        out.append({'rc': {'base': {'kind': 'shipped', 'file': f}}, 'w': W,
                    'steps': [{'op': 'refine_layers', 'layers': [0, 2, 3], 'factor': 3}]})
    return out


def ngon_enum():
    """every (corners, hanging-node pattern) with corners 3..6 and up to 2 hanging nodes per side, up to 8+ sides in total
    (all decomposition special cases and every arrangement of the straight nodes, up to rotation)"""
    import itertools
    seen = set()
    W = [7, 13, 29, 3, 41, 17, 5, 23, 11, 37, 2, 31]
    for n in (3, 4, 5, 6):
        for hang in itertools.product((0, 1, 2), repeat=n):
            if n + sum(hang) < 5 or n + sum(hang) > 9: continue
            canon = min(tuple(hang[i:] + hang[:i]) for i in range(n))
            if (n, canon) in seen: continue
            seen.add((n, canon))
            yield {'rc': {'base': {'kind': 'ngon', 'corners': n, 'hang': list(canon), 'radii': [1.0, 1.1, 0.95], 'phase': 0.3,
                                   'ring': 1.8, 'dz': [10., 20.]}, 'atmos': 2, 'surfaces': [[0, 0, 0.5]]},
                   'steps': [{'op': 'decompose'}], 'w': W}


def searches(tier):
    q = tier == 'quick'
    return [Search('shipped', 'enum', lambda: shipped_cases(tier), shards=16),
            Search('ngon-patterns', 'enum', ngon_enum, shards=16),
            Search('refine', 'hyp', lambda: refine_case(q), n=1280 if q else 32000, shards=16),
            Search('decompose', 'hyp', lambda: decompose_case(q), n=960 if q else 24000, shards=16),
            Search('split', 'hyp', lambda: split_case(q), n=480 if q else 8000, shards=16),
            Search('layers', 'hyp', lambda: layers_case(q), n=320 if q else 8000, shards=16)]


# ---------------------------------------------------------------------- oracle

def snapshot(g):
    cols = []
    for c in g.columnlist:
        cols.append({'name': c.name, 'poly': [(float(n.pos[0]), float(n.pos[1])) for n in c.node],
                     'nodes': [id(n) for n in c.node], 'surface': float(c.surface), 'obj': id(c),
                     'libarea': float(c.area)})
    lays = [{'name': l.name, 'bottom': float(l.bottom), 'top': float(l.top), 'centre': float(l.centre)} for l in g.layerlist]
    return {'cols': cols, 'layers': lays}


def conformity(g):
    """(hanging, side_pairs, con_pairs, dangling): hanging node / side incidences; pairs of columns (indices) sharing a side;
    pairs joined by a connection; connections naming a column that is not in the geometry"""
    idx = dict((id(c), i) for i, c in enumerate(g.columnlist))
    nidx = dict((id(n), i) for i, n in enumerate(g.nodelist))
    pts = [(float(n.pos[0]), float(n.pos[1])) for n in g.nodelist]
    sides = {}
    for i, c in enumerate(g.columnlist):
        nn = len(c.node)
        for a in range(nn):
            n0, n1 = c.node[a], c.node[(a + 1) % nn]
            sides.setdefault(frozenset((id(n0), id(n1))), []).append((i, n0, n1))
    edges = []
    for key, lst in sides.items():
        _i, n0, n1 = lst[0]
        edges.append(((float(n0.pos[0]), float(n0.pos[1])), (float(n1.pos[0]), float(n1.pos[1])),
                      nidx.get(id(n0), -1), nidx.get(id(n1), -1), [i for i, _a, _b in lst]))
    hang = geom_ref.hanging_nodes(pts, [(a, b, i0, i1) for a, b, i0, i1, _o in edges])
    hanging = [(g.nodelist[j].name, [g.columnlist[i].name for i in edges[k][4]]) for j, k in hang]
    side_pairs = set()
    for key, lst in sides.items():
        owners = sorted(set(i for i, _a, _b in lst))
        for x in range(len(owners)):
            for y in range(x + 1, len(owners)): side_pairs.add((owners[x], owners[y]))
    con_pairs, dangling = set(), 0
    for con in g.connectionlist:
        a, b = idx.get(id(con.column[0])), idx.get(id(con.column[1]))
        if a is None or b is None: dangling += 1; continue
        con_pairs.add((min(a, b), max(a, b)))
    return hanging, side_pairs, con_pairs, dangling


def straight_pattern(poly):
    """(number of sides, indices of straight vertices) by the independent angle formula, same 1e-3 rad notion as the docs"""
    ang = geom_ref.turn_angles(poly)
    return len(poly), [i for i, a in enumerate(ang) if a > math.pi - 1e-3]


def decomposition_class(poly):
    nn, st_ = straight_pattern(poly)
    ns = len(st_)
    if nn <= 4: return 'no-op(<=4 sides)'
    if nn > 8: return 'n>8:triangulate'

    def dist(i, j):
        d = abs(i - j)
        return min(d, nn - d)
    if (nn, ns) == (5, 1): return '(5,1):fan'
    if (nn, ns) == (6, 2):
        d = dist(st_[0], st_[1])
        return '(6,2):d=%d%s' % (d, '' if d in (2, 3) else ':triangulate')
    if (nn, ns) == (7, 3):
        gaps = sorted(dist(st_[i], st_[(i + 1) % 3]) for i in range(3))
        return '(7,3):%s' % ('alternating' if gaps == [2, 2, 3] else 'straight-nodes-adjacent')
    if (nn, ns) == (8, 4):
        alt = all(dist(st_[i], st_[(i + 1) % 4]) == 2 for i in range(4))
        return '(8,4):%s' % ('alternating' if alt else 'straight-nodes-adjacent')
    return '(%d,%d):triangulate' % (nn, ns)


def total_volume(cols, zbot, area_of):
    return sum(area_of(c) * (c['surface'] - zbot) for c in cols if c['surface'] > zbot)


def library_volume(g):
    natm = {0: 1, 1: g.num_columns, 2: 0}.get(g.atmosphere_type, 0)
    tot = 0.0
    for blk in g.block_name_list[natm:]:
        lay, col = g.layer[g.layer_name(blk)], g.column[g.column_name(blk)]
        v = g.block_volume(lay, col)
        if v is None: return None
        tot += v
    return tot


def run_case(case, R):
    import mulgrids
    rc = case['rc']
    for l in geo.describe(rc):
        if l.startswith(('base:', 'op:', 'surface')): R.label(l)
    try:
        g = geo.build(rc)
    except mulgrids.NamingConventionError:
        R.label('build:naming-capacity'); return
    W = case['w']
    for si, op in enumerate(case['steps']):
        ok = judge_step(g, op, rc, W, R, si)
        if not ok: break
        if op['op'] == 'triangulate':       # the helper leaves the derived name lists to its caller
            g.setup_block_name_index(); g.setup_block_connection_name_index()


def judge_step(g, op, rc, W, R, si):
    import mulgrids
    kind = op['op']
    bad = geo.input_defects(g)
    if bad:
        for b in bad: R.exclude('input:' + b)
        return False
    old = snapshot(g)
    und = old['layers'][1:]
    zbot = und[-1]['bottom']
    if any(c['surface'] <= zbot for c in old['cols']):
        R.exclude('domain:surface-at-or-below-model-bottom'); return False
    polys_old = [c['poly'] for c in old['cols']]
    exact = {}

    def area_of(c):
        k = (tuple(c['poly']))
        if k not in exact: exact[k] = geom_ref.area_exact(c['poly'])
        return exact[k]
    if any(area_of(c) <= 0 for c in old['cols']):
        R.exclude('input:column-not-ccw-or-degenerate'); return False
    convex = [geom_ref.is_convex(p, 2e-3) for p in polys_old]       # 2e-3 as a sine: "straight" to the library is within 1e-3 rad
    if kind == 'decompose':
        tg = set(c.name for c in (geo.decompose_targets(g, op, rc) if (op.get('cols') or op.get('convex_only')) else g.columnlist))
        if any(not cv and c['name'] in tg and len(c['poly']) > 4 for cv, c in zip(convex, old['cols'])):
            R.exclude('input:non-convex-column-to-decompose'); return False
    elif kind == 'triangulate':
        if not convex[g.columnlist.index(geo.column_at(g, op['col'], rc))]:
            R.exclude('input:non-convex-column-to-decompose'); return False
    elif kind != 'refine_layers' and not all(convex):
        R.exclude('input:non-convex-column'); return False
    if kind in ('refine', 'split') and any(max(geom_ref.turn_angles(p)) > math.pi - 1e-3 for p in polys_old):
        # e.g. the quadrilaterals with three collinear nodes that decompose_columns makes of an 8-sided column whose straight
        # nodes are adjacent: a triangle-shaped "quadrilateral" cannot be cut into transition triangles
        R.exclude('input:3-or-4-sided-column-with-a-straight-angle'); return False
    nsides = set(len(p) for p in polys_old)
    if kind in ('refine', 'split') and max(nsides) > 4:
        R.label('skipped:%s-on-geometry-with-more-than-4-sided-columns' % kind); return False
    maxabs = max(1.0, max(max(abs(x), abs(y)) for p in polys_old for x, y in p))
    hang0, sp0, cp0, dang0 = conformity(g)
    conforming_in = (not hang0) and sp0 == cp0 and dang0 == 0
    if not conforming_in: R.label('input:nonconforming')
    libarea_old = float(g.area)
    libvol_old = library_volume(g)
    # ------------------------------------------------------------ classes of this step (from the input, independently)
    sel_names = None
    if kind == 'refine':
        cols = geo.region_columns(g, op['region'], rc) if op.get('region') is not None else geo.columns_at(g, op.get('cols', []), rc)
        sel_names = set(c.name for c in cols)
        if not sel_names: sel_names = set(c.name for c in g.columnlist)
        R.label('refine:bisect=%s' % op.get('bisect', False))
        R.label('region:' + op.get('region', {}).get('shape', 'cols'))
        region_labels(g, sel_names, R)
        if op.get('edge_pick'):
            cand = geo.transition_candidates(g, cols, op.get('bisect', False), rc)
            R.label('refine:edge-columns' if cand else 'refine:edge-columns-none-available')
    elif kind in ('decompose', 'triangulate'):
        if kind == 'decompose':
            targets = geo.decompose_targets(g, op, rc) if (op.get('cols') or op.get('convex_only')) else list(g.columnlist)
        else:
            targets = [geo.column_at(g, op['col'], rc)]
        classes = set()
        for c in targets:
            poly = [(float(n.pos[0]), float(n.pos[1])) for n in c.node]
            cl = decomposition_class(poly) if kind == 'decompose' else 'triangulate_column:%s sides' % (
                len(poly) if len(poly) <= 8 else '>8')
            classes.add(cl)
        for cl in classes: R.label('decomp:' + cl)
        if any(not cl.startswith('no-op') for cl in classes): R.nontrivial()
    elif kind == 'split':
        R.label('split'); R.nontrivial(4 in nsides)
    elif kind == 'refine_layers':
        nl = len(und)
        chosen = sorted(set(i % nl for i in op['layers'])) if op['layers'] else list(range(nl))
        R.label('layers:factor=%d' % op['factor'])
        R.label('layers:%s' % ('all' if len(chosen) == nl else 'subset'))
        R.nontrivial(len(chosen) < nl or nl == 1)
    # ------------------------------------------------------------ the operation
    with R.lib(kind, accept=(mulgrids.NamingConventionError,)):
        ret = geo.apply_op(g, op, rc)
    if kind == 'split' and 4 in nsides:
        R.check(ret is True, 'split:returned-false', 'split_column of a quadrilateral at one of its nodes returned %r' % (ret,))
    new = snapshot(g)
    polys_new = [c['poly'] for c in new['cols']]
    tag = kind
    # ------------------------------------------------------------ layers
    if kind == 'refine_layers':
        check_layers(old, new, op, R)
        for a, b in zip(old['cols'], new['cols']):
            if a['poly'] != b['poly'] or a['obj'] != b['obj']:
                R.fail('layers:columns-changed', 'column %r changed under refine_layers' % a['name']); break
    else:
        R.check(old['layers'] == new['layers'], tag + ':layers-changed', 'layer structure changed by a column operation')
    # ------------------------------------------------------------ area and volume
    perim = 0.0
    owners = {}
    for c in old['cols']:
        p = c['poly']
        for a in range(len(p)):
            key = frozenset((c['nodes'][a], c['nodes'][(a + 1) % len(p)]))
            owners[key] = owners.get(key, 0) + 1
    for c in old['cols']:
        p = c['poly']
        for a in range(len(p)):
            if owners[frozenset((c['nodes'][a], c['nodes'][(a + 1) % len(p)]))] == 1:
                perim += geom_ref.dist(p[a], p[(a + 1) % len(p)])
    slack = perim * maxabs * 1e-15
    A0 = sum(area_of(c) for c in old['cols'])
    A1 = sum(area_of(c) for c in new['cols'])
    R.check(abs(A1 - A0) <= 1e-9 * A0 + slack, tag + ':area', 'total plan area (exact shoelace) %r -> %r' % (A0, A1))
    dev = abs(A1 - A0) / (1e-9 * A0 + slack)
    R.label('area:deviation/tolerance:%s' % ('0' if dev == 0 else ('<1e-6' if dev < 1e-6 else ('<1e-3' if dev < 1e-3 else ('<0.1' if dev < 0.1 else '>=0.1')))))
    libarea_new = float(g.area)
    R.check(abs(libarea_new - libarea_old) <= 1e-9 * abs(libarea_old) + slack, tag + ':area',
            'mulgrid.area %r -> %r' % (libarea_old, libarea_new))
    zbot1 = new['layers'][-1]['bottom']
    V0 = total_volume(old['cols'], zbot, area_of)
    V1 = total_volume(new['cols'], zbot1, area_of)
    depth = max(c['surface'] for c in old['cols']) - zbot
    R.check(abs(V1 - V0) <= 1e-9 * V0 + slack * depth, tag + ':volume',
            'total rock volume sum(area x (surface - bottom)) %r -> %r' % (V0, V1))
    if kind != 'triangulate' and libvol_old is not None:
        if geo.input_defects(g):
            R.exclude('result:' + ','.join(geo.input_defects(g)))
        else:
            with R.lib(tag + ':block_volume'):
                lv = library_volume(g)
            R.check(lv is not None and abs(lv - libvol_old) <= 1e-9 * abs(libvol_old) + slack * depth, tag + ':volume',
                    'sum of block_volume over block_name_list %r -> %r' % (libvol_old, lv))
    # ------------------------------------------------------------ tiling
    if kind != 'refine_layers':
        check_tiling(old, new, polys_old, polys_new, area_of, maxabs, W, R, tag, si)
        transition_labels(old, new, sel_names, R)
    # ------------------------------------------------------------ conformity
    for c in new['cols']:
        if not R.check(area_of(c) > 1e-12 * max(1.0, geom_ref.diameter(c['poly'])) ** 2, tag + ':degenerate-column',
                       'column %r has area %r' % (c['name'], area_of(c))): break
    if conforming_in:
        hang1, sp1, cp1, dang1 = conformity(g)
        R.check(not hang1, tag + ':hanging-node', lambda: 'node %r lies inside a side of column(s) %r' % hang1[0])
        R.check(dang1 == 0, tag + ':connection-to-deleted-column', '%d connections name a column that is no longer in the geometry' % dang1)
        extra = sorted(cp1 - sp1); missing = sorted(sp1 - cp1)
        nm = lambda pr: (g.columnlist[pr[0]].name, g.columnlist[pr[1]].name)
        R.check(not extra, tag + ':connection-without-shared-side', lambda: 'connection %r joins columns that share no side' % (nm(extra[0]),))
        if kind != 'triangulate':
            R.check(not missing, tag + ':shared-side-without-connection', lambda: 'columns %r share a side but no connection joins them (%d such pairs)' % (
                nm(missing[0]), len(missing)))
    return True


def region_labels(g, sel, R):
    n = g.num_columns
    R.nontrivial(0 < len(sel) < n)
    R.label('region-size:%s' % ('all' if len(sel) == n else ('1' if len(sel) == 1 else ('<half' if 2 * len(sel) < n else '>=half'))))
    own = geo.side_owners(g)
    bnd = any(len(own[s]) == 1 for c in g.columnlist if c.name in sel for s in geo.column_sides(c))
    R.label('region:touches-boundary' if bnd else 'region:interior')
    # hole: a component of the complement that does not reach the boundary of the domain
    comp_seen = set()
    hole = False
    for c in g.columnlist:
        if c.name in sel or c.name in comp_seen: continue
        comp, frontier, reaches = {c.name}, [c], False
        while frontier:
            x = frontier.pop()
            if any(len(own[s]) == 1 for s in geo.column_sides(x)): reaches = True
            for nb in x.neighbour:
                if nb.name not in sel and nb.name not in comp:
                    comp.add(nb.name); frontier.append(nb)
        comp_seen |= comp
        if not reaches: hole = True
    if hole: R.label('region:encloses-hole')


def transition_labels(old, new, sel_names, R):
    """Which (sides, divided sides, arrangement) class every replaced column fell into, from the result: a side counts as
    divided when the new geometry has a node at its mid point that the old one did not have."""
    newobjs = set(c['obj'] for c in new['cols'])
    oldpts = set(p for c in old['cols'] for p in c['poly'])
    newpts = set(p for c in new['cols'] for p in c['poly']) - oldpts
    if not newpts: return
    for c in old['cols']:
        if c['obj'] in newobjs: continue
        p = c['poly']; nn = len(p)
        if nn not in (3, 4): continue
        div = []
        for a in range(nn):
            m = (0.5 * (p[a][0] + p[(a + 1) % nn][0]), 0.5 * (p[a][1] + p[(a + 1) % nn][1]))
            if m in newpts: div.append(a)
        nref = len(div)
        if nref == 0: continue
        if nn == 4 and nref == 2: arr = 'adjacent' if (div[1] - div[0]) in (1, 3) else 'opposite'
        else: arr = '-'
        where = 'n/a' if sel_names is None else ('selected' if c['name'] in sel_names else 'transition')
        R.label('divided:%d-sided:%d-sides-%s:%s' % (nn, nref, arr, where))


def check_layers(old, new, op, R):
    lo, ln = old['layers'], new['layers']
    und = lo[1:]
    nl = len(und)
    chosen = set(i % nl for i in op['layers']) if op['layers'] else set(range(nl))
    f = int(op['factor'])
    exp = [lo[0]['bottom']]
    for i, l in enumerate(und):
        k = f if i in chosen else 1
        for j in range(1, k + 1):
            exp.append(l['top'] - (l['top'] - l['bottom']) * j / float(k) if j < k else l['bottom'])
    got = [ln[0]['bottom']] + [l['bottom'] for l in ln[1:]]
    span = abs(lo[0]['bottom'] - und[-1]['bottom'])
    tol = 1e-9 * max(span, abs(lo[0]['bottom']), abs(und[-1]['bottom']), 1.0)
    R.check(abs(ln[0]['bottom'] - lo[0]['bottom']) <= tol and abs(ln[0]['top'] - lo[0]['top']) <= tol, 'layers:top-moved',
            'top of the model %r -> %r' % (lo[0]['bottom'], ln[0]['bottom']))
    if not R.check(len(got) == len(exp), 'layers:count', '%d layers refined %d-fold out of %d gave %d layers, expected %d' % (
            len(chosen), f, nl, len(got) - 1, len(exp) - 1)):
        return
    newb = got
    for l in lo:
        R.check(any(abs(l['bottom'] - b) <= tol for b in newb), 'layers:boundary-lost', 'old layer boundary %r is no boundary any more' % l['bottom'])
    for a, b in zip(exp, got):
        if not R.check(abs(a - b) <= tol, 'layers:uneven', 'layer boundaries %r expected %r' % (got, exp)): break
    for l in ln[1:]:
        R.check(abs(l['centre'] - 0.5 * (l['top'] + l['bottom'])) <= tol and l['top'] > l['bottom'], 'layers:centre',
                'layer %r: bottom %r centre %r top %r' % (l['name'], l['bottom'], l['centre'], l['top']))
    for (a, b) in zip(ln[:-1], ln[1:]):
        R.check(b['top'] == a['bottom'], 'layers:top-not-bottom-of-layer-above', 'layer %r top %r, layer above bottom %r' % (b['name'], b['top'], a['bottom']))
    for a, b in zip(old['cols'], new['cols']):
        if not R.check(a['surface'] == b['surface'], 'layers:surface-changed', 'column %r surface %r -> %r' % (a['name'], a['surface'], b['surface'])): break


def check_tiling(old, new, polys_old, polys_new, area_of, maxabs, W, R, tag, si):
    M_old, M_new = geom_ref.Mesh(polys_old), geom_ref.Mesh(polys_new)
    ncol = len(old['cols'])
    per = 3 if ncol <= 60 else (2 if ncol <= 200 else 1)
    judged = skipped = 0
    failed = set()
    rank = dict((j, r) for r, j in enumerate(sorted(range(ncol), key=lambda j: (geom_ref.centroid(polys_old[j]), len(polys_old[j])))))
    for cj, c in enumerate(old['cols']):
        ci = rank[cj]       # sample weights follow the position of the column, not its (address-dependent) place in columnlist
        p = c['poly']; nn = len(p)
        diam = geom_ref.diameter(p)
        margin = 1e-6 * diam + 1e-9 * maxabs
        for pi in range(per):
            w = [10 * W[(ci * 7 + pi * 5 + v * 3 + si) % len(W)] + PRIMES[(v + pi) % len(PRIMES)] + (v == (ci + pi) % nn) * 170
                 for v in range(nn)]        # never symmetric, so the point avoids the centre and the mid lines of the column
            pt = geom_ref.convex_combination(p, w)
            if geom_ref.boundary_dist(pt, p) < margin or M_old.containing(pt) != [cj]:
                skipped += 1; continue
            if M_new.edge_dist(pt, margin) is not None:
                skipped += 1; continue
            inn = M_new.containing(pt)
            judged += 1
            if len(inn) != 1:
                sig = tag + (':tiling-gap' if not inn else ':tiling-overlap')
                if sig not in failed:
                    failed.add(sig)
                    R.fail(sig, 'point %r of old column %r lies in %d new columns %r' % (pt, c['name'], len(inn), [new['cols'][i]['name'] for i in inn]))
                continue
            nc = new['cols'][inn[0]]
            tolv = 1e-9 * (diam + maxabs)
            for v in nc['poly']:
                if not (geom_ref.contains(v, p) or geom_ref.boundary_dist(v, p) <= tolv):
                    if tag + ':outside-parent' not in failed:
                        failed.add(tag + ':outside-parent')
                        R.fail(tag + ':outside-parent', 'new column %r containing point %r of old column %r has a vertex %r outside it' % (
                            nc['name'], pt, c['name'], v))
                    break
            if abs(nc['surface'] - c['surface']) > 1e-9 * max(1.0, abs(c['surface'])) and tag + ':surface' not in failed:
                failed.add(tag + ':surface')
                R.fail(tag + ':surface', 'new column %r in old column %r has surface %r, old surface %r' % (nc['name'], c['name'], nc['surface'], c['surface']))
    R.label('samples:judged' if judged else 'samples:none-judged')
    if skipped: R.label('samples:some-near-a-side-skipped')
    # per-parent area: the new columns whose centroid lies in old column X have the area of X
    sums = [0.0] * ncol
    lost = 0
    for nc in new['cols']:
        cen = geom_ref.centroid(nc['poly'])
        inn = M_old.containing(cen)
        if len(inn) != 1: lost += 1; continue
        sums[inn[0]] += area_of(nc)
    if lost:
        R.label('parent-area:centroid-on-old-side')
        return
    for ci, c in enumerate(old['cols']):
        a = area_of(c)
        per_c = sum(geom_ref.dist(c['poly'][k], c['poly'][(k + 1) % len(c['poly'])]) for k in range(len(c['poly'])))
        if not R.check(abs(sums[ci] - a) <= 1e-9 * a + per_c * maxabs * 4e-15, tag + ':parent-area',
                       'new columns with centroid in old column %r have total area %r, old area %r' % (c['name'], sums[ci], a)): break


LEVEL_TEXT = ('Generated geometries (rectangular, shipped pieces, triangle/hanging-node/n-gon meshes; rotated/translated; drawn surfaces) x '
              'drawn sequences of refine (9 region shapes x 4 modes x edge columns), split_column, triangulate_column, decompose_columns and '
              'refine_layers, each step judged by independent exact-rational areas, winding-number point location of sample points, '
              'per-parent area sums, hanging-node and side<=>connection search; shipped g7 whole (g2..g7, g1, g3 whole in the thorough tier); '
              'all straight-node arrangements of 5..9-sided columns enumerated. Refutes only.')
LEVEL_NOTE = 'Trusted: refs/geom_ref.py (exact-rational shoelace, winding number, distances); public geometry attributes as observed data.'
TECHNIQUE = 'property-based testing (Hypothesis) + enumeration against an independent geometric reference'
