"""C18 - t2grid.rectgeo() inverts grid generation from a rectangular geometry."""
import os, math
from hypothesis import strategies as st
from vlib.core import Search, HarnessError
from gens import geo

ID = 'C18'
CASE_TIMEOUT = 300
RULE = ('rectangular geometry recipes (gens/geo.py): nx, ny in 1..12 (not both 1, within the node capacity of both the source '
        'and the requested output convention), nz in 2..14, spacings uniform / geometric / log-uniform over 2 orders, origins '
        'up to 7 digits, rotation by any angle represented as rotate(theta) + permeability_angle = -theta (the representation '
        'rectgeo itself returns), atmosphere 0/1/2, conventions 0..3 for the source and independently for the reconstruction, '
        'surfaces flat / stepped (on a layer boundary or inside a layer) / sloping plane / above the model top, always leaving '
        'the bottom layer complete, one column reaching the model top and surface blocks thicker than 2 x layer_snap; optional '
        'boundary blocks (zero volume at the end of the block list, volume 1e30) without centre attached below or beside the '
        'lattice; origin block detected / by name / by object; remove_inactive on/off; optional write + read of the grid in a '
        't2data file first. Oracle: column polygons of the result coincide one-to-one with the source columns, equal layer '
        'thicknesses and elevations, equal surfaces, equal permeability angle (mod 180), same atmosphere arrangement, and '
        't2grid().fromgeo(result, blockmap) equals the grid given to rectgeo by block name: volumes, connected pairs, area, '
        'per-block distances, permeability direction, oriented gravity cosine. '
        'Non-trivial = single block along x or y, or rotated, or non-flat surface, or output convention different from the '
        'source, or file round trip; distinct = case JSON.'
        " The original grid's signature is taken before rectgeo is called."
        ' Round 7: boundary blocks below every one-block column (either orientation); thin layers far from the datum.')
ASSUMPTIONS = ['the rotation of the source geometry is represented by rotate(theta) and permeability_angle = -theta, so that '
               'permeability directions 1 and 2 follow the grid axes (otherwise the grid alone does not determine the axes)',
               'at least one column reaches the top of the top layer (layers without any block leave no trace in the grid)',
               'every column surface is at or above the top of the bottom layer (documented precondition: bottom layer complete)',
               'layer_snap is passed explicitly and every surface block is thicker than twice its value (documented purpose of layer_snap)',
               'in memory: relative tolerance 1e-6 (positions: 1e-6 x horizontal extent); after a data-file round trip: the precision '
               'of the fields (10.3e block centres, 10.4e volumes/distances/areas, 10.7f cosine) propagated to positions, surfaces and '
               'surface-block quantities; cases whose elevations cannot be resolved by 10.3e centres to 1/10 of the thinnest layer are '
               'run in memory only',
               'added boundary blocks have no centre (detection of the origin block by lowest centre is documented as fallible otherwise)']

ANGLES = [0.0, 0.0, 0.0, 90.0, 180.0, 270.0, -90.0, 30.0, 45.0, 123.4, -17.5, 359.0, 0.001, 89.999]


# ---------------------------------------------------------------------- generator

def _spacing(nmin, nmax, lo, hi, orders=2.0):
    val = st.floats(0.0, orders).map(lambda u: float('%.4g' % (lo * 10 ** u)))

    @st.composite
    def s(draw):
        n = draw(st.integers(nmin, nmax))
        kind = draw(st.sampled_from(['uniform', 'geometric', 'log', 'log']))
        if kind == 'uniform': return [draw(val)] * n
        if kind == 'geometric':
            a = draw(val); r = draw(st.sampled_from([1.1, 1.3, 1.5]))
            return [float('%.4g' % min(a * r ** i, hi)) for i in range(n)]
        return [draw(val) for _ in range(n)]
    return s()


@st.composite
def case_strategy(draw, file_only=False):
    conv = draw(st.sampled_from([0, 1, 2, 3]))
    oconv = draw(st.sampled_from([conv, conv, 0, 1, 2, 3]))
    cap = min(geo.node_capacity(conv), geo.node_capacity(oconv))
    shape = draw(st.sampled_from(['any'] * 5 + ['nx1', 'ny1']))
    dx = draw(_spacing(2, 12, 1.0, 500.0)) if shape != 'nx1' else [draw(_spacing(1, 1, 1.0, 500.0))[0]]
    dy = draw(_spacing(2, 12, 1.0, 500.0)) if shape != 'ny1' else [draw(_spacing(1, 1, 1.0, 500.0))[0]]
    while (len(dx) + 1) * (len(dy) + 1) > cap:
        if len(dx) >= len(dy): dx = dx[:-1]
        else: dy = dy[:-1]
    dz = draw(_spacing(2, 14, 0.5, 200.0, orders=1.0 if file_only else 2.0))
    high = (not file_only) and draw(st.integers(0, 7)) == 0
    if high: dz = draw(_spacing(2, 14, 0.1, 1.0, orders=1.0))      # thin layers, far above (or below) the datum: see `org` below
    big = draw(st.sampled_from([0, 0, 0, 3, 1] if file_only else [0, 0, 1, 1, 2, 3]))
    if big == 0: org = [0., 0., 0.]
    elif big == 3: org = [-dx[0] / 2, -dy[0] / 2, draw(st.sampled_from([0.0, dz[0], 100.0]))]
    elif big == 1: org = [draw(st.integers(-5000, 5000)) * 1.0, draw(st.integers(-5000, 5000)) * 1.0,
                          draw(st.integers(-2000, 3000)) * 0.5]
    else: org = [draw(st.integers(1000000, 9000000)) * 1.0 + 0.25, draw(st.integers(1000000, 9000000)) * 1.0 + 0.5,
                 draw(st.integers(-500, 2500)) * 1.0]
    if high: org = [org[0], org[1], draw(st.sampled_from([30000.0, 2e5, -45000.0, 8848.0, 1e6]))]
    angle = draw(st.one_of(st.sampled_from(ANGLES), st.floats(-360.0, 360.0).map(lambda a: round(a, 3))))
    skind = draw(st.sampled_from(['flat', 'stepped', 'stepped', 'sloping', 'above']))
    surf = {'kind': skind}
    if skind in ('stepped', 'above'):
        surf['keep'] = draw(st.integers(0, 200))
        ent = []
        for _ in range(draw(st.integers(1, 10))):
            k = draw(st.sampled_from(['boundary', 'mid', 'mid'] + (['above', 'above'] if skind == 'above' else [])))
            fr = 0.0 if k == 'boundary' else draw(st.sampled_from([0.1, 0.25, 0.5, 0.75, 0.9, 0.999])) if k == 'mid' \
                else 1.0 + draw(st.sampled_from([0.0, 0.5, 1.75]))
            ent.append([draw(st.integers(0, 200)), draw(st.integers(0, 30)), fr])
        surf['cols'] = ent
    elif skind == 'sloping':
        surf['a'] = draw(st.sampled_from([-1.0, -0.5, 0.0, 0.3, 1.0]))
        surf['b'] = draw(st.sampled_from([-1.0, 0.0, 0.4, 1.0]))
        surf['f'] = draw(st.sampled_from([0.2, 0.5, 0.9, 1.0]))
    bnd = []
    if draw(st.integers(0, 3)) == 0:
        for _ in range(draw(st.integers(1, 3))):
            bnd.append({'vol': draw(st.sampled_from(['zero', 'huge', 'atmos'])),
                        'at': draw(st.sampled_from(['bottom', 'bottom1', 'bottom1', 'side1', 'side2', 'row1', 'row2'])),
                        'idx': draw(st.integers(0, 500)), 'first': draw(st.booleans())})
    return {'dx': dx, 'dy': dy, 'dz': dz, 'origin': org, 'conv': conv, 'atmos': draw(st.sampled_from([0, 1, 2])),
            'justify': draw(st.sampled_from(['r', 'r', 'l'])), 'chars': draw(st.sampled_from(['lower', 'lower', 'upper'])),
            'angle': angle, 'surface': surf, 'boundary': bnd,
            'out': {'conv': oconv, 'justify': draw(st.sampled_from(['r', 'r', 'l'])),
                    'chars': draw(st.sampled_from(['lower', 'lower', 'upper'])),
                    'origin_block': draw(st.sampled_from(['auto', 'auto', 'name', 'object'])),
                    'remove_inactive': draw(st.booleans()),
                    'block_order': draw(st.sampled_from([None, None, 'layer_column']))},
            'file': True if file_only else draw(st.sampled_from([False, False, True]))}


def enum_cases():
    """small fixed grid of configurations: every atmosphere type x (nx=1 | ny=1 | 2x2 | 3x2) x flat/stepped x rotation"""
    out = []
    for atm in (0, 1, 2):
        for dx, dy in (([10.0], [5.0, 6.0]), ([10.0, 20.0, 30.0], [5.0]), ([10.0, 20.0], [5.0, 7.0]), ([10.0, 20.0, 30.0], [5.0, 6.0])):
            for surf in ({'kind': 'flat'}, {'kind': 'stepped', 'keep': 0, 'cols': [[1, 0, 0.0], [2, 1, 0.5]]},
                         {'kind': 'stepped', 'keep': 1, 'cols': [[0, 1, 0.0]]}):      # origin column = its bottom block only
                for angle in (0.0, 30.0):
                    for conv in (0, 2):
                        out.append({'dx': dx, 'dy': dy, 'dz': [1.0, 2.0, 3.0], 'origin': [100.0, -200.0, 50.0], 'conv': conv,
                                    'atmos': atm, 'justify': 'r', 'chars': 'lower', 'angle': angle, 'surface': surf, 'boundary': [],
                                    'out': {'conv': conv, 'justify': 'r', 'chars': 'lower', 'origin_block': 'auto',
                                            'remove_inactive': False, 'block_order': None}, 'file': False})
    return out


def searches(tier):
    q = tier == 'quick'
    return [Search('fixed', 'enum', enum_cases, shards=8),
            Search('generated', 'hyp', case_strategy, n=3200 if q else 40000, shards=16),
            Search('file', 'hyp', lambda: case_strategy(file_only=True), n=640 if q else 8000, shards=16)]


# ---------------------------------------------------------------------- recipe

def z_resolution(case):
    """bound on the elevation error of a block centre written in a 10.3e field and read back, plus the error of a block
    height recovered from 10.4e volumes and distances"""
    ztop = case['origin'][2]
    zbot = ztop - sum(case['dz'])
    zmax = max(abs(ztop), abs(zbot)) + 2.75 * case['dz'][0]
    hmax = max(case['dz']) * 2.75
    return 6e-4 * zmax + 3e-4 * hmax


def xy_resolution(case):
    """bound on the error of a horizontal centre coordinate written in a 10.3e field"""
    ext = sum(case['dx']) + sum(case['dy'])
    return 6e-4 * (max(abs(case['origin'][0]), abs(case['origin'][1])) + ext)


def row_length(case):
    """distance between the centres of the first and last block of the row that fixes the orientation"""
    d = case['dx'] if len(case['dx']) > 1 else case['dy']
    return sum(d) - (d[0] + d[-1]) / 2


def recipe(case, with_file):
    """case -> (geometry recipe for gens.geo.build, layer_snap)"""
    dx, dy, dz = case['dx'], case['dy'], case['dz']
    nx, ny, nz = len(dx), len(dy), len(dz)
    ncols = nx * ny
    if with_file:
        snap = 3.0 * z_resolution(case)
    else:
        snap = min(0.1, 0.05 * min(dz))
    thin = 2.0 * snap
    s = case['surface']
    ent = []
    if s['kind'] in ('stepped', 'above'):
        keep = s['keep'] % ncols
        seen = set()
        for ci, li, fr in s['cols']:
            ci = ci % ncols
            if ci == keep or ci in seen: continue
            seen.add(ci)
            if fr >= 1.0:
                ent.append([ci, 0, fr]); continue
            li = li % (nz - 1)          # never the bottom layer
            if fr * dz[li] < thin or (1.0 - fr) * dz[li] < 0.0: fr = 0.0
            ent.append([ci, li, fr])
    elif s['kind'] == 'sloping':
        xs = [sum(dx[:i]) + dx[i] / 2 for i in range(nx)]; ys = [sum(dy[:j]) + dy[j] / 2 for j in range(ny)]
        X, Y = sum(dx), sum(dy)
        vals = [s['a'] * xs[i] / X + s['b'] * ys[j] / Y for j in range(ny) for i in range(nx)]
        lo, hi = min(vals), max(vals)
        depth = sum(dz[:-1]) * s['f']
        for ci, v in enumerate(vals):
            if hi == lo or v == lo: continue
            d = (v - lo) / (hi - lo) * depth      # depth of the surface below the model top
            acc = 0.0
            for li in range(nz - 1):
                if d < acc + dz[li] or li == nz - 2:
                    fr = 1.0 - (d - acc) / dz[li]
                    fr = min(max(fr, 0.0), 1.0)
                    if fr * dz[li] < thin: fr = 0.0
                    if fr >= 1.0: break       # on the top of layer li == bottom of the layer above
                    ent.append([ci, li, fr]); break
                acc += dz[li]
    rc = {'base': {'kind': 'rect', 'dx': dx, 'dy': dy, 'dz': dz, 'origin': case['origin']},
          'convention': case['conv'], 'atmos': case['atmos'], 'justify': case['justify'], 'chars': case['chars'],
          'spaces': True, 'block_order': None, 'ops': [], 'surfaces': ent, 'header': {}}
    if case['angle'] != 0.0:
        rc['ops'].append({'op': 'rotate', 'angle': case['angle']})
        rc['header']['perm_angle'] = -case['angle']
    return rc, snap


# ---------------------------------------------------------------------- oracle helpers

def grid_signature(grid, skip=()):
    """by name: volumes; unordered pair -> area, direction, per-block distance, cosine for the orientation min(name) -> max(name)"""
    num = lambda v: float('nan') if v is None else float(v)        # (a missing number never equals anything: reported by the comparison)
    blocks = dict((b.name, num(b.volume)) for b in grid.blocklist if b.name not in skip)
    cons = {}
    for c in grid.connectionlist:
        a, b = c.block[0].name, c.block[1].name
        if a in skip or b in skip: continue
        cs = None if c.dircos is None else (float(c.dircos) if a <= b else -float(c.dircos))
        cons[frozenset((a, b))] = {'area': num(c.area), 'direction': c.direction,
                                   'dist': {a: num(c.distance[0]), b: num(c.distance[1])}, 'cos': cs}
    return blocks, cons


def add_boundary(grid, g, case, R):
    """attach boundary blocks (no centre) below / beside the lattice; returns their names"""
    import t2grids
    und = g.layerlist[1:]
    nx, ny = len(case['dx']), len(case['dy'])
    names, below = [], set()
    specs = sorted(case['boundary'], key=lambda s: s['vol'] == 'zero')      # zero-volume (inactive) blocks last
    # 'bottom1': below EVERY column that consists of its bottom block only (up to 8 of them) - the block such a column has
    # above it is then an atmosphere block and the one below it a boundary block, both in direction 3
    expanded = []
    for s in specs:
        if s['at'] == 'bottom1':
            ones = [i for i, c in enumerate(g.columnlist) if c.num_layers == 1][:8]
            expanded += [dict(s, at='bottom', idx=i) for i in ones] or [dict(s, at='bottom')]
            if ones: R.label('boundary:below-single-block-columns:%s' % ('boundary-block-first' if s['first'] else 'boundary-block-second'))
        else: expanded.append(s)
    for k, s in enumerate(expanded):
        nm = 'Q%s%2d' % ('qz' if k < 10 else 'qy', 90 + k % 10)
        if nm in grid.block: continue
        idx = s['idx']
        if s['at'] == 'bottom':
            col = g.columnlist[idx % g.num_columns]; lay = und[-1]; dirn = 3; half = lay.thickness / 2
        elif s['at'] in ('side1', 'row1'):       # beyond the high-x end of a row (row1: of the origin block's own row)
            if nx < 2: continue
            j = 0 if s['at'] == 'row1' else idx % ny
            col = g.columnlist[j * nx + nx - 1]; dirn = 1; half = case['dx'][-1] / 2
            lay = und[-1] if s['at'] == 'row1' else und[(idx // 7) % len(und)]
        else:
            if ny < 2: continue
            i = 0 if s['at'] == 'row2' else idx % nx
            col = g.columnlist[(ny - 1) * nx + i]; dirn = 2; half = case['dy'][-1] / 2
            lay = und[-1] if s['at'] == 'row2' else und[(idx // 7) % len(und)]
        inner = grid.block.get(g.block_name(lay.name, col.name))
        if inner is None: continue
        vol = {'zero': 0.0, 'huge': 1e30, 'atmos': 1e25}[s['vol']]
        b = t2grids.t2block(nm, vol, grid.rocktypelist[0], centre=None)
        grid.add_block(b)
        area = col.area if dirn == 3 else float(inner.volume) / (2 * half) / 2
        # gravity cosine as TOUGH2 defines it (and fromgeo writes it): -1 when the second block is above the first
        if s['first']: con = t2grids.t2connection([b, inner], dirn, [1e-6, half], area, -1.0 if dirn == 3 else 0.0)
        else: con = t2grids.t2connection([inner, b], dirn, [half, 1e-6], area, 1.0 if dirn == 3 else 0.0)
        grid.add_connection(con)
        names.append(nm)
        if dirn == 3: below.add((lay.name, col.name))
        R.label('boundary:%s:%s' % (s['vol'], s['at']))
    return names, below


def run_case(case, R):
    import numpy as np
    import t2grids, t2data, mulgrids
    nx, ny, nz = len(case['dx']), len(case['dy']), len(case['dz'])
    with_file = bool(case['file'])
    if with_file and z_resolution(case) > 0.1 * min(case['dz']):
        with_file = False
        R.label('file:elevations-unresolvable-in-10.3e(memory-only)')
    if with_file and row_length(case) < 10 * xy_resolution(case):
        with_file = False
        R.label('file:axis-unresolvable-in-10.3e(memory-only)')
    rc, snap = recipe(case, with_file)
    out = case['out']
    R.label('nx=1' if nx == 1 else 'ny=1' if ny == 1 else '3-D', 'conv:%d->%d' % (case['conv'], out['conv']),
            'atmos:%d' % case['atmos'], 'surface:' + case['surface']['kind'], 'rotated' if case['angle'] else 'unrotated',
            'file' if with_file else 'memory', 'origin-block:' + out['origin_block'],
            'remove_inactive:%s' % out['remove_inactive'])
    try:
        g = geo.build(rc)
    except mulgrids.NamingConventionError:
        R.label('build:naming-capacity'); return
    und = g.layerlist[1:]
    ztop, zbot = und[0].top, und[-1].bottom
    # generator invariants (documented preconditions)
    if not (all(c.surface >= und[-1].top for c in g.columnlist) and any(c.surface >= ztop for c in g.columnlist)):
        raise HarnessError('generator broke its own precondition')
    for c in g.columnlist:
        lay = g.column_surface_layer(c)
        if not (c.surface - lay.bottom >= 2 * snap * (1 - 1e-9) - 4e-16 * max(1.0, abs(float(c.surface)), abs(float(lay.bottom)))):      # (round-off of elevations far from the datum)
            raise HarnessError('generator produced a surface block thinner than 2 x layer_snap')
    kinds = set()
    for c in g.columnlist:
        if c.surface > ztop: kinds.add('above-top')
        elif c.surface == ztop: kinds.add('full')
        elif any(c.surface == l.bottom for l in und): kinds.add('on-boundary')
        else: kinds.add('inside-layer')
    for k in kinds: R.label('column:' + k)
    if any(c.num_layers == 1 for c in g.columnlist): R.label('column:single-layer')
    R.nontrivial(nx == 1 or ny == 1 or case['angle'] != 0 or len(kinds) > 1 or out['conv'] != case['conv'] or with_file)
    with R.lib('fromgeo'):
        grid = t2grids.t2grid().fromgeo(g)
    bnames, below = add_boundary(grid, g, case, R) if case['boundary'] else ([], set())
    if with_file:
        dat = t2data.t2data(); dat.grid = grid
        fn = os.path.join(R.tmp, 'g.dat')
        with R.lib('write'):
            dat.write(fn)
        with R.lib('read'):
            grid = t2data.t2data(fn).grid
        if not all(b in grid.block for b in bnames): raise HarnessError('boundary block names changed in the file')
    kw = dict(atmos_type=case['atmos'], convention=out['conv'], justify=out['justify'], chars=geo.CHARS[out['chars']],
              spaces=True, layer_snap=snap, remove_inactive=out['remove_inactive'], block_order=out['block_order'])
    ob_name = g.block_name(und[-1].name, g.columnlist[0].name)
    how = out['origin_block']
    if how == 'auto' and any(c.num_layers == 1 for c in g.columnlist):
        # detection = first block of lowest centre; a bottom block that is also a surface block has its centre computed by
        # another formula (last-bit differences): "specify it manually if the algorithm does not detect it correctly"
        how = 'name'; R.label('origin-block:given(single-layer column present)')
    if how == 'name': kw['origin_block'] = ob_name
    elif how == 'object': kw['origin_block'] = grid.block[ob_name]
    b0, k0 = grid_signature(grid, skip=set(bnames))         # "the original grid": as it was handed to rectgeo
    try:
        with R.lib('rectgeo'):
            g2, bm = grid.rectgeo(**kw)
    except mulgrids.NamingConventionError:
        R.label('rectgeo:naming-capacity'); return
    # ---------------------------------------------------------------- tolerances
    ext = sum(case['dx']) + sum(case['dy'])
    size = max(1.0, max(abs(float(v)) for n in g.nodelist for v in n.pos))
    if with_file:
        rel = 4e-4
        dxy = xy_resolution(case)                # a centre coordinate in 10.3e
        row = row_length(case)
        dang = 2.5 * dxy / row                  # radians
        ptol = dxy * 2 + dang * ext + 2e-4 * ext
        ztol = z_resolution(case)
        atol = math.degrees(dang) + 1e-6
    else:
        rel = 1e-6 + 1e-14 * size / min(min(case['dx']), min(case['dy']))
        ptol = 1e-6 * ext + 1e-12 * size
        ztol = 1e-9 * (abs(ztop) + abs(zbot) + (ztop - zbot))
        atol = 1e-5
    # ---------------------------------------------------------------- geometry: finite
    pos2 = [[float(v) for v in n.pos] for n in g2.nodelist]
    if not R.check(all(math.isfinite(v) for p in pos2 for v in p) and math.isfinite(float(g2.permeability_angle)),
                   'position:not-finite', lambda: 'node positions / permeability angle of the reconstructed geometry are not '
                   'finite: %r angle %r (nx=%d ny=%d)' % (pos2[:2], g2.permeability_angle, nx, ny)):
        return
    # ---------------------------------------------------------------- layers
    t1 = [float(l.top - l.bottom) for l in und]; t2 = [float(l.top - l.bottom) for l in g2.layerlist[1:]]
    if R.check(len(t1) == len(t2), 'spacing:z-count', 'layers %d expected %d' % (len(t2), len(t1))):
        R.check(all(abs(a - b) <= rel * a + 2 * ztol for a, b in zip(t1, t2)), 'spacing:z', lambda: 'layer thicknesses %r expected %r' % (t2, t1))
        R.check(all(abs(float(a.bottom) - float(b.bottom)) <= ztol + rel * (ztop - zbot) for a, b in zip(und, g2.layerlist[1:])),
                'position:z', lambda: 'layer bottoms %r expected %r' % ([float(l.bottom) for l in g2.layerlist[1:]],
                                                                       [float(l.bottom) for l in und]))
    # ---------------------------------------------------------------- horizontal spacings (order-free)
    if not R.check(g2.num_columns == g.num_columns, 'spacing:xy-count', 'columns %d expected %d' % (g2.num_columns, g.num_columns)):
        return

    a2 = math.radians(float(g2.permeability_angle))
    ax1 = np.array([math.cos(a2), math.sin(a2)])      # permeability direction 1 (geometry turned anticlockwise by the angle)

    def sides(c):
        """(extent along permeability direction 1, extent along direction 2) of a column"""
        p = [n.pos for n in c.node]
        if len(p) != 4: return (float('nan'), float('nan'))
        sx = sy = 0.0
        for i in range(4):
            e = p[(i + 1) % 4] - p[i]
            L = float(np.linalg.norm(e))
            if abs(float(np.dot(e, ax1))) >= 0.5 * math.sqrt(2) * L: sx = max(sx, L)
            else: sy = max(sy, L)
        return (sx, sy)
    exp_sides = [(float(a), float(b)) for b in case['dy'] for a in case['dx']]
    got_sides = [sides(c) for c in g2.columnlist]
    left = list(exp_sides)
    for sx, sy in got_sides:
        k = next((i for i, (a, b) in enumerate(left) if abs(sx - a) <= rel * a and abs(sy - b) <= rel * b), None)
        if k is None:
            R.fail('spacing:xy', 'a column of the result measures %r x %r along permeability directions 1, 2; source spacings dx=%r dy=%r '
                   '(multiset of column sizes differs)' % (sx, sy, case['dx'], case['dy']))
            break
        left.pop(k)
    # ---------------------------------------------------------------- column polygons coincide one-to-one
    c1 = np.array([[float(v) for v in c.centre] for c in g.columnlist])
    resolvable = ptol <= 0.25 * min(min(case['dx']), min(case['dy']))
    if not resolvable: R.label('file:columns-matched-through-block-map(positions below field resolution)')
    colindex = dict((c.name, i) for i, c in enumerate(g.columnlist))
    match = {}
    used = set()
    ok = True
    for c in g2.columnlist:
        if resolvable:
            d = np.hypot(c1[:, 0] - float(c.centre[0]), c1[:, 1] - float(c.centre[1]))
            k = int(np.argmin(d))
        else:
            # 10.3e centres cannot tell neighbouring columns apart: identify the source column through the block map
            src = bm.get(g2.block_name(g2.layerlist[-1].name, c.name))
            k = colindex.get(g.column_name(src)) if src in grid.block else None
            if k is None:
                ok = False
                R.fail('blockmap:bottom-block', 'bottom block of column %r maps to %r' % (c.name, src)); break
        o = g.columnlist[k]
        pa = [n.pos for n in c.node]; pb = [n.pos for n in o.node]
        dev = max([min(float(np.linalg.norm(p - q)) for q in pb) for p in pa] + [min(float(np.linalg.norm(p - q)) for q in pa) for p in pb])
        if dev > ptol or k in used or len(pa) != len(pb):
            ok = False
            R.fail('position:column-polygon', 'column %r of the result (centre %r) coincides with no (unused) source column: nearest %r '
                   '(centre %r) deviates by %.6g (tolerance %.3g); permeability angle %r expected %r' % (
                       c.name, [float(v) for v in c.centre], o.name, [float(v) for v in o.centre], dev, ptol,
                       float(g2.permeability_angle), float(g.permeability_angle)))
            break
        used.add(k); match[c.name] = o
    da = (float(g2.permeability_angle) - float(g.permeability_angle)) % 180.0
    R.check(min(da, 180.0 - da) <= atol, 'position:permeability-angle',
            'permeability angle %r expected %r (mod 180)' % (float(g2.permeability_angle), float(g.permeability_angle)))
    # ---------------------------------------------------------------- surfaces
    if ok:
        for c in g2.columnlist:
            o = match[c.name]
            if not R.check(abs(float(c.surface) - float(o.surface)) <= ztol + rel * abs(float(o.surface) - zbot), 'surface:elevation',
                           'column %r (source %r): surface %r expected %r (layer boundaries %r)' % (
                               c.name, o.name, float(c.surface), float(o.surface), [float(l.bottom) for l in und])): break
            if not R.check(c.num_layers == o.num_layers, 'surface:num-layers',
                           'column %r: %d layers expected %d (surface %r, source %r)' % (c.name, c.num_layers, o.num_layers,
                                                                                        float(c.surface), float(o.surface))): break
    # ---------------------------------------------------------------- atmosphere arrangement
    R.check(g2.atmosphere_type == case['atmos'] and g2.num_atmosphere_blocks == g.num_atmosphere_blocks, 'atmosphere:arrangement',
            'atmosphere type %r with %d blocks, expected type %r with %d' % (g2.atmosphere_type, g2.num_atmosphere_blocks,
                                                                           case['atmos'], g.num_atmosphere_blocks))
    # ---------------------------------------------------------------- block map and regenerated grid
    gnames = set(b.name for b in grid.blocklist) - set(bnames)
    if any(v in bnames for v in bm.values()) and case['atmos'] != 2 and any(
            c.num_layers == 1 and (und[-1].name, c.name) in below for c in g.columnlist):
        # a column consisting of its bottom block only, with a boundary block attached underneath: rectgeo looks for
        # "the other block in direction 3" to find the atmosphere block and may take the boundary block
        R.fail('boundary:block-below-single-layer-column-mapped-as-atmosphere',
               'block map sends %r to boundary blocks' % sorted(k for k, v in bm.items() if v in bnames))
        R.exclude('boundary:block-below-single-layer-column-mapped-as-atmosphere')
        return
    R.check(all(v in gnames for v in bm.values()), 'blockmap:value-not-a-grid-block',
            lambda: 'block map values that are not lattice blocks of the grid: %r' % sorted(v for v in bm.values() if v not in gnames)[:5])
    R.check(len(set(bm.values())) == len(bm), 'blockmap:not-injective', 'two geometry blocks map to one grid block')
    R.check(set(bm) <= set(g2.block_name_list), 'blockmap:key-not-a-geometry-block', 'keys outside the geometry')
    with R.lib('fromgeo2'):
        grid3 = t2grids.t2grid().fromgeo(g2, dict(bm))
    b1, k1 = grid_signature(grid3)
    if not R.check(set(b0) == set(b1), 'regen:block-names', lambda: 'regenerated grid: missing %r extra %r' % (
            sorted(set(b0) - set(b1))[:5], sorted(set(b1) - set(b0))[:5])): return
    maxsp = max(max(case['dx']), max(case['dy']))
    colarea = dict((c.name, float(c.area)) for c in g.columnlist)
    atm_names = set(g.block_name_list[:g.num_atmosphere_blocks])
    amax = max(colarea.values())
    for n, v in b0.items():
        a = amax if n in atm_names else colarea.get(g.column_name(n), amax)
        if not R.check(abs(v - b1[n]) <= rel * abs(v) + a * 2 * ztol, 'regen:volume', 'block %r volume %r, original %r' % (n, b1[n], v)): break
    if not R.check(set(k0) == set(k1), 'regen:connection-set', lambda: 'regenerated grid: missing connections %r extra %r' % (
            sorted(tuple(sorted(k)) for k in set(k0) - set(k1))[:4], sorted(tuple(sorted(k)) for k in set(k1) - set(k0))[:4])): return
    for k, v in k0.items():
        w = k1[k]; nm = tuple(sorted(k))
        bad = False
        bad |= not R.check(abs(v['area'] - w['area']) <= rel * v['area'] + 2 * maxsp * ztol, 'regen:area', '%r area %r, original %r' % (nm, w['area'], v['area']))
        bad |= not R.check(v['direction'] == w['direction'], 'regen:direction', '%r permeability direction %r, original %r' % (nm, w['direction'], v['direction']))
        for n in v['dist']:
            bad |= not R.check(abs(v['dist'][n] - w['dist'][n]) <= rel * v['dist'][n] + 2 * ztol, 'regen:distance',
                               '%r: distance of %r to the interface %r, original %r' % (nm, n, w['dist'][n], v['dist'][n]))
        if v['cos'] is None or w['cos'] is None:
            bad |= not R.check(v['cos'] is None and w['cos'] is None, 'regen:gravity-cosine', '%r: %r, original %r' % (nm, w['cos'], v['cos']))
        else:
            ctol = (2e-7 if with_file else 1e-7) + 4 * ztol / min(min(case['dx']), min(case['dy']))
            bad |= not R.check(abs(v['cos'] - w['cos']) <= ctol, 'regen:gravity-cosine', '%r: %r, original %r' % (nm, w['cos'], v['cos']))
        if bad: break
    R.label('compared')


LEVEL_TEXT = ('Hypothesis-generated rectangular geometries (1..12 x 1..12 x 2..14, incl. one block along x or y; any rotation; '
              'flat, stepped, sloping and above-top surfaces; all conventions for source and reconstruction; atmosphere 0/1/2; '
              'boundary blocks; optional data-file round trip) -> fromgeo -> rectgeo -> compared with the source geometry and, '
              'through the returned block map, with the source grid. Refutes only.')
LEVEL_NOTE = 'Trusted: geometry recipes (gens/geo.py) as ground truth; public attributes of mulgrid/t2grid as observation points.'
TECHNIQUE = 'property-based testing (Hypothesis): round-trip (inverse function) oracle with propagated field-precision tolerances'
