"""C12 - point and line location in a geometry agree with exhaustive search."""
import math
from hypothesis import strategies as st
from vlib.core import Search, HarnessError
from gens import geo
from refs import geom_ref

ID = 'C12'
CASE_TIMEOUT = 240
RULE = ('geometry recipe (gens/geo.py: rectangular with spacings 1..500 m, BFS pieces of the 7 shipped geometries and g5/g7 whole '
        '(all 7 whole in the thorough tier), triangle / pentagon meshes; refined, rotated (30, 45, 90, -17.5, 123 degrees), translated, '
        'columns deleted to make holes and notches) x 4..8 query points (inside a drawn column by drawn integer barycentric weights; '
        'anywhere in the bounding box enlarged by 20 %; level with a node: same y or same x as a drawn node; just across a drawn side) '
        'x every search aid (none; guess = right / neighbour / farthest / drawn / every column on small meshes; bounds = bounding '
        'rectangle, enclosing polygon, drawn convex polygon; columns = drawn superset of the answer; quadtree shared, fresh or built '
        'for the superset; six combinations) against a winding-number search over all columns; 3-D points (inside a drawn layer, just '
        'below / above the column surface, above the model, below it) against interval arithmetic; 2..4 lines (between interior points of '
        'two drawn columns, between two points of the enlarged box, and from 1000..10000 column sizes away through the smallest '
        'column) against per-column parametric clipping. Non-trivial = a point with a wrong guess or an aid other than none, or a line '
        'crossing >= 3 columns; distinct = case JSON.'
        " Also: non-convex bounds polygons (a U shape around the mesh; the geometry's own boundary polygon on meshes up to 60 columns)."
        ' Rounds 8-10: a one-column companion geometry with its own quadtree searched before each judged search; a block looked up, its column removed with reduce(), the same point looked up again; lines from a column into a neighbour; hanging-node meshes.')
ASSUMPTIONS = [
    'points closer than 1e-6 x (largest column diameter) + 1e-9 |coordinate| to any column side (or to the boundary of a bounds polygon) are not judged (counted)',
    'elevations closer than 1e-6 (relative to the model height, at least 1e-9) to a layer boundary or the column surface are not generated',
    'between a truncated column surface and the top of its layer, and for block_contains_point above the top of the model, only '
    'self-consistency is required (the statement is silent there)',
    'lines that cross a column side at an angle whose sine is below 1e-3, or lie on a side, are outside the quantifier (counted)',
    'a clipped length within [0.5, 2] x (1e-3 x longest side) may or may not be listed; so may a shorter piece at an end of the '
    'line (a line wholly inside one column is listed whatever its length); line end points within the point tolerance of a side are excluded',
    'entry/exit tolerance 1e-11 x (|coordinate| + line length) / sine of the flattest crossing angle (4.5e4 rounding units); measured: '
    'every one of 35 781 tracks of a thorough run deviated by less than 0.1 % of it (label track:deviation/tolerance)',
    'non-convex columns (a line may enter twice) are counted as excluded for line tracks',
]


# ---------------------------------------------------------------------- strategies

def wts(n=8):
    return st.lists(st.integers(1, 40), min_size=n, max_size=n)


@st.composite
def point_spec(draw):
    k = draw(st.sampled_from(['in', 'in', 'in', 'box', 'box', 'level', 'level', 'across']))
    if k == 'in': return {'k': 'in', 'col': draw(st.integers(0, 3000)), 'w': draw(wts())}
    if k == 'box': return {'k': 'box', 'fx': draw(st.integers(-200, 1200)) / 1000.0, 'fy': draw(st.integers(-200, 1200)) / 1000.0}
    if k == 'level':
        return {'k': 'level', 'axis': draw(st.sampled_from(['y', 'y', 'x'])), 'node': draw(st.integers(0, 5000)),
                'f': draw(st.integers(-300, 1300)) / 1000.0}
    return {'k': 'across', 'col': draw(st.integers(0, 3000)), 'side': draw(st.integers(0, 7)),
            't': draw(st.integers(50, 950)) / 1000.0, 'd': draw(st.sampled_from([1e-4, 1e-3, 1e-2, 0.1, -1e-4, -1e-2]))}


@st.composite
def z_spec(draw):
    k = draw(st.sampled_from(['layer', 'layer', 'layer', 'below-surface', 'above-surface', 'above-model', 'below-model']))
    return {'k': k, 'i': draw(st.integers(0, 60)), 'f': draw(st.integers(20, 980)) / 1000.0}


@st.composite
def line_spec(draw):
    k = draw(st.sampled_from(['cc', 'cc', 'box', 'box', 'far', 'nb']))
    if k == 'nb':     # from inside a column into one of the columns adjoining it (their union need not be convex)
        return {'k': 'nb', 'a': draw(st.integers(0, 3000)), 'b': draw(st.integers(0, 20)), 'wa': draw(wts()), 'wb': draw(wts())}
    if k == 'cc':
        return {'k': 'cc', 'a': draw(st.integers(0, 3000)), 'b': draw(st.integers(0, 3000)), 'wa': draw(wts()), 'wb': draw(wts())}
    if k == 'box':
        f = lambda: draw(st.integers(-200, 1200)) / 1000.0
        return {'k': 'box', 'p': [f(), f()], 'q': [f(), f()]}
    return {'k': 'far', 'w': draw(wts()), 'angle': draw(st.integers(0, 359)) + 0.37, 'reach': draw(st.sampled_from([1500, 3000, 10000])),
            'beyond': draw(st.sampled_from([0.0, 3.0, 2000.0])), 'which': draw(st.sampled_from(['smallest', 'smallest', 'drawn'])),
            'col': draw(st.integers(0, 3000))}


@st.composite
def aid_spec(draw):
    return {'guess': draw(st.integers(0, 3000)), 'subset': draw(st.lists(st.integers(0, 3000), min_size=0, max_size=12)),
            'poly': [[draw(st.integers(-100, 1100)) / 1000.0, draw(st.integers(-100, 1100)) / 1000.0] for _ in range(3)],
            'blockmap': draw(st.booleans())}


@st.composite
def case_strategy(draw, quick=True):
    rc = draw(geo.geometry(max_nx=6, max_ny=6, max_nz=4, shipped=True, ops=True, with_surfaces=True, with_wells=False,
                           max_shipped_cols=60 if quick else 150, header=False))
    if draw(st.integers(0, 5)) == 0:
        # locally refined meshes with hanging nodes (a large column with mid-side nodes beside smaller ones, as in the
        # shipped g1.dat / g3.dat): the union of two adjoining columns need not be convex
        from props import c11
        rc = dict(draw(c11.hang_base()), atmos=draw(st.sampled_from([0, 1, 2])), ops=[], surfaces=[])
    rc['det'] = True
    if draw(st.integers(0, 3)) == 0 and rc['base']['kind'] != 'hang':
        rc['ops'] = list(rc.get('ops', [])) + [{'op': 'delete', 'cols': draw(st.lists(st.integers(0, 400), min_size=1, max_size=4))}]
    if draw(st.integers(0, 3)) == 0 and rc['base']['kind'] == 'rect':
        rc['ops'] = list(rc.get('ops', [])) + [{'op': 'rotate', 'angle': draw(st.sampled_from([90.0, 90.0, 180.0, 45.0, 1e-7, 30.0]))}]
    return {'rc': rc, 'pts': draw(st.lists(point_spec(), min_size=4, max_size=8)),
            'zs': draw(st.lists(z_spec(), min_size=1, max_size=3)),
            'lines': draw(st.lists(line_spec(), min_size=2, max_size=4)), 'aid': draw(aid_spec()),
            'warm': draw(st.booleans()), 'companion': draw(st.integers(0, 2)) == 0, 'then_remove': draw(st.integers(0, 2)) == 0}


@st.composite
def small_column_case(draw):
    """a small square column (1..3 m) in a grid of columns hundreds of metres wide; lines from far away through it"""
    nx, ny = draw(st.integers(2, 6)), draw(st.integers(2, 4))
    big = st.integers(100, 500).map(float)
    dx = [draw(big) for _ in range(nx)]; dy = [draw(big) for _ in range(ny)]
    s = float(draw(st.sampled_from([1, 1, 2, 3])))
    dx[draw(st.integers(0, nx - 1))] = s; dy[draw(st.integers(0, ny - 1))] = s
    org = draw(st.sampled_from([[0., 0., 0.], [-1200., 300., 0.], [2770000.25, 6290000.5, 500.]]))
    rc = {'convention': 0, 'base': {'kind': 'rect', 'dx': dx, 'dy': dy, 'dz': [10., 20.], 'origin': org}, 'atmos': 2, 'ops': [],
          'surfaces': [], 'det': True}
    if draw(st.integers(0, 2)) == 0: rc['ops'].append({'op': 'rotate', 'angle': draw(st.sampled_from([30.0, 45.0, 90.0, -17.5]))})
    lines = []
    for _ in range(draw(st.integers(2, 4))):
        lines.append({'k': 'far', 'w': draw(wts()), 'angle': draw(st.integers(0, 359)) + 0.37,
                      'reach': draw(st.sampled_from([300, 1500, 3000, 10000])), 'beyond': draw(st.sampled_from([0.0, 3.0, 2000.0])),
                      'which': 'smallest', 'col': 0})
    return {'rc': rc, 'pts': draw(st.lists(point_spec(), min_size=2, max_size=4)), 'zs': draw(st.lists(z_spec(), min_size=1, max_size=2)),
            'lines': lines, 'aid': draw(aid_spec()), 'warm': draw(st.booleans())}


@st.composite
def lab_scale_case(draw):
    """a laboratory-scale model: columns of millimetres to centimetres, turned by some angle, crossed by many lines (the
    corner clips of such columns are micrometres to millimetres long)"""
    nx, ny = draw(st.integers(4, 12)), draw(st.integers(4, 10))
    d = draw(st.sampled_from([0.005, 0.01, 0.02, 0.05]))
    vary = draw(st.booleans())
    dx = [d * (draw(st.sampled_from([1.0, 1.0, 0.5, 2.0])) if vary else 1.0) for _ in range(nx)]
    dy = [d * (draw(st.sampled_from([1.0, 1.0, 0.5, 2.0])) if vary else 1.0) for _ in range(ny)]
    rc = {'convention': 0, 'base': {'kind': 'rect', 'dx': dx, 'dy': dy, 'dz': [0.1, 0.2],
                                    'origin': draw(st.sampled_from([[0., 0., 0.], [0.3, -0.2, 0.5]]))}, 'atmos': 2,
          'ops': [{'op': 'rotate', 'angle': draw(st.sampled_from([30.0, 45.0, 17.5, 61.3, 0.0]))}], 'surfaces': [], 'det': True}
    f = lambda: draw(st.integers(-100, 1100)) / 1000.0
    lines = [{'k': 'box', 'p': [f(), f()], 'q': [f(), f()]} for _ in range(draw(st.integers(4, 8)))]
    return {'rc': rc, 'pts': draw(st.lists(point_spec(), min_size=2, max_size=4)), 'zs': draw(st.lists(z_spec(), min_size=1, max_size=2)),
            'lines': lines, 'aid': draw(aid_spec()), 'warm': False}


def shipped_cases(tier):
    q = tier == 'quick'
    out = []
    W = [7, 13, 29, 3, 31, 17, 5, 23]
    for f in (['g7.dat', 'g5.dat'] if q else geo.SHIPPED):
        for rep in range(2 if q else 6):
            pts = [{'k': 'in', 'col': 37 * rep + 101 * i, 'w': W[i % 8:] + W[:i % 8]} for i in range(4)]
            pts += [{'k': 'box', 'fx': ((rep * 7 + i * 13) % 29) / 24.0 - 0.1, 'fy': ((rep * 11 + i * 5) % 23) / 19.0 - 0.1} for i in range(3)]
            pts += [{'k': 'level', 'axis': 'y' if i else 'x', 'node': 53 * rep + 17 * i, 'f': 0.31 + 0.2 * i} for i in range(2)]
            lines = [{'k': 'cc', 'a': 11 * rep + 3, 'b': 97 * rep + 250, 'wa': W, 'wb': W[3:] + W[:3]},
                     {'k': 'box', 'p': [-0.1, 0.13 + 0.1 * rep], 'q': [1.1, 0.83 - 0.07 * rep]},
                     {'k': 'far', 'w': W, 'angle': 33.37 + 50 * rep, 'reach': 3000, 'beyond': 3.0, 'which': 'smallest', 'col': 0}]
            out.append({'rc': {'base': {'kind': 'shipped', 'file': f}, 'det': True}, 'pts': pts,
                        'zs': [{'k': 'layer', 'i': 3 + rep, 'f': 0.4}, {'k': 'below-surface', 'i': 0, 'f': 0.3}],
                        'lines': lines, 'aid': {'guess': 5 + 40 * rep, 'subset': [1, 50, 99, 150], 'poly': [[0.1, 0.1], [0.9, 0.2], [0.5, 0.9]],
                                                'blockmap': False}})
    return out


def searches(tier):
    q = tier == 'quick'
    return [Search('shipped', 'enum', lambda: shipped_cases(tier), shards=16),
            Search('generated', 'hyp', lambda: case_strategy(q), n=3200 if q else 40000, shards=16),
            Search('small-column', 'hyp', small_column_case, n=960 if q else 12000, shards=16),
            Search('lab-scale', 'hyp', lab_scale_case, n=960 if q else 12000, shards=16)]


# ---------------------------------------------------------------------- oracle

def name_of(c):
    return None if c is None else c.name


class Ctx(object):
    pass


def warm_queries(g, np):
    b = g.bounds
    for c in g.columnlist[:40]:
        g.column_containing_point(c.centre); c.bounding_box
    c0, c1 = g.columnlist[0], g.columnlist[-1]
    g.column_containing_point(c0.centre, guess=c1)
    qt = g.column_quadtree()
    g.column_containing_point(c1.centre, qtree=qt)
    g.column_track([np.array(b[0], dtype=float), np.array(b[1], dtype=float)])
    g.block_name_containing_point(np.array([c0.centre[0], c0.centre[1], g.layerlist[-1].centre]))


def run_case(case, R):
    import mulgrids, numpy as np
    rc = case['rc']
    for l in geo.describe(rc):
        if l.startswith(('base:', 'op:')): R.label(l)
    # call history: in half of the cases whose recipe ends with a rotation or translation, the geometry is
    # *searched* before that last operation (points, guesses, quadtree, a track, a block), so that answers which
    # depend on state left behind by earlier searches (cached boxes, trees) are exposed
    ops = list(rc.get('ops') or [])
    warm = bool(case.get('warm')) and bool(ops) and ops[-1]['op'] in ('rotate', 'translate')
    try:
        if warm:
            g = geo.build(dict(rc, ops=ops[:-1]))
            with R.lib('warm-up-searches'):
                warm_queries(g, np)
            with R.lib('last-op'):
                geo.apply_op(g, ops[-1], rc)
                g.setup_block_name_index(); g.setup_block_connection_name_index()
            R.label('history:searched-before-last-move')
        else:
            g = geo.build(rc)
    except mulgrids.NamingConventionError:
        R.label('build:naming-capacity'); return
    bad = geo.input_defects(g)
    if bad:
        for b in bad: R.exclude('input:' + b)
        return
    cols = geo.ordered_columns(g)       # by position: independent of the address-dependent column order left by refine()
    n = len(cols)
    polys = [[(float(nd.pos[0]), float(nd.pos[1])) for nd in c.node] for c in cols]
    if any(geom_ref.area_exact(p) <= 0 for p in polys):
        R.exclude('input:column-not-ccw-or-degenerate'); return
    M = geom_ref.Mesh(polys)
    X = Ctx()
    X.g, X.cols, X.polys, X.M, X.n, X.np, X.rc = g, cols, polys, M, n, np, rc
    X.nodes = sorted(g.nodelist, key=lambda nd: (float(nd.pos[0]), float(nd.pos[1]), nd.name))
    xs = [x for p in polys for x, _y in p]; ys = [y for p in polys for _x, y in p]
    X.bb = (min(xs), min(ys), max(xs), max(ys))
    X.maxabs = max(1.0, max(abs(v) for v in X.bb))
    X.diam = [geom_ref.diameter(p) for p in polys]
    X.size = math.hypot(X.bb[2] - X.bb[0], X.bb[3] - X.bb[1])
    areas = [geom_ref.area_exact(p) for p in polys]
    ratio = max(areas) / min(areas)
    R.label('area-ratio:%s' % ('<10' if ratio < 10 else ('<1e3' if ratio < 1e3 else '>=1e3')))
    R.label('columns:%s' % ('<=30' if n <= 30 else ('<=150' if n <= 150 else '>150')))
    aid = case['aid']
    with R.lib('column_quadtree'):
        X.qt = g.column_quadtree()
    # a second geometry over the same area (one big column), with a quadtree of its own, alive and in use at the same time:
    # what is found through one tree is nothing to the other
    X.g2 = None
    if case.get('companion'):
        R.label('companion-geometry-with-its-own-quadtree')
        with R.lib('companion'):
            w, h = X.bb[2] - X.bb[0], X.bb[3] - X.bb[1]
            X.g2 = mulgrids.mulgrid().rectangular([3 * w + 30.], [3 * h + 30.], [10.], origin=[X.bb[0] - w - 15., X.bb[1] - h - 15., 0.], chars='xyz')
            X.qt2 = X.g2.column_quadtree()
    # ------------------------------------------------------------ points
    npts = 0
    last_inside = None
    for ps in case['pts']:
        p = make_point(X, ps)
        if p is None: continue
        margin = 1e-6 * max(X.diam) + 1e-9 * X.maxabs
        near = M.edge_dist(p, margin)
        if near is not None:
            R.exclude('point-within-tolerance-of-a-side'); continue
        inn = M.containing(p)
        if len(inn) > 1:
            R.exclude('input:overlapping-columns'); continue
        truth = cols[inn[0]] if inn else None
        R.label('point:' + ps['k'], 'truth:' + ('inside' if truth is not None else (
            'outside-bbox' if not (X.bb[0] <= p[0] <= X.bb[2] and X.bb[1] <= p[1] <= X.bb[3]) else 'outside-in-bbox')))
        npts += 1
        if X.g2 is not None:
            with R.lib('companion-search'):
                X.g2.column_containing_point(np.array(p), qtree=X.qt2)
        if truth is not None: last_inside = (p, truth)
        ok = locate_checks(X, R, p, truth, aid)
        if ok is False: continue        # column location already failed for this point; blocks would only repeat it
        for zs in case['zs']:
            block_checks(X, R, p, truth, zs, aid)
    # ------------------------------------------------------------ lines
    for ls in case['lines']:
        ln = make_line(X, ls)
        if ln is None: continue
        track_checks(X, R, ln, ls)
    # ------------------------------------------------------------ a block looked up, its column removed, the same place looked up again
    if case.get('then_remove') and last_inside is not None and n > 1 and not R.findings:
        p, col = last_inside
        und = g.layerlist[1:]
        zz = [0.5 * (float(l.top) + float(l.bottom)) for l in und if float(l.top) <= float(col.surface)]
        if zz:
            R.label('history:block-found-then-its-column-removed')
            p3 = np.array([p[0], p[1], zz[-1]])
            with R.lib('block-before-removal'):
                b0 = g.block_name_containing_point(p3)
            R.check(b0 is not None and g.column_name(b0) == col.name, 'block:before-removal', 'point %r: %r, column %r contains it' % (tuple(p3), b0, col.name))
            with R.lib('reduce'):
                g.reduce([c for c in g.columnlist if c.name != col.name])
            with R.lib('block-after-removal'):
                b1 = g.block_name_containing_point(p3)
            R.check(b1 is None, 'block:column-removed:phantom', 'point %r lay in column %r only; after reduce() without that column '
                    'block_name_containing_point returns %r' % (tuple(p3), col.name, b1))


def in_col_point(X, ci, w):
    p = X.polys[ci]
    ww = [10 * w[v % len(w)] + [3, 11, 23, 7, 31, 13, 41, 19][v % 8] for v in range(len(p))]
    return geom_ref.convex_combination(p, ww)


def make_point(X, ps):
    k = ps['k']
    bb = X.bb
    if k == 'in':
        return in_col_point(X, ps['col'] % X.n, ps['w'])
    if k == 'box':
        return (bb[0] + ps['fx'] * (bb[2] - bb[0]), bb[1] + ps['fy'] * (bb[3] - bb[1]))
    if k == 'level':
        nd = X.nodes[ps['node'] % len(X.nodes)]
        if ps['axis'] == 'y': return (bb[0] + ps['f'] * (bb[2] - bb[0]), float(nd.pos[1]))
        return (float(nd.pos[0]), bb[1] + ps['f'] * (bb[3] - bb[1]))
    if k == 'across':
        p = X.polys[ps['col'] % X.n]
        a, b = p[ps['side'] % len(p)], p[(ps['side'] + 1) % len(p)]
        t = ps['t']
        mx, my = a[0] + t * (b[0] - a[0]), a[1] + t * (b[1] - a[1])
        L = geom_ref.dist(a, b)
        if L == 0: return None
        nx_, ny_ = (b[1] - a[1]) / L, -(b[0] - a[0]) / L        # outward normal of a counter-clockwise polygon
        d = ps['d'] * L
        return (mx + d * nx_, my + d * ny_)
    raise HarnessError('unknown point kind %r' % k)


def far_column(X, p):
    best, bd = None, -1.0
    for c, poly in zip(X.cols, X.polys):
        cx, cy = geom_ref.centroid(poly)
        d = math.hypot(cx - p[0], cy - p[1])
        if d > bd: best, bd = c, d
    return best


def near_column(X, p, exclude=None):
    best, bd = None, None
    for c, poly in zip(X.cols, X.polys):
        if c is exclude: continue
        cx, cy = geom_ref.centroid(poly)
        d = math.hypot(cx - p[0], cy - p[1])
        if bd is None or d < bd: best, bd = c, d
    return best


def locate_checks(X, R, p, truth, aid):
    np, g = X.np, X.g
    pos = np.array([p[0], p[1]])
    bb = X.bb
    exp = name_of(truth)

    state = {'qtree_ok': True}

    def judge(kind, got, expected=exp, note=''):
        gn = name_of(got)
        if gn == expected: return
        if kind == 'qtree': state['qtree_ok'] = False
        what = 'missed' if gn is None else ('phantom' if expected is None else 'wrong')
        R.fail('locate:%s:%s' % (kind, what), 'point %r: %s%s returned %r, the winding-number search over all columns gives %r' % (
            (p[0], p[1]), kind, note, gn, expected))
    nsub = 0
    # direct containment test of the columns near the point (the primitive every search path relies on)
    with R.lib('contains_point'):
        for i in (range(X.n) if X.n <= 40 else X.M.candidates(p, 0.25 * X.size)):
            c = X.cols[i]
            got = bool(c.contains_point(pos))
            if got != (c is truth):
                R.fail('contains_point:%s' % ('phantom' if got else 'missed'),
                       'column %r contains_point(%r) = %r, winding number says %r' % (c.name, (p[0], p[1]), got, c is truth))
                return False        # every search path relies on this primitive: one root cause, one signature
    # plain
    with R.lib('locate:plain'):
        judge('plain', g.column_containing_point(pos)); nsub += 1
    # guesses
    guesses = []
    if truth is not None:
        guesses.append(('right', truth))
        nb = sorted(truth.neighbour, key=geo.position_key)
        if nb: guesses.append(('neighbour', nb[aid['guess'] % len(nb)]))
    else:
        guesses.append(('nearest', near_column(X, p)))
    guesses.append(('far', far_column(X, p)))
    guesses.append(('drawn', X.cols[aid['guess'] % X.n]))
    if X.n <= 30:
        guesses += [('every', c) for c in X.cols]
    with R.lib('locate:guess'):
        for what, gc in guesses:
            judge('guess', g.column_containing_point(pos, guess=gc), note='(guess=%s %r)' % (what, gc.name)); nsub += 1
    if truth is not None and any(gc is not truth for _w, gc in guesses): R.nontrivial()
    R.nontrivial()
    # bounds
    rect = [np.array([bb[0], bb[1]]), np.array([bb[2], bb[3]])]
    ex, ey = 0.01 * (bb[2] - bb[0]) + 1.0, 0.01 * (bb[3] - bb[1]) + 1.0
    encl = [np.array([bb[0] - ex, bb[1] - ey]), np.array([bb[2] + ex, bb[1] - ey]), np.array([bb[2] + ex, bb[3] + ey]),
            np.array([bb[0] - ex, bb[3] + ey])]
    tri = [(bb[0] + fx * (bb[2] - bb[0]), bb[1] + fy * (bb[3] - bb[1])) for fx, fy in aid['poly']]
    if geom_ref.area_exact(tri) < 0: tri = tri[::-1]
    tri_ok = geom_ref.area_exact(tri) > 1e-6 * X.size ** 2 and geom_ref.boundary_dist(p, tri) > 1e-6 * X.size + 1e-9 * X.maxabs
    tri_exp = exp if (tri_ok and geom_ref.contains(p, tri)) else None
    tri_np = [np.array(v) for v in tri]
    with R.lib('locate:bounds'):
        judge('bounds', g.column_containing_point(pos, bounds=rect), note='(bounding rectangle)'); nsub += 1
        judge('bounds', g.column_containing_point(pos, bounds=encl), note='(enclosing 4-sided polygon)'); nsub += 1
        if tri_ok:
            judge('bounds', g.column_containing_point(pos, bounds=tri_np), tri_exp, note='(triangle %r)' % (tri,)); nsub += 1
            # the same polygon handed over as one (N, 2) array instead of a list of points
            judge('bounds', g.column_containing_point(pos, bounds=np.array(tri)), tri_exp, note='(triangle as a 2-D array %r)' % (tri,)); nsub += 1
            judge('bounds', g.column_containing_point(pos, bounds=np.array(encl)), note='(enclosing 4-sided polygon as a 2-D array)'); nsub += 1
            R.label('bounds:point-%s-polygon' % ('inside' if geom_ref.contains(p, tri) else 'outside'))
        # non-convex bounds: a U-shaped polygon around the mesh (a ray from a point in one arm crosses its boundary three
        # times) and, on small meshes, the geometry's own boundary polygon (re-entrant for irregular outlines)
        W, H = bb[2] - bb[0] + 2 * ex, bb[3] - bb[1] + 2 * ey
        fa, fb = sorted([0.15 + 0.7 * aid['poly'][0][0], 0.15 + 0.7 * aid['poly'][1][0]])
        if fb - fa < 0.05: fa, fb = 0.3, 0.7
        xa, xb, yd = bb[0] - ex + fa * W, bb[0] - ex + fb * W, bb[1] - ey + (0.1 + 0.5 * aid['poly'][2][1]) * H
        ushape = [(bb[0] - ex, bb[1] - ey), (bb[2] + ex, bb[1] - ey), (bb[2] + ex, bb[3] + ey), (xb, bb[3] + ey), (xb, yd), (xa, yd),
                  (xa, bb[3] + ey), (bb[0] - ex, bb[3] + ey)]
        polys = [('U-shaped polygon', ushape)]
        if X.n <= 60:
            try: bp = [tuple(float(v) for v in q) for q in g.boundary_polygon]
            except Exception: bp = None
            if bp and len(bp) >= 3:
                if geom_ref.area_exact(bp) < 0: bp = bp[::-1]
                polys.append(('own boundary polygon', bp))
        for what, poly in polys:
            if geom_ref.area_exact(poly) <= 1e-6 * X.size ** 2: continue
            if geom_ref.boundary_dist(p, poly) <= 1e-6 * X.size + 1e-9 * X.maxabs:
                R.label('bounds:point-on-polygon-boundary(not judged)'); continue
            inside = geom_ref.contains(p, poly)
            R.label('bounds:nonconvex:point-%s' % ('inside' if inside else 'outside'))
            judge('bounds', g.column_containing_point(pos, bounds=[np.array(v) for v in poly]), exp if inside else None,
                  note='(%s, %d vertices)' % (what, len(poly))); nsub += 1
            judge('bounds', g.column_containing_point(pos, bounds=np.array(poly)), exp if inside else None,
                  note='(%s as a 2-D array, %d vertices)' % (what, len(poly))); nsub += 1
    # columns superset
    sup = dict((X.cols[i % X.n].name, X.cols[i % X.n]) for i in aid['subset'])
    if truth is not None: sup[truth.name] = truth
    sup = [c for c in X.cols if c.name in sup]
    with R.lib('locate:columns'):
        if sup:
            judge('columns', g.column_containing_point(pos, columns=sup), note='(columns=%d-column superset)' % len(sup)); nsub += 1
        judge('columns', g.column_containing_point(pos, columns=list(reversed(X.cols))), note='(columns=all, reversed)'); nsub += 1
    # quadtree
    with R.lib('locate:qtree'):
        judge('qtree', g.column_containing_point(pos, qtree=X.qt), note='(shared quadtree)'); nsub += 1
        if X.n <= 150:
            judge('qtree', g.column_containing_point(pos, qtree=g.column_quadtree()), note='(fresh quadtree)'); nsub += 1
        # quadtree for "columns in a defined area" (documented use): a connected patch around the answer (or around a drawn
        # column when the point is outside): breadth-first ball
        area = geo.bfs_columns(g, X.cols.index(truth) if truth is not None else aid['guess'] % X.n, 2 + len(aid['subset']), {'det': True})
        exp_area = exp if truth is not None else None
        judge('qtree', g.column_containing_point(pos, columns=area, qtree=g.column_quadtree(area)), exp_area,
              note='(quadtree of a connected %d-column area)' % len(area)); nsub += 1
    # combinations
    far = far_column(X, p)
    with R.lib('locate:combination'):
        judge('combination', g.column_containing_point(pos, guess=far, bounds=rect), note='(far guess + rectangle)')
        if state['qtree_ok']:       # (a quadtree failure is reported once, under locate:qtree)
            judge('combination', g.column_containing_point(pos, guess=guesses[0][1], qtree=X.qt), note='(guess + quadtree)')
            judge('combination', g.column_containing_point(pos, bounds=encl, qtree=X.qt), note='(polygon + quadtree)')
        if sup:
            judge('combination', g.column_containing_point(pos, columns=sup, guess=X.cols[aid['guess'] % X.n]), note='(superset + drawn guess)')
            if state['qtree_ok']:
                judge('combination', g.column_containing_point(pos, columns=sup, guess=far, bounds=rect, qtree=X.qt), note='(all aids)')
        if tri_ok:
            judge('combination', g.column_containing_point(pos, guess=guesses[0][1], bounds=tri_np), tri_exp, note='(guess + triangle)')
        nsub += 6
    R.count(nsub)
    return state['qtree_ok']


def block_checks(X, R, p, truth, zs, aid):
    np, g = X.np, X.g
    lays = g.layerlist
    und = lays[1:]
    top, zbot = float(lays[0].bottom), float(und[-1].bottom)
    H = max(top - zbot, 1e-9)
    tolz = max(1e-6 * H, 1e-9 * max(abs(top), abs(zbot), 1.0))
    k = zs['k']
    s = float(truth.surface) if truth is not None else top
    if k == 'layer':
        l = und[zs['i'] % len(und)]
        z = float(l.bottom) + zs['f'] * (float(l.top) - float(l.bottom))
    elif k == 'below-surface':
        z = s - (0.001 + 0.2 * zs['f']) * H
    elif k == 'above-surface':
        z = s + (0.001 + 0.2 * zs['f']) * H
    elif k == 'above-model':
        z = max(top, s) + (0.01 + zs['f']) * H if zs['i'] % 2 else top + 0.5 * zs['f'] * max(s - top, 0.0) + (0.0 if s > top else 0.3 * H)
    else:
        z = zbot - (0.01 + zs['f']) * H
    bounds_z = [top] + [float(l.bottom) for l in und] + ([s] if truth is not None else [])
    if any(abs(z - b) <= tolz for b in bounds_z):
        R.exclude('elevation-within-tolerance-of-a-boundary'); return
    # expected block by interval arithmetic
    zone = None
    if truth is None: exp, zone = None, 'no-column'
    elif z < zbot: exp, zone = None, 'below-model'
    elif z > top:
        if s > top and z < s: exp, zone = (und[0], truth), 'extended-surface-block'
        else: exp, zone = None, 'above-ground'
    else:
        l = [l for l in und if float(l.bottom) < z < float(l.top)]
        if len(l) != 1: raise HarnessError('layer intervals do not partition the model height at z=%r' % z)
        l = l[0]
        if s <= float(l.bottom): exp, zone = None, 'above-ground'
        elif z < s: exp, zone = (l, truth), 'underground'
        else: exp, zone = (l, truth), 'between-truncated-surface-and-layer-top'
    R.label('z:' + zone)
    pos3 = np.array([p[0], p[1], z])
    bm = {}
    expname = None
    if exp is not None:
        expname = g.block_name(exp[0].name, exp[1].name)
        if expname not in g.block_name_index:
            raise HarnessError('expected block %r is not in block_name_list' % expname)
        if aid.get('blockmap'): bm = {expname: 'Q%04d' % (g.block_name_index[expname] % 10000)}
    with R.lib('block_name_containing_point'):
        got = g.block_name_containing_point(pos3, blockmap=dict(bm)) if bm else g.block_name_containing_point(pos3)
        gotq = g.block_name_containing_point(pos3, qtree=X.qt)
    R.count(2)
    want = bm.get(expname, expname) if expname else None
    if zone == 'between-truncated-surface-and-layer-top':
        # the statement is silent: only self-consistency
        if got is not None:
            inv = dict((v, k_) for k_, v in bm.items())
            with R.lib('block_contains_point'):
                R.check(g.block_contains_point(inv.get(got, got), pos3), 'block:self-inconsistent',
                        'point %r: block_name_containing_point gives %r but block_contains_point(%r) is False' % (tuple(pos3), got, got))
        R.check(got == (bm.get(gotq, gotq) if gotq else None), 'block:qtree-differs', 'point %r: %r without, %r with quadtree' % (tuple(pos3), got, gotq))
        return
    R.check(got == want, 'block:%s' % ('missed' if got is None else ('phantom' if want is None else 'wrong')),
            'point %r (%s; column %r surface %r): block_name_containing_point returned %r, expected %r' % (
                tuple(pos3), zone, name_of(truth), s if truth is not None else None, got, want))
    R.check(gotq == expname, 'block:qtree:%s' % ('missed' if gotq is None else ('phantom' if expname is None else 'wrong')),
            'point %r (%s): block_name_containing_point(qtree) returned %r, expected %r' % (tuple(pos3), zone, gotq, expname))
    if zone == 'underground':
        with R.lib('block_contains_point'):
            R.check(g.block_contains_point(expname, pos3), 'block_contains_point:missed',
                    'block %r does not contain point %r (layer %r..%r, surface %r)' % (expname, tuple(pos3), exp[0].bottom, exp[0].top, s))
            others = []
            li = und.index(exp[0])
            for dl in (-1, 1):
                if 0 <= li + dl < len(und) and s > float(und[li + dl].bottom): others.append(g.block_name(und[li + dl].name, truth.name))
            for nb in sorted(truth.neighbour, key=geo.position_key)[:2]:
                if float(nb.surface) > float(exp[0].bottom): others.append(g.block_name(exp[0].name, nb.name))
            for o in others:
                R.check(not g.block_contains_point(o, pos3), 'block_contains_point:phantom',
                        'block %r claims point %r which lies in block %r' % (o, tuple(pos3), expname))


def make_line(X, ls):
    bb = X.bb
    k = ls['k']
    if k == 'cc':
        a = in_col_point(X, ls['a'] % X.n, ls['wa']); b = in_col_point(X, ls['b'] % X.n, ls['wb'])
    elif k == 'nb':
        ca = X.cols[ls['a'] % X.n]
        nbs = sorted(ca.neighbour, key=geo.position_key)
        if not nbs: return None
        cb = nbs[ls['b'] % len(nbs)]
        a = in_col_point(X, ls['a'] % X.n, ls['wa']); b = in_col_point(X, X.cols.index(cb), ls['wb'])
    elif k == 'box':
        a = (bb[0] + ls['p'][0] * (bb[2] - bb[0]), bb[1] + ls['p'][1] * (bb[3] - bb[1]))
        b = (bb[0] + ls['q'][0] * (bb[2] - bb[0]), bb[1] + ls['q'][1] * (bb[3] - bb[1]))
    else:
        if ls['which'] == 'smallest':
            ci = min(range(X.n), key=lambda i: (X.diam[i], i))
        else:
            ci = ls['col'] % X.n
        c = in_col_point(X, ci, ls['w'])
        d = X.diam[ci]
        ux, uy = math.cos(math.radians(ls['angle'])), math.sin(math.radians(ls['angle']))
        a = (c[0] - ls['reach'] * d * ux, c[1] - ls['reach'] * d * uy)
        b = (c[0] + (0.2 + ls['beyond']) * d * ux, c[1] + (0.2 + ls['beyond']) * d * uy)
    if geom_ref.dist(a, b) <= 1e-6 * X.size: return None
    return a, b


def track_checks(X, R, ln, ls):
    np, g = X.np, X.g
    a, b = ln
    L = geom_ref.dist(a, b)
    margin = 1e-6 * max(X.diam) + 1e-9 * X.maxabs
    if X.M.edge_dist(a, margin) is not None or X.M.edge_dist(b, margin) is not None:
        R.exclude('line:end-point-within-tolerance-of-a-side'); return
    # ---- independent clipping
    clips = {}
    minsine = 1.0
    pad = 1e-6 * X.size
    lo = (min(a[0], b[0]) - pad, min(a[1], b[1]) - pad, max(a[0], b[0]) + pad, max(a[1], b[1]) + pad)
    for i, poly in enumerate(X.polys):
        bx = X.M.bb[i]
        if bx[2] < lo[0] or bx[0] > lo[2] or bx[3] < lo[1] or bx[1] > lo[3]: continue
        iv = geom_ref.clip_segment_convex_or_not(a, b, poly)
        ms = geom_ref.min_crossing_sine(a, b, poly)
        if iv or ms < 1.0: minsine = min(minsine, ms)
        if len(iv) > 1:
            R.exclude('line:column-entered-twice(non-convex)'); return
        if iv: clips[i] = (iv[0][0], iv[0][1])
    if minsine < 1e-3:
        R.exclude('line:along-or-nearly-parallel-to-a-crossed-side'); return
    tolp = 1e-11 * (X.maxabs + L) / minsine
    thr = dict((i, 1e-3 * max(geom_ref.dist(X.polys[i][k], X.polys[i][(k + 1) % len(X.polys[i])]) for k in range(len(X.polys[i]))))
               for i in clips)
    if any(tolp > 0.1 * thr[i] for i in clips):
        R.exclude('line:rounding-comparable-to-the-clip-threshold'); return
    length = dict((i, (t1 - t0) * L) for i, (t0, t1) in clips.items())
    must = [i for i in clips if length[i] > 2.0 * thr[i]]
    # may or may not be listed: clips around the threshold, and short pieces at an end of the line (the statement only speaks
    # of corner clips; a whole line inside one column is listed whatever its length)
    at_end = lambda i: clips[i][0] <= 0.0 or clips[i][1] >= 1.0
    dontcare = [i for i in clips if i not in must and (length[i] >= 0.5 * thr[i] or at_end(i))]
    R.label('line:' + ls['k'], 'line:crosses-%s' % ('0' if not must else ('1-2' if len(must) < 3 else '>=3')))
    if dontcare: R.label('line:has-borderline-clip')
    if len(must) >= 3: R.nontrivial()
    if ls['k'] == 'far' and must:
        sm = min(must, key=lambda i: X.diam[i])
        t0 = clips[sm][0]
        if t0 * L >= 1000.0 * X.diam[sm]: R.label('line:small-column-1000x-beyond-start')
    line = (np.array([a[0], a[1]]), np.array([b[0], b[1]]))
    with R.lib('column_track'):
        track = g.column_track(line)
    R.count(1)
    idx = dict((id(c), i) for i, c in enumerate(X.cols))
    listed = []
    for item in track:
        c, pin, pout = item[0], item[1], item[2]
        i = idx.get(id(c))
        if i is None:
            R.fail('track:unknown-column', 'track lists a column object that is not in the geometry: %r' % (c,)); return
        listed.append((i, (float(pin[0]), float(pin[1])), (float(pout[0]), float(pout[1]))))
    names = lambda ii: [X.cols[i].name for i in ii]
    li = [i for i, _p, _q in listed]
    desc = 'line %r -> %r' % (a, b)
    for i in must:
        if not R.check(li.count(i) >= 1, 'track:misses-column', lambda: '%s: column %r is crossed over %.6g m (longest side %.6g m, %.6g m from the start) '
                       'but is not in the track %r' % (desc, X.cols[i].name, length[i], thr[i] * 1e3, clips[i][0] * L, names(li))): break
    for i in set(li):
        R.check(li.count(i) == 1, 'track:column-listed-twice', '%s: column %r' % (desc, X.cols[i].name))
    for i in li:
        if not R.check(i in must or i in dontcare, 'track:lists-column-not-crossed',
                       lambda: '%s: column %r listed, clipped length %r' % (desc, X.cols[i].name, length.get(i))): break
    worst = 0.0
    prev = None
    for i, pin, pout in listed:
        if i not in clips: continue
        t0, t1 = clips[i]
        e0 = (a[0] + t0 * (b[0] - a[0]), a[1] + t0 * (b[1] - a[1])); e1 = (a[0] + t1 * (b[0] - a[0]), a[1] + t1 * (b[1] - a[1]))
        d0, d1 = geom_ref.dist(pin, e0), geom_ref.dist(pout, e1)
        worst = max(worst, d0, d1)
        R.check(d0 <= tolp and d1 <= tolp, 'track:entry-exit',
                lambda: '%s: column %r entry %r exit %r, independent clipping gives %r .. %r (tolerance %.3g)' % (
                    desc, X.cols[i].name, pin, pout, e0, e1, tolp))
        for q in (pin, pout):
            _t, perp = geom_ref.point_to_line_param(q, a, b)
            R.check(perp <= tolp, 'track:point-off-line', lambda: '%s: point %r of column %r is %.3g off the line' % (desc, q, X.cols[i].name, perp))
        if prev is not None:
            pi_, pout_prev = prev
            R.check(clips[pi_][0] <= t0 + tolp / L, 'track:order', lambda: '%s: column %r (entry at %.6g) listed before %r (entry at %.6g)' % (
                desc, X.cols[pi_].name, clips[pi_][0] * L, X.cols[i].name, t0 * L))
            if abs(clips[pi_][1] - t0) * L <= tolp:
                R.check(geom_ref.dist(pout_prev, pin) <= 2 * tolp, 'track:consecutive-segments-do-not-abut',
                        lambda: '%s: exit %r of %r and entry %r of %r' % (desc, pout_prev, X.cols[pi_].name, pin, X.cols[i].name))
        prev = (i, pout)
    if worst > 0: R.label('track:deviation/tolerance:%s' % ('<1e-3' if worst < 1e-3 * tolp else ('<0.02' if worst < 0.02 * tolp else ('<0.5' if worst < 0.5 * tolp else '>=0.5'))))
    if any(li.count(i) == 0 for i in must): return        # the lengths cannot add up either: reported once, as track:misses-column
    inside = sum(length.values())
    dropped = sum(length[i] for i in clips if i not in li)
    total = sum(geom_ref.dist(pin, pout) for _i, pin, pout in listed)
    allowed = sum(length[i] for i in clips if i not in must and i not in li) + (len(clips) + 1) * 2 * tolp
    R.check(abs(total - (inside - dropped)) <= (len(clips) + 1) * 2 * tolp and dropped <= allowed, 'track:length',
            lambda: '%s: segment lengths add up to %r; length of the line inside the domain %r, of which %r in columns not listed (%r allowed)' % (
                desc, total, inside, dropped, allowed))


LEVEL_TEXT = ('Generated geometries (rectangular, shipped pieces and whole g5/g7, refined, rotated, with deleted columns) x drawn points '
              '(interior, anywhere in the enlarged box, level with a node, just across a side) x every search aid and six combinations, '
              'compared with a winding-number search over all columns; 3-D points against interval arithmetic; lines (incl. from 1000+ '
              'column sizes away through the smallest column) against independent per-column clipping. Refutes only.')
LEVEL_NOTE = 'Trusted: refs/geom_ref.py (winding number, distances, parametric clipping); public geometry attributes as observed data.'
TECHNIQUE = 'property-based testing (Hypothesis) against brute-force reference search'
