"""C02 - fixed-column records never spill: each field parses back to what was written."""
import os, math, itertools
from hypothesis import strategies as st
from vlib.core import Search, HarnessError

ID = 'C02'
RULE = ('lattice: for every (format table, record kind, field) of the four live format tables, a target value '
        'from the lattice {reals: sign x decimal exponent -120..120 (thinned in quick) x mantissa patterns '
        '1, 1.5, 9.99999999999999, 1.2345678901234567, 5.5, half-way 1.00005 / 1.0005 / 1.005; +-0.0}, '
        '{ints: 0, +-(10^k-1), +-10^k for k=1..width+1}, {names of length 0..width}, None; all other fields '
        'hold distinct full-width sentinels; write_values_to_string then parse_string. record: every field of a '
        'record drawn at once from the same per-field lattice (Hypothesis). Non-trivial = the plain %-formatted '
        'target is within one column of its width or wider, or the target is None with both neighbours present; '
        'distinct = distinct (table, kind, field, value) JSON.'
        ' Also: every lattice value as the last one of a shorter list (trailing values left off); Hypothesis sequences of 2..6 records written through ONE file object (write_values) and read back through another (read_values); generated data models (gens/data.py) with 1..3 real fields anywhere (rock properties, block volumes, generator tables, time-step tables, primary variables ...) replaced by lattice values or an inner absent value, written and read back by the library\'s own section writers / readers (t2data.write / t2data.read) and by an independent reader: every field as the format carries it, a loud failure only when something did not fit.'
        ' Rounds 8-10: a quarter of the whole-record cases go through plain fixed_format_file objects (one per table, all alive, created in a drawn order); values that cannot be written (integers one digit too wide, coordinates of eleven columns) handed to t2incon.write / mulgrid.write: a loud failure or a complete file.')
ASSUMPTIONS = ['read side uses the read-function dictionary each format really uses '
               '(default for data/extra-precision/geometry tables, fortran for initial conditions)',
               'an all-blank string field counts as "nothing" (the library\'s string reader returns the blanks)']

_parsers = {}


def tables():
    import t2data, t2incons, mulgrids
    return {'t2data': t2data.t2data_format_specification,
            't2data_xp': t2data.t2data_extra_precision_format_specification,
            't2incon': t2incons.t2incon_format_specification,
            'mulgrid': mulgrids.mulgrid_format_specification}


def parser(table):
    """A live parser object for the table, bound to os.devnull (no file is written)."""
    if table not in _parsers:
        import fixed_format_file as fff, t2data, t2incons, mulgrids
        if table == 't2data': p = t2data.t2data_parser(os.devnull, 'w')
        elif table == 't2data_xp': p = t2data.t2_extra_precision_data_parser(os.devnull, 'w')
        elif table == 't2incon': p = t2incons.t2incon_parser(os.devnull, 'w')
        else:
            p = fff.fixed_format_file(os.devnull, 'w', mulgrids.mulgrid_format_specification,
                                      mulgrids.mulgrid().read_function)
        _parsers[table] = p
    return _parsers[table]


def spec_of(f):
    """'10.4e' -> (width, prec, type, leftjustified)"""
    typ = f[-1]
    body = f[:-1]
    w, _, d = body.partition('.')
    return abs(int(w)), (int(d) if d else None), typ, w.startswith('-')


def sentinel(i, f):
    w, d, typ, left = spec_of(f)
    if typ == 'x': return None
    if typ == 's':
        return chr(ord('A') + i % 26) * w
    if typ == 'd':
        return int(str(1 + i % 9) * w)
    if typ == 'e':
        # positive, 2-digit exponent: exactly w columns when w == d + 6
        digits = ''.join(str((i + k) % 9 + 1) for k in range(d + 1))
        return float('%s.%se-%02d' % (digits[0], digits[1:], 10 + i))
    if typ == 'f':
        nint = max(1, w - d - 1)
        digits = ''.join(str((i + k) % 9 + 1) for k in range(nint + d))
        return float(digits[:nint] + '.' + digits[nint:])
    raise HarnessError('unknown type ' + f)


MANTISSAS = [1.0, 1.5, 9.99999999999999, 1.2345678901234567, 5.5, 1.00005, 1.0005, 1.005]
EXPS_QUICK = [-120, -101, -100, -99, -38, -10, -9, -5, -1, 0, 1, 2, 5, 8, 9, 10, 38, 99, 100, 101, 120]


def real_values(tier):
    exps = EXPS_QUICK if tier == 'quick' else range(-120, 121)
    for sgn in (1, -1):
        yield sgn * 0.0
        for e in exps:
            for m in MANTISSAS:
                yield sgn * float('%.17ge%d' % (m, e))


def int_values(w):
    yield 0
    for k in range(1, w + 2):
        for v in (10 ** k - 1, 10 ** k):
            yield v
            yield -v
    yield 5; yield -5; yield 12


def name_values(w):
    for n in range(0, w + 1):
        yield 'abcdefghijklmnopqrstuvwxyz'[:n] if w <= 26 else ('Q' * n)
    if w >= 2:
        yield ' ' * (w - 1) + 'z'
        yield 'z' + ' ' * (w - 1)


def field_values(f, tier):
    w, d, typ, left = spec_of(f)
    if typ in 'efg': return real_values(tier)
    if typ == 'd': return int_values(w)
    if typ == 's': return name_values(w)
    return iter(())


def lattice(tier):
    def g():
        for tname, tab in sorted(tables().items()):
            for kind in sorted(tab):
                names, fmts = tab[kind]
                for i, f in enumerate(fmts):
                    yield {'k': 'one', 'table': tname, 'kind': kind, 'field': i, 'value': None}
                    for v in field_values(f, tier):
                        yield {'k': 'one', 'table': tname, 'kind': kind, 'field': i, 'value': v}
                        # the same value as the LAST one of a shorter list (trailing values left off, as the library
                        # itself does for incon, timestep and generation-table lines)
                        if i < len(fmts) - 1:
                            yield {'k': 'one', 'table': tname, 'kind': kind, 'field': i, 'value': v, 'short': True}
                        # the same number as a numpy scalar (what array-derived models hand to the writer), where it
                        # fills or overflows its columns
                        w_, d_, typ_, _l = spec_of(f)
                        if typ_ in 'efgd' and v is not None and len(('%%%s' % f) % v) >= w_:
                            for npt in (('float32', 'float64') if typ_ != 'd' else ('int64', 'int32')):
                                if npt == 'int32' and abs(v) >= 2 ** 31: continue
                                if npt == 'float32' and v != 0 and not (1e-37 < abs(v) < 3e38): continue
                                yield {'k': 'one', 'table': tname, 'kind': kind, 'field': i, 'value': v, 'np': npt}
    return g


@st.composite
def record_case(draw):
    tabs = tables()
    tname = draw(st.sampled_from(sorted(tabs)))
    kind = draw(st.sampled_from(sorted(tabs[tname])))
    names, fmts = tabs[tname][kind]
    vals = []
    for f in fmts:
        w, d, typ, left = spec_of(f)
        if typ == 'x' or draw(st.integers(0, 5)) == 0:
            vals.append(None); continue
        if typ in 'efg':
            if draw(st.booleans()):
                m = draw(st.sampled_from(MANTISSAS)); e = draw(st.integers(-120, 120))
                sgn = draw(st.sampled_from([1, -1]))
                vals.append(sgn * float('%.17ge%d' % (m, e)))
            else:
                vals.append(draw(st.floats(allow_nan=False, allow_infinity=False, width=64,
                                           min_value=-1e120, max_value=1e120)))
        elif typ == 'd':
            vals.append(draw(st.one_of(st.sampled_from(list(int_values(w))),
                                       st.integers(-10 ** (w + 1), 10 ** (w + 1)))))
        else:
            n = draw(st.integers(0, w))
            vals.append(draw(st.text(alphabet='abcXYZ 019_-', min_size=n, max_size=n)))
    c = {'k': 'rec', 'table': tname, 'kind': kind, 'values': vals}
    if draw(st.integers(0, 3)) == 0:
        # the record goes through plain fixed_format_file objects (the documented way to use a format table), one per
        # table and all alive at once, created in a drawn order
        c['base'] = draw(st.permutations(sorted(tabs)))
    if len(vals) > 1 and draw(st.integers(0, 3)) == 0: c['keep'] = draw(st.integers(1, len(vals) - 1))     # a shorter list
    return c


@st.composite
def file_case(draw):
    """several records written one after the other through ONE file object (write_values), then read back in
    order through another (read_values): the path real files take, and the place where anything a file object
    remembers between records would show"""
    first = draw(record_case())
    tabs = tables()
    recs = [{'kind': first['kind'], 'values': first['values'][:first.get('keep')]}]
    for _ in range(draw(st.integers(1, 5))):
        if draw(st.integers(0, 2)) == 0:
            r = dict(recs[draw(st.integers(0, len(recs) - 1))])          # the same record again
        else:
            for _try in range(20):
                c = draw(record_case())
                if c['table'] == first['table']: break
            if c['table'] != first['table']: c = first
            r = {'kind': c['kind'], 'values': c['values'][:c.get('keep')]}
        recs.append(r)
    return {'k': 'file', 'table': first['table'], 'recs': recs}


SPOT_EXCLUDE = ('const_timestep', 'dircos')      # decides how many records follow / an F-format field (range-limited)
SPOT_EXPS = [-120, -101, -100, -99, -98, -38, -10, -9, -1, 0, 1, 9, 10, 38, 98, 99, 100, 101, 120]


def spot_paths(m):
    """every real-valued place of a generated data model: (section, record index or None, key, list index or None)"""
    out = []

    def rec(sec, i, r):
        for k in sorted(r):
            v = r[k]
            if k in SPOT_EXCLUDE: continue
            if sec == 'param' and k == 'timestep' and not (r.get('const_timestep') or 0) < 0: continue     # not a table: const_timestep itself
            if isinstance(v, float): out.append((sec, i, k, None))
            elif isinstance(v, list) and v and all(isinstance(x, float) or x is None for x in v) and any(isinstance(x, float) for x in v):
                out.extend((sec, i, k, j) for j in range(len(v)))
    for sec in ('rocks', 'blocks', 'connections', 'generators', 'incon', 'indom'):
        for i, r in enumerate(m.get(sec) or []): rec(sec, i, r)
    for sec in ('param', 'rpcap', 'selec', 'times', 'lineq', 'solver'):
        if isinstance(m.get(sec), dict): rec(sec, None, m[sec])
    return out


@st.composite
def libfile_case(draw):
    """a generated data model (gens/data.py, every value fits) in which 1..3 real fields - anywhere: rock properties, block
    volumes, generator tables, time steps, primary variables ... - are replaced by lattice values (both signs, 2- and 3-digit
    exponents), or one inner primary variable by an absent value; written and read back by the library's own section
    writers and readers"""
    from gens import data
    m = draw(data.model())
    spots = []
    for _ in range(draw(st.integers(1, 3))):
        v = draw(st.sampled_from([1, -1])) * float('%.17ge%d' % (draw(st.sampled_from(MANTISSAS)), draw(st.sampled_from(SPOT_EXPS))))
        spots.append([draw(st.integers(0, 10 ** 6)), v])
    if draw(st.integers(0, 3)) == 0: spots.append([draw(st.integers(0, 10 ** 6)), None])
    return {'k': 'libfile', 'm': m, 'spots': spots}


def run_libfile(case, R):
    import copy
    from props import c01
    from gens import data
    m = copy.deepcopy(case['m'])
    paths = spot_paths(m)
    if not paths: R.label('libfile:no-real-field'); return
    wide = False
    for sel, v in case['spots']:
        if v is None:
            cand = [p for p in paths if p[2] in ('vars', 'default_incons') and p[3] is not None and p[3] % 4 != 3
                    and p[3] < len((m[p[0]][p[1]] if p[1] is not None else m[p[0]])[p[2]]) - 1]
            if not cand: continue
            sec, i, k, j = cand[sel % len(cand)]
            R.label('libfile:absent-inner-value')
        else:
            groups = sorted(set((p[0], p[2]) for p in paths))        # every (section, field) equally often
            grp = [p for p in paths if (p[0], p[2]) == groups[sel % len(groups)]]
            sec, i, k, j = grp[(sel // len(groups)) % len(grp)]
            f = data.FMT.get(sec, {}).get(k, data.P4)
            xp = m['xp'] != 'off' and sec in data.XP_SECTIONS.values()
            w, d = (data.XPFMT if xp else f)[-2:]
            n = len('%.*e' % (d, v))
            if n > w: wide = True; R.label('libfile:overwide:%s.%s' % (sec, k))
            elif n == w: R.label('libfile:at-width')
        r = m[sec][i] if i is not None else m[sec]
        if j is None: r[k] = v
        else: r[k][j] = v
    R.label('libfile:' + ('some-value-too-wide' if wide else 'all-fit'))
    sub_case = {'k': 'gen', 'm': m, 'legs': 2, 'history': False}
    before = len(R.findings)
    try:
        c01.run_case(sub_case, R)
    finally:
        R.is_nontrivial = wide or any(v is None for _s, v in case['spots'])
    # "fails loudly" is acceptable only when something really did not fit
    for n, (sig, d) in enumerate(R.findings[before:]):
        if sig.startswith('exc:write:') and ('ValueError' in sig or 'OverflowError' in sig) and wide:
            R.findings.pop(before + n); R.label('libfile:write-raised'); break
    R.findings[before:] = [('libfile:' + sg, d) for sg, d in R.findings[before:]]


WRITER_CASES = [{'k': 'writer', 'what': w, 'v': v} for w, v in (
    ('incon-nseq', 100000), ('incon-nseq', -10000), ('incon-nadd', 123456), ('incon-kcyc', 100000), ('incon-iter', 999999),
    ('geo-node-x', 1e10), ('geo-node-x', -1e9), ('geo-layer-bottom', -1e9), ('geo-surface', 1e10), ('geo-well-z', -1e9))]


def run_writer(case, R):
    """a value that cannot be represented in its columns, handed to the library's own file writers (t2incon.write,
    mulgrid.write): the write fails loudly - or, if it returns, the file holds everything that was to be written"""
    import numpy as np
    import t2incons, mulgrids
    what, v = case['what'], case['v']
    R.label('writer:' + what); R.nontrivial()
    path = os.path.join(R.tmp, 'w.dat')
    if what.startswith('incon'):
        inc = t2incons.t2incon()
        for i in range(4):
            inc['  a%2d' % (i + 1)] = t2incons.t2blockincon([1.0e5 + i, 20.0], '  a%2d' % (i + 1))
        if what == 'incon-nseq': inc['  a 2'].nseq, inc['  a 2'].nadd = v, 1
        elif what == 'incon-nadd': inc['  a 2'].nseq, inc['  a 2'].nadd = 1, v
        else:
            inc.timing = {'kcyc': 1, 'iter': 2, 'nm': 3, 'tstart': 0.0, 'sumtim': 1.0e6}
            inc.timing[what.split('-')[1]] = v
        try:
            inc.write(path, reset=False)
        except (ValueError, OverflowError):
            R.label('writer:refused-loudly'); return
        with R.lib('read-back'):
            back = t2incons.t2incon(path)
        R.check(list(back.blocklist) == list(inc.blocklist) and (back.timing is not None) == (inc.timing is not None), 'writer:silent-truncation',
                't2incon.write() returned although %s = %r cannot be written; the file holds blocks %r, timing %r' % (what, v, list(back.blocklist), back.timing))
        return
    g = mulgrids.mulgrid().rectangular([10.] * 3, [10.] * 2, [5.] * 3, atmos_type=0)
    g.add_well(mulgrids.well('W   1', [np.array([5., 5., 0.]), np.array([5., 5., -12.])]))
    if what == 'geo-node-x': g.nodelist[3].pos = np.array([float(v), float(g.nodelist[3].pos[1])])
    elif what == 'geo-layer-bottom': g.layerlist[-1].bottom = float(v)
    elif what == 'geo-surface': g.columnlist[1].surface = float(v)
    else: g.welllist[0].pos[-1] = np.array([5., 5., float(v)])
    try:
        g.write(path)
    except (ValueError, OverflowError):
        R.label('writer:refused-loudly'); return
    txt = open(path).read()
    have = [k for k in ('VERTI', 'GRID', 'CONNE', 'LAYER', 'SURFA', 'WELLS') if ('\n' + k) in ('\n' + txt)]
    R.check(len(have) == 6 and txt.rstrip('\n').endswith(''), 'writer:silent-truncation',
            'mulgrid.write() returned although %s = %r cannot be written; the file has the sections %r' % (what, v, have))
    R.check(have == ['VERTI', 'GRID', 'CONNE', 'LAYER', 'SURFA', 'WELLS'], 'writer:silent-truncation', 'sections %r' % have)


def searches(tier):
    q = tier == 'quick'
    return [Search('lattice', 'enum', lattice(tier), shards=16),
            Search('whole_records', 'hyp', record_case, n=6000 if q else 200000, shards=4 if q else 16),
            Search('record_sequences_through_a_file', 'hyp', file_case, n=1500 if q else 40000, shards=4 if q else 16),
            Search('unwritable_values_through_the_object_writers', 'enum', lambda: list(WRITER_CASES), shards=2),
            Search('library_written_files', 'hyp', libfile_case, n=3200 if q else 40000, shards=8 if q else 16)]


def expected_real_forms(v, w, d, typ):
    """All values a field may legitimately parse to: full precision if it fits,
    else v rounded to fewer digits (but still this value, not a neighbour's)."""
    full = ('%%%d.%d%s' % (w, d, typ)) % v
    if len(full) <= w:
        return [float(full)], True
    out = []
    for k in range(d, -1, -1):
        s = ('%%.%d%s' % (k, typ)) % v
        if len(s) <= w: out.append(float(s))
    return out, False


def judge_field(R, p, tname, kind, i, f, v, parsed, is_target):
    """Compare one parsed field against what was written."""
    w, d, typ, left = spec_of(f)
    where = '%s/%s[%d] %s' % (tname, kind, i, f)
    role = 'target' if is_target else 'neighbour'
    if typ == 'x' or v is None:
        ok = parsed is None or (isinstance(parsed, str) and parsed.strip() == '')
        R.check(ok, '%s:%s:blank-not-blank' % (role, typ),
                '%s: wrote nothing, parsed %r' % (where, parsed))
        return
    if typ == 's':
        exp = ('%%%s' % f) % v
        R.check(parsed == exp, '%s:s:changed' % role, '%s: wrote %r parsed %r' % (where, v, parsed))
    elif typ == 'd':
        R.check(type(parsed) is int and parsed == v, '%s:d:changed' % role,
                '%s: wrote %r parsed %r' % (where, v, parsed))
    else:
        forms, fits = expected_real_forms(v, w, d, typ)
        ok = isinstance(parsed, float) and any(parsed == x for x in forms)
        R.check(ok, '%s:%s:%s' % (role, typ, 'changed' if fits else 'misrepresented'),
                '%s: wrote %r parsed %r (acceptable: %r)' % (where, v, parsed, forms[:3]))


def new_parser(table, path, mode):
    import fixed_format_file as fff, t2data, t2incons, mulgrids
    if table == 't2data': return t2data.t2data_parser(path, mode)
    if table == 't2data_xp': return t2data.t2_extra_precision_data_parser(path, mode)
    if table == 't2incon': return t2incons.t2incon_parser(path, mode)
    return fff.fixed_format_file(path, mode, mulgrids.mulgrid_format_specification, mulgrids.mulgrid().read_function)


def fits_all(fmts, vals):
    return all(v is None or spec_of(f)[2] == 'x' or len(('%%%s' % f) % v) <= spec_of(f)[0] for f, v in zip(fmts, vals))


def run_file(case, R):
    tname = case['table']
    path = os.path.join(R.tmp, 'records.dat')
    tab = tables()[tname]
    w = new_parser(tname, path, 'w')
    written = []
    R.label('file:records:%d' % len(case['recs']))
    nontriv = False
    try:
        for rec in case['recs']:
            names, fmts = tab[rec['kind']]
            vals = list(rec['values'])
            if not fits_all(fmts, vals): nontriv = True
            try:
                w.write_values(vals, rec['kind'])
            except (ValueError, OverflowError) as e:
                R.label('write-raised')
                R.check(not fits_all(fmts, vals), 'write:raised-on-fitting-values', '%s/%s %r raised %r (record %d of a file)' % (
                    tname, rec['kind'], vals, e, len(written) + 1))
                break
            written.append((rec['kind'], fmts, vals))
    finally:
        w.close()
    R.nontrivial(nontriv and len(written) > 1)
    lines = open(path).read().split('\n')
    if not R.check(len(lines) == len(written) + 1 and lines[-1] == '', 'file:line-count',
                   '%d records written, file has %d lines' % (len(written), len(lines) - 1)): return
    r = new_parser(tname, path, 'r')
    try:
        for n, ((kind, fmts, vals), line) in enumerate(zip(written, lines)):
            total = sum(spec_of(f)[0] for f in fmts)
            parsed = r.read_values(kind)
            from vlib.core import Res
            sub = Res()
            sub.check(len(line) <= total, 'record:too-long', '%s/%s: record %d of the file is %d columns, format has %d: %r' % (
                tname, kind, n + 1, len(line), total, line))
            if len(parsed) != len(fmts):
                R.fail('parse:wrong-field-count', '%s/%s' % (tname, kind)); return
            for j, f in enumerate(fmts):
                judge_field(sub, r, tname, kind, j, f, vals[j] if j < len(vals) else None, parsed[j], True)
            if sub.findings:
                wide = [spec_of(f)[2] for f, v in zip(fmts, vals)
                        if v is not None and spec_of(f)[2] != 'x' and len(('%%%s' % f) % v) > spec_of(f)[0]]
                sig, d = sub.findings[0]
                R.fail(('file:spill:' + wide[0]) if wide else 'file:' + sig,
                       'record %d of %d written through one file object: %s; line %r' % (n + 1, len(written), d, line))
                return
    finally:
        r.close()


def run_case(case, R):
    if case['k'] == 'file': return run_file(case, R)
    if case['k'] == 'libfile': return run_libfile(case, R)
    if case['k'] == 'writer': return run_writer(case, R)
    tname, kind = case['table'], case['kind']
    p = parser(tname)
    if case.get('base'):
        import fixed_format_file as fff, mulgrids
        R.label('plain-fixed_format_file-objects:first-' + case['base'][0])
        rf = {'t2incon': fff.fortran_read_function, 'mulgrid': mulgrids.mulgrid().read_function}
        live = dict((t, fff.fixed_format_file(os.devnull, 'w', tables()[t], rf.get(t, fff.default_read_function))) for t in case['base'])
        p = live[tname]
    names, fmts = tables()[tname][kind]
    if case['k'] == 'one':
        i = case['field']
        vals = [sentinel(j, f) for j, f in enumerate(fmts)]
        vals[i] = case['value']
        targets = {i}
    else:
        vals = list(case['values'])
        targets = set(range(len(vals)))
    total = sum(spec_of(f)[0] for f in fmts)
    given = None
    if case.get('np'):
        import numpy as np
        R.label('numpy:' + case['np'])
        given = list(vals)
        i = case['field']
        given[i] = getattr(np, case['np'])(vals[i])
        vals[i] = float(given[i]) if case['np'].startswith('float') else int(given[i])      # the number that was handed over
    keep = (case['field'] + 1) if case.get('short') else case.get('keep')
    if keep is not None:
        R.label('short-list')
        vals = vals[:keep]
        targets = set(t for t in targets if t < keep)
    # classification
    for i in targets:
        f, v = fmts[i], vals[i]
        w, d, typ, left = spec_of(f)
        R.label('type:' + typ)
        if v is None:
            R.label('none')
            if case['k'] == 'one' and typ != 'x' and 0 < i < len(fmts) - 1: R.nontrivial()
        elif typ != 'x':
            n = len(('%%%s' % f) % v)
            if n > w: R.label('overwide:' + typ); R.nontrivial()
            elif n >= w - 1: R.label('at-width:' + typ); R.nontrivial()
            if typ in 'ef' and v != 0 and (abs(v) >= 1e100 or abs(v) < 1e-99): R.label('3-digit-exponent')
    try:
        s = p.write_values_to_string(given if given is not None else vals, kind)
    except (ValueError, OverflowError) as e:
        # "fails loudly": acceptable only if something really did not fit
        fit = all(v is None or spec_of(f)[2] == 'x' or len(('%%%s' % f) % v) <= spec_of(f)[0]
                  for f, v in zip(fmts, vals))
        R.label('write-raised')
        R.check(not fit, 'write:raised-on-fitting-values', '%s/%s %r raised %r' % (tname, kind, vals, e))
        return
    parsed = p.parse_string(s.ljust(total), kind)
    if len(parsed) != len(fmts):
        R.fail('parse:wrong-field-count', '%s/%s' % (tname, kind)); return
    from vlib.core import Res
    sub = Res()
    sub.check(len(s) <= total, 'record:too-long',
              '%s/%s: record is %d columns, format has %d: %r' % (tname, kind, len(s), total, s))
    for j, f in enumerate(fmts):
        judge_field(sub, p, tname, kind, j, f, vals[j] if j < len(vals) else None, parsed[j], j in targets)
    if not sub.findings: return
    # root-cause bucketing: (a) a format whose declared width is not positive is mis-sliced by the
    # parser whatever is written; (b) a value wider than its columns written without a guard;
    # (c) anything else is reported field by field.
    neg = [1 for (i1, i2), _t in p.line_spec[kind] if i2 < i1]   # mis-sliced (negative-width) fields
    wide = [spec_of(f)[2] for f, v in zip(fmts, vals)
            if v is not None and spec_of(f)[2] != 'x' and len(('%%%s' % f) % v) > spec_of(f)[0]]
    if neg and not wide:
        R.fail('left-justified-format:%s/%s' % (tname, kind), sub.findings[0][1])
    elif wide:
        R.fail('spill:' + wide[0], '%d fields wrong, first: %s; record %r' % (
            len(sub.findings), sub.findings[0][1], s))
    else:
        for sig, d in sub.findings: R.fail(sig, d)


LEVEL_TEXT = ('Complete enumeration of a stated value lattice over every field of every record kind in the four live '
              'format tables (exhaustive for that lattice: exponents -120..120 in thorough, 21 boundary exponents in quick), '
              'plus Hypothesis whole-record generation. Oracle: per-field parse-back with sentinel neighbours. '
              'Also: generated data models with boundary / absent values written and read back by the library\'s own file writers and readers, and unwritable values handed to t2incon.write / mulgrid.write (loud failure or complete file). '
              'Refutes only; the lattice is finite, the reals are not.')
LEVEL_NOTE = ('Trusted: Python % formatting as the definition of "the printed digits"; the format tables are read from the '
              'live modules, so a new field is picked up automatically.')
TECHNIQUE = 'exhaustive lattice enumeration + property-based whole-record generation (Hypothesis), write/parse round-trip oracle with sentinel neighbours'
