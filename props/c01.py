"""C01 - TOUGH2 data file write/read round trip preserves the whole model."""
import os
from hypothesis import strategies as st
from vlib.core import Search, HarnessError
from vlib import core
from vlib.hygiene import eof_guard
from gens import data
from refs import t2_ref
from refs.incon_ref import a3i2_print, quirk_repair

ID = 'C01'
CASE_TIMEOUT = 300
RULE = ('generated data models (gens/data.py): both flavours; any subset of the 23 section kinds (PARAM, ELEME, CONNE are '
        'always written by the library) in canonical or a drawn legal order; 0..4 rock types with 0/1/2 extra lines and 1..7 '
        'RP/CP parameters; parameters with every optional field None or set, 24 MOP digits, constant or table time steps on '
        'both sides of 8 per line, 0..12 default initial conditions; RPCAP, LINEQ/SOLVR, MULTI, TIMES (1..17 times), SELEC, '
        'DIFFU, MOMOP, START, NOVER; 0..10 blocks with/without centres and nseq/nadd, connections with nad, MESHMAKER '
        '(RZ2D/XYZ/MINC with list lengths 1,7,8,9,16), generators of every type with 2..12-entry tables with/without '
        'enthalpy and DELV, SHORT / FOFT / COFT / GOFT, INCON, INDOM; mesh in file / MESH file / MESHA+MESHB; extra precision '
        'off / on / echoed for all or some eligible sections.  Legs: (1) build, write, independent read of the written files '
        '== model carried through the formats; (2) library re-read == independent read; (3) write-again stability chain; '
        '(4) independent Fortran-style writer (E / D / lower-case exponents, requested section order) -> library read == '
        'independent read, order preserved on rewrite; shipped: the data files under tests/data and tests/grid. '
        'Non-trivial = at least 3 optional sections and one non-empty list section; distinct = model JSON.'
        ' Since the seeded rounds: enthalpy tables of zeros; leg 5 = on half of the TOUGH2 models read from the independently written (permuted-order) file the simulator is set, the model written and re-read, and compared with the model as it was.'
        ' Rounds 7-10: time-step tables with unused announced records; rock names that read like an index / number / keyword; blank k2 / k3; inner absent primary variables; simulator strings not beginning with AUTOUGH2; generator NSEQ/NADD/NADS = 0 kept; the re-read grid must satisfy the structural invariant of C08; half of the models are written twice under the same names.')
ASSUMPTIONS = ['names are generated at full field width (5 characters); rock names are unique, block names are unique after the '
               '(A3,I2) repair; history/short items refer to existing blocks, connections and generators',
               'reals in D-exponent or dropped-letter style are read with read_function=fortran_read_function, as the user guide prescribes',
               'the module-level list t2data.t2_extra_precision_sections is restored after every case (it is aliased by '
               'set_extra_precision(True)); a change is counted, not judged']


def canon_name(n):
    return quirk_repair(a3i2_print(n)) if isinstance(n, str) and len(n) == 5 else n


def case_strategy():
    return data.model().map(lambda m: {'k': 'gen', 'm': m})


def shipped():
    base = os.path.join(core.REPO, 'tests')
    items = [('data/AUTOUGH2/1/case1.dat', None), ('data/AUTOUGH2/2/case2.dat', None), ('data/AUTOUGH2/3/a1.dat', None),
             ('data/TOUGH2/1/r1q', 'data/TOUGH2/1/MESH'), ('data/TOUGH2-MP/1/rfp_nomesh', ['data/TOUGH2-MP/1/MESHA', 'data/TOUGH2-MP/1/MESHB']),
             ('data/TOUGH2/2/eos7c.dat', None), ('grid/minc/orig.dat', None), ('grid/minc/minc1.dat', None), ('grid/minc/minc2.dat', None),
             ('grid/minc/minc3.dat', None), ('grid/rectgeo/data.dat', None)]
    return [{'k': 'shipped', 'file': f, 'mesh': mf} for f, mf in items]


def searches(tier):
    q = tier == 'quick'
    big = ('data/AUTOUGH2/1/case1.dat', 'data/AUTOUGH2/2/case2.dat', 'data/AUTOUGH2/3/a1.dat')
    return [Search('shipped', 'enum', lambda: [c for c in shipped() if not (q and c['file'] in big)], shards=8),
            Search('generated', 'hyp', case_strategy, n=5000 if q else 60000, shards=8 if q else 16)]


def read_bytes(p):
    with open(p, 'rb') as fh: return fh.read()


def strip_trailing(b):
    return b'\n'.join(l.rstrip() for l in b.split(b'\n'))


def ref_read_all(path, meshpath, xp_secs, au):
    """independent read of main file (+ MESH text file, + pdat companion)"""
    r = data.with_defaults(t2_ref.read(path, autough2=au))
    if isinstance(meshpath, str) and os.path.exists(meshpath):
        mr = t2_ref.read_mesh_file(meshpath)
        r['blocks'], r['connections'] = mr['blocks'], mr['connections']
    pd = os.path.splitext(path)[0] + ('.PDAT' if os.path.basename(path)[0].isupper() else '.pdat')
    if xp_secs and os.path.exists(pd):
        x = t2_ref.read(pd, autough2=au, layouts=t2_ref.XP, no_title=True, gen_width=15)
        for kw, key in data.XP_SECTIONS.items():
            if kw in xp_secs and key in x:
                r[key] = x[key]
                r.setdefault('xp_read', []).append(kw)
    return r


def file_form(m):
    """the model with its block names as a simulator prints them ((A3,I2)), for the independent writer"""
    fm = dict(m)
    for key in ('blocks', 'connections', 'generators', 'incon'):
        if key in fm:
            fm[key] = [dict(r) for r in fm[key]]
            for r in fm[key]:
                for nk in ('name', 'block', 'block1', 'block2'):
                    if nk in r: r[nk] = a3i2_print(r[nk])
    for key in ('foft', 'goft'):
        if key in fm: fm[key] = [a3i2_print(n) for n in fm[key]]
    if 'coft' in fm: fm['coft'] = [[a3i2_print(a), a3i2_print(b)] for a, b in fm['coft']]
    if 'short' in fm:
        sh = dict(fm['short'])
        if 'block' in sh: sh['block'] = [a3i2_print(n) for n in sh['block']]
        for k in ('connection', 'generator'):
            if k in sh: sh[k] = [[a3i2_print(a), a3i2_print(b)] for a, b in sh[k]]
        fm['short'] = sh
    return fm


def run_gen(case, R):
    import t2data, fixed_format_file as fff
    m = case['m']
    au = bool(m.get('simulator'))
    secs = m['sections']
    R.label('flavour:' + ('AUTOUGH2' if au else 'TOUGH2'), 'mesh:' + m['mesh_mode'], 'xp:' + m['xp'], 'order:' + m['order'])
    for k in secs: R.label('sec:' + k)
    for g in m.get('generators', []):
        if g['time']: R.label('gentable:%d%s' % (len(g['time']), 'E' if g['enthalpy'] else ''))
    R.label('incons:%d' % len(m['param']['default_incons']))
    if any(v is None for v in m['param']['default_incons']) or any(v is None for r in (m.get('incon') or []) + (m.get('indom') or []) for v in r['vars']):
        R.label('absent-value-inside-a-primary-variable-record')
    _dt = m['param'].get('const_timestep') or 0
    if _dt < 0: R.label('timestep-table:%s' % ('last-record-partly-or-not-used' if len(m['param']['timestep']) <= 8 * (int(-_dt) - 1) else 'all-records-used'))
    opt = [k for k in secs if k not in ('PARAM', 'ELEME', 'CONNE', 'SIMUL')]
    R.nontrivial(len(opt) >= 3 and bool(m['blocks'] or m.get('generators') or m.get('rocks')))
    tmp = R.tmp
    f1 = os.path.join(tmp, 'model.dat')
    mesh1 = None
    if m['mesh_mode'] == 'meshfile': mesh1 = os.path.join(tmp, 'MESH')
    elif m['mesh_mode'] == 'binary': mesh1 = [os.path.join(tmp, 'MESHA'), os.path.join(tmp, 'MESHB')]
    xp_arg, echo = None, None
    xp_secs = []
    if m['xp'] != 'off':
        xp_arg = True if m['xp_sections'] == 'all' else list(m['xp_sections'])
        echo = (m['xp'] == 'echo')
        xp_secs = ['ROCKS', 'ELEME', 'CONNE', 'RPCAP', 'GENER'] if xp_arg is True else list(xp_arg)
    namemap = canon_name
    # ------------------------------------------------------------------ leg 1: build, write, independent read
    with R.lib('build'):
        if case.get('history', len(m['title']) % 3 == 0) and (len(m['blocks']) > 1 or len(m.get('rocks', [])) > 1):
            # the same model reached through an editing history: blocks and connections added in the reverse order and
            # then put in order with reorder(); the first rock type renamed away and back.  What the object holds (lists,
            # names, values) is what m says; only the order in which things were inserted into its lookups differs.
            R.label('model:built-through-an-editing-history')
            m2 = dict(m); m2['blocks'] = m['blocks'][::-1]; m2['connections'] = m['connections'][::-1]
            x = data.build(m2)
            cn = [(c['block1'], c['block2']) for c in m['connections']]
            x.grid.reorder([b['name'] for b in m['blocks']], cn if cn else None)
            if len(x.grid.rocktypelist) > 1:
                r0 = x.grid.rocktypelist[0].name
                tmpname = next(n for n in ('zzzzz', 'zzzzy', 'zzzzx') if n not in x.grid.rocktype)
                x.grid.rename_rocktype(r0, tmpname); x.grid.rename_rocktype(tmpname, r0)
        else:
            x = data.build(m)
    with R.lib('write'):
        x.write(f1, meshfilename=(mesh1 or ''), extra_precision=xp_arg, echo_extra_precision=echo)
        if case.get('twice', len(m['title']) % 2 == 1):
            # the same model written again under the same names: the files are simply written anew
            R.label('written-twice-to-the-same-files')
            x.write(f1, meshfilename=(mesh1 or ''), extra_precision=xp_arg, echo_extra_precision=echo)
    written_xp = [k for k in xp_secs if k in secs]
    in_main_xp = written_xp if not echo else []
    exp = data.through_format(m, xp_sections=[data.XP_SECTIONS[k] for k in written_xp])
    try:
        r1 = ref_read_all(f1, mesh1, written_xp, au)
    except Exception as e:
        R.fail('written-file:unreadable', 'independent reader cannot parse the written file: %r' % (e,)); return
    skip = ()
    if m['mesh_mode'] == 'binary': skip = ('blocks', 'connections')
    unfix = lambda n: a3i2_print(n) if isinstance(n, str) and len(n) == 5 else n
    data.compare(R, 'written', r1, exp, name_map=unfix, skip=skip)
    canon_secs = [k for k in t2_ref.KEYWORDS if k in secs]       # a model built from scratch is written in the library's canonical order
    main_expected = [k for k in canon_secs if not (m['mesh_mode'] != 'infile' and k in ('ELEME', 'CONNE')) and k not in in_main_xp]
    R.check(r1['sections'] == main_expected, 'written:section-order', 'main file has %r, expected %r' % (r1['sections'], main_expected))
    # ------------------------------------------------------------------ leg 2: library re-read
    with R.lib('read'):
        x2 = t2data.t2data(f1, meshfilename=(mesh1 or ''))
    # what was read is a usable model, not only equal lists: lookups, ordered lists and the per-block connection records
    # of the grid agree with each other (the structural clauses of C08, for a grid obtained by reading)
    from props import c08
    c08.invariant(R, x2.grid, 'reread:grid')
    gl = [(g.block, g.name) for g in x2.generatorlist]
    R.check(set(x2.generator.keys()) == set(gl) and all(x2.generator[(g.block, g.name)] is g for g in x2.generatorlist) or len(set(gl)) != len(gl),
            'reread:generator-lookup-vs-list', 'lookup keys %r, list %r' % (sorted(x2.generator.keys())[:4], gl[:4]))
    e2 = data.extract(x2)
    exp2 = data.through_format(m, xp_sections=[data.XP_SECTIONS[k] for k in written_xp])
    if m['mesh_mode'] == 'binary' and 'ELEME' not in written_xp:
        for b in exp2['blocks']:
            for k in ('volume', 'x', 'y', 'z'): b[k] = next(bb[k] for bb in m['blocks'] if bb['name'] == b['name'])
            b['ahtx'] = next(bb['ahtx'] for bb in m['blocks'] if bb['name'] == b['name']) or 0.0
            b['pmx'] = next(bb['pmx'] for bb in m['blocks'] if bb['name'] == b['name']) or 0.0
            b['nseq'] = b['nadd'] = None
        for c, c0 in zip(exp2['connections'], m['connections']):
            for k in ('distance1', 'distance2', 'area', 'dircos'): c[k] = c0[k]
            c['sigma'] = c0['sigma'] or 0.0
            c['nseq'] = c['nad1'] = c['nad2'] = None
    data.compare(R, 'reread', e2, exp2, name_map=namemap)
    if m['mesh_mode'] == 'infile':
        exp_secs = [k for k in canon_secs if k not in in_main_xp]     # sections held only in the companion file are not listed
        R.check(e2['sections'] == exp_secs, 'reread:section-order', 'sections %r expected %r' % (e2['sections'], exp_secs))
    if case.get('legs') == 2: return        # C02's boundary-value files: judged up to here
    # ------------------------------------------------------------------ leg 3: stability chain
    f2, f3 = os.path.join(tmp, 'two', 'model.dat'), os.path.join(tmp, 'three', 'model.dat')
    os.makedirs(os.path.dirname(f2)); os.makedirs(os.path.dirname(f3))

    def meshfor(f):
        if mesh1 is None: return ''
        d = os.path.dirname(f)
        return os.path.join(d, 'MESH') if isinstance(mesh1, str) else [os.path.join(d, 'MESHA'), os.path.join(d, 'MESHB')]
    with R.lib('rewrite'):
        x2.write(f2, meshfilename=meshfor(f2))
    with R.lib('reread2'):
        x3 = t2data.t2data(f2, meshfilename=meshfor(f2))
    with R.lib('rewrite2'):
        x3.write(f3, meshfilename=meshfor(f3))

    def files(f):
        out = [f]
        mf = meshfor(f)
        if isinstance(mf, str) and mf: out.append(mf)
        elif mf: out += list(mf)
        pd = os.path.splitext(f)[0] + '.pdat'
        out.append(pd)
        return out
    for a, b, c in zip(files(f1), files(f2), files(f3)):
        ea, eb, ec = os.path.exists(a), os.path.exists(b), os.path.exists(c)
        base = os.path.basename(a)
        if not R.check(ea == eb == ec, 'stability:file-set', '%s exists: %r %r %r' % (base, ea, eb, ec)) or not ea: continue
        ba, bb, bc = read_bytes(a), read_bytes(b), read_bytes(c)
        if base in ('MESHA', 'MESHB'):
            R.check(bb == bc, 'stability:binary-mesh', '%s differs between the second and third write' % base)
            continue
        if m['xp'] == 'echo' and base == 'model.dat':
            # the echoed copy in the main file is re-derived from the companion file's differently rounded value
            # (double rounding is inherent to echoing): only the later cycles are required to be stable
            R.exclude('stability:first-rewrite-of-echoed-main-file')
            # ... but the rewritten main file must still echo the same sections in the same order
            try:
                s1, s2 = t2_ref.read(a, autough2=au)['sections'], t2_ref.read(b, autough2=au)['sections']
                R.check(s1 == s2, 'stability:echoed-sections-changed', 'main file sections %r, after read and rewrite %r' % (s1, s2))
            except Exception as e:
                R.fail('stability:rewritten-file-unreadable', repr(e))
        elif strip_trailing(ba) != strip_trailing(bb):
            la, lb = strip_trailing(ba).split(b'\n'), strip_trailing(bb).split(b'\n')
            i = next((i for i, (p, q) in enumerate(zip(la, lb)) if p != q), min(len(la), len(lb)))
            R.fail('stability:first-rewrite', '%s line %d: %r vs %r' % (base, i + 1, la[i:i + 1], lb[i:i + 1]))
        if bb != bc:
            lb, lc = bb.split(b'\n'), bc.split(b'\n')
            i = next((i for i, (p, q) in enumerate(zip(lb, lc)) if p != q), min(len(lb), len(lc)))
            R.fail('stability:second-rewrite', '%s line %d: %r vs %r' % (base, i + 1, lb[i:i + 1], lc[i:i + 1]))
    # ------------------------------------------------------------------ leg 4: independent Fortran-style writer
    if m['mesh_mode'] == 'infile' and m['xp'] == 'off':
        style = case.get('style') or ('E', 'D', 'e')[len(m['title']) % 3]
        R.label('fortran-style:' + style)
        f4 = os.path.join(tmp, 'four.dat')
        fm = file_form(m)
        t2_ref.write(f4, fm, style=style, au=au)
        r4 = data.with_defaults(t2_ref.read(f4, autough2=au))
        import re
        txt = open(f4).read()
        needs_fortran_reader = style != 'e' or re.search(r'[0-9.][+-][0-9]{3}', txt) is not None
        R.label('fortran-reader:%s' % ('fortran_read_function' if needs_fortran_reader else 'default'))
        with R.lib('read-fortran'):
            x4 = t2data.t2data(f4, read_function=fff.fortran_read_function) if needs_fortran_reader else t2data.t2data(f4)
        data.compare(R, 'fortranread', data.extract(x4), r4, name_map=lambda n: quirk_repair(n) if isinstance(n, str) and len(n) == 5 else n)
        R.check(list(x4._sections) == secs, 'fortranread:section-order', 'sections %r expected %r' % (list(x4._sections), secs))
        f5 = os.path.join(tmp, 'five.dat')
        with R.lib('rewrite-fortran'):
            x4.write(f5)
        r5 = t2_ref.read(f5, autough2=au)
        R.check(r5['sections'] == secs, 'rewrite:section-order', 'rewritten file has %r, expected %r' % (r5['sections'], secs))
        # -------------------------------------------------------------- leg 5: a section added to a model that was read
        # from a file with its sections in another (legal) order: the model, as it then is, must round-trip too.
        # The added section is SIMUL (the one whose position decides how PARAM is laid out); TOUGH2-flavoured models only.
        if not au and 'PARAM' in secs and case.get('add_simul', len(m['title']) % 2 == 0):
            R.label('leg5:simulator-added-after-read')
            e4 = data.extract(x4)
            with R.lib('set-simulator'):
                x4.simulator = 'AUTOUGH2.2'
            e4['simulator'] = 'AUTOUGH2.2'
            f6 = os.path.join(tmp, 'six.dat')
            with R.lib('write-with-simulator'):
                x4.write(f6)
            with R.lib('read-with-simulator'):
                x6 = t2data.t2data(f6, read_function=fff.fortran_read_function) if needs_fortran_reader else t2data.t2data(f6)
            e6 = data.extract(x6)
            for e in (e4, e6):
                if e.get('multi'): e['multi'] = dict(e['multi']); e['multi'].pop('num_inc', None)    # not a field of the AUTOUGH2 MULTI record
            data.compare(R, 'simulator-added', e6, e4)
            R.check(e6['sections'][:1] == ['SIMUL'] and [k for k in e6['sections'] if k != 'SIMUL'] == [k for k in e4['sections'] if k != 'SIMUL'],
                    'simulator-added:section-order', 'sections %r, before the simulator was set %r' % (e6['sections'], e4['sections']))


def run_shipped(case, R):
    import t2data
    R.label('shipped:' + case['file']); R.nontrivial()
    base = os.path.join(core.REPO, 'tests')
    path = os.path.join(base, case['file'])
    mesh = case['mesh']
    if isinstance(mesh, str): mesh = os.path.join(base, mesh)
    elif mesh: mesh = [os.path.join(base, p) for p in mesh]
    import fixed_format_file as fff
    # the shipped files were written by Fortran programs ('- 5.0', '1.10000D+6'): read as the user guide prescribes
    with R.lib('read-shipped'):
        x = t2data.t2data(path, meshfilename=(mesh or ''), read_function=fff.fortran_read_function)
    e = data.extract(x)
    au = bool(x.simulator)
    # independent read of the shipped file agrees with the library's
    r = data.with_defaults(t2_ref.read(path, autough2=au))
    if r.get('rocks'):
        # a rock type defined twice: the later definition replaces the earlier one in place (add_rocktype's documented behaviour)
        pos, out = {}, []
        for rk in r['rocks']:
            if rk['name'] in pos: out[pos[rk['name']]] = rk; R.label('shipped:duplicate-rock-definition')
            else: pos[rk['name']] = len(out); out.append(rk)
        r['rocks'] = out
    if isinstance(mesh, str):
        mr = t2_ref.read_mesh_file(mesh); r['blocks'], r['connections'] = mr['blocks'], mr['connections']
    pd = os.path.splitext(path)[0] + '.pdat'
    skip = ()
    if os.path.exists(pd) or (mesh and not isinstance(mesh, str)): skip = ('rocks', 'blocks', 'connections', 'generators') if os.path.exists(pd) else ('blocks', 'connections')
    data.compare(R, 'shipped', e, r, name_map=lambda n: quirk_repair(n) if isinstance(n, str) and len(n) == 5 else n, skip=skip)
    # write / read / write
    tmp = R.tmp
    f1, f2 = os.path.join(tmp, 'a', 'm.dat'), os.path.join(tmp, 'b', 'm.dat')
    os.makedirs(os.path.dirname(f1)); os.makedirs(os.path.dirname(f2))
    mf = lambda f: '' if not mesh else (os.path.join(os.path.dirname(f), 'MESH') if isinstance(mesh, str) else
                                         [os.path.join(os.path.dirname(f), 'MESHA'), os.path.join(os.path.dirname(f), 'MESHB')])
    with R.lib('write'): x.write(f1, meshfilename=mf(f1))
    with R.lib('read'): x2 = t2data.t2data(f1, meshfilename=mf(f1))
    e2 = data.extract(x2)
    exp = data.through_format(e, xp_sections=[data.XP_SECTIONS[k] for k in x.extra_precision if k in data.XP_SECTIONS])
    data.compare(R, 'shipped-roundtrip', e2, exp, name_map=canon_name,
                 skip=('blocks', 'connections') if (mesh and not isinstance(mesh, str)) else ())
    with R.lib('rewrite'): x2.write(f2, meshfilename=mf(f2))
    for name in sorted(os.listdir(os.path.dirname(f1))):
        a, b = os.path.join(os.path.dirname(f1), name), os.path.join(os.path.dirname(f2), name)
        if not R.check(os.path.exists(b), 'stability:file-set', '%s missing after rewrite' % name): continue
        ba, bb = read_bytes(a), read_bytes(b)
        if name in ('MESHA', 'MESHB'): R.check(ba == bb, 'stability:binary-mesh', name)
        else: R.check(strip_trailing(ba) == strip_trailing(bb), 'stability:first-rewrite', '%s differs after write/read/write' % name)


def run_case(case, R):
    import t2data
    saved = list(t2data.t2_extra_precision_sections)
    try:
        with eof_guard():
            if case['k'] == 'gen': run_gen(case, R)
            else: run_shipped(case, R)
    finally:
        if t2data.t2_extra_precision_sections != saved:
            R.label('module-global-changed:t2_extra_precision_sections')
            t2data.t2_extra_precision_sections[:] = saved


LEVEL_TEXT = ('Generated TOUGH2/AUTOUGH2 models (Hypothesis) through four oracle legs - independent read of the library-written '
              'files against the model carried through the formats, library re-read against the model, write/read/write '
              'stability chain (up to trailing blanks, then byte-identical), and an independent Fortran-style writer with drawn '
              'section order read by the library - plus the shipped data files. Refutes only.')
LEVEL_NOTE = ('Trusted: refs/t2_ref.py (own record layouts from the TOUGH2 input description; cross-checked by reading every '
              'shipped data file), gens/data.py extractor/builder (public attributes), refs/ffmt.py, refs/fnum.py.')
TECHNIQUE = 'property-based testing (Hypothesis): round trip + differential against an independent TOUGH2 data-file reader/writer + stability chain'
