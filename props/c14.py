"""C14 - IAPWS-97 water properties are thermodynamically consistent over their range."""
import math
from hypothesis import strategies as st
from vlib.core import Search, HarnessError, Refused
from refs import if97_ref as ref

ID = 'C14'

T0 = 273.15
TCRIT_C = 647.096 - 273.15          # 373.946 degC, the closed upper end of the saturation line
T13_C, T23_C, TMAX_C, TMIN_C = 350.0, 590.0, 800.0, 0.01
PMAX = 100.0e6
PMIN2 = 1e-6                         # lowest steam pressure generated (Pa)
DELTAS = (1e-9, 1e-6, 1e-3)

# ---- tolerances, each with the value measured on the unchanged tree (see calibrate()) ----------
TOL_DIFF = 1e-10        # (a) library vs refs/if97_ref, relative.  measured max: cowat d 7.6e-14, u 3.2e-13
                        #     (of |u|+RT); supst 9e-16; super p 5.0e-13, u 2.1e-13; visc 8.8e-14; sat 4e-16
TOL_DIFF_T = 1e-8       # (a) tsat / b23t vs reference, kelvin.  measured 3.9e-11 / 0
TOL_MAXWELL = 1e-7      # (b) |dh/dp - (v - T dv/dT)| / (|v| + T|dv/dT|) by Richardson central differences.
                        #     measured max on the calibration grids with the steps below: cowat 6.7e-11, supst 4.9e-11,
                        #     super 2.5e-10; over the 1.0M differentiated states of a thorough run every residual was
                        #     < 1e-9 (a step 4x larger gives 2e-8 in cowat: truncation, not the library)
TOL_INV_T = 1e-8        # (c) tsat(sat(t)) - t, b23t(b23p(t)) - t, kelvin.  measured 3.1e-11 / 1.63e-10
TOL_INV_P = 1e-10       # (c) sat(tsat(p))/p - 1, b23p(b23t(p))/p - 1.  measured 3.0e-13 / 1.0e-12
XB_V = 5e-4             # (f) IF97 consistency requirement at region boundaries: |dv|/v <= 0.05 %
XB_H = 200.0            #     |dh| <= 0.2 kJ/kg.  measured: 1/3 boundary 4.0e-5, 31 J/kg; 2/3 boundary 1.8e-4, 134 J/kg
# finite-difference steps
HP1, HT1 = 5.0e4, 0.1           # region 1: absolute steps (Pa, K)
HP2REL, HT2 = 1.0e-3, 0.1       # region 2: relative pressure step, K
HR3REL, HT3 = 1.0e-3, 0.2       # region 3: relative density step, K
MONO_REL = 1e-3                 # (d) relative pressure (density in region 3) increment

RULE = ('Cases are JSON states in the library\'s units (t degC, p Pa, d kg/m3). Kinds: r1 {t,p} liquid, r2 {t,p} steam, '
        'r3 {d,t} supercritical/near-critical (density obtained from a drawn (t,p) by the reference solver, outside the '
        'two-phase dome), sat {t} / tsat {p} on the closed saturation line 0.01..373.946 degC, b23p {t} / b23t {p} on the '
        'closed 350..590 degC boundary, xb13 {p} / xb23 {t} pairs of states on the 350 degC and B23 boundaries, reg {t,p} '
        'classifier states. Each kind is explored by a dense tensor grid (enum, complete), by Hypothesis floats '
        '(uniform and log-uniform inside the region, plus states a relative 1e-9/1e-6/1e-3 either side of every region '
        'boundary and of the 100 MPa, 0.01 degC, 350 degC, critical, 590 degC and 800 degC limits), and by an explicit list of '
        'end points (triple-point and critical ends of the saturation line, both ends of B23, region corners). '
        'Non-trivial = the state is not one of the published IF97 verification states (Tables 5, 15, 33, 35, 36, B23 test '
        'value); distinct = distinct case JSON. Tolerances with their calibration (measured maxima on the unchanged tree): '
        'differential vs refs/if97_ref rel 1e-10 (measured <= 5e-13), temperatures 1e-8 K (measured <= 3.9e-11); Maxwell '
        'identity residual 1e-7 of |v|+T|dv/dT| (measured < 1e-9 over 1.0M states; the decade of every residual is a class label resid:*); inverses 1e-8 K / rel 1e-10 (measured 1.6e-10 K / 1e-12); '
        'boundary consistency 0.05 % in v and 0.2 kJ/kg in h (IF97 requirement; measured 0.018 % and 0.134 kJ/kg).'
        ' Rounds 7-9: steam down to 1e-6 Pa; states at and 1e-13..1e-4 either side of the two saturation states where a leading coefficient of the saturation quadratics vanishes.')
ASSUMPTIONS = [
    'refs/if97_ref.py is trusted after its self-test against the published IF97 tables 5, 15, 33, 35, 36, the B23 test '
    'value and the 2008 viscosity table (v, h, u, s, cp, w: the last three use the potential and second derivatives that '
    'the library never evaluates); a wrong digit mirrored in both coefficient copies is only visible to the '
    'coefficient-free oracles (b), (c), (d), (f)',
    'the single-potential identity is checked by Richardson-extrapolated central differences of the library\'s own outputs; '
    'states closer than one step to the hard limits t = 350 degC (cowat) and p = 100 MPa are not differentiated (label fd-skipped)',
    '"density rises with pressure" in region 3 is asserted where the reference compressibility makes the increment exceed '
    '1e-9 p, i.e. everywhere except at the critical point itself where dp/drho = 0 by definition (label mono-skipped)',
    'region 3 below the critical temperature is judged outside the two-phase dome only (liquid branch above, vapour branch '
    'below the IF97 saturation pressure)',
    'steam pressures are generated from 1e-6 Pa upwards (log-uniform part), where the high powers of the reduced pressure underflow; the region classifier is exercised for 0 < p <= 100 MPa',
    'a state within a relative 1e-9 of a region boundary may be classified to either side',
]


def lib():
    import IAPWS97
    return IAPWS97


# ------------------------------------------------------------------------------------------------
# reference-side geometry of the regions (degC / Pa)

def psat_c(t): return ref.psat(t + T0)


def pb23_c(t): return ref.b23p(t + T0)


def pmax2(t):
    """Upper pressure limit of region 2 at t degC."""
    if t <= T13_C: return psat_c(t)
    if t <= T23_C: return min(pb23_c(t), PMAX)
    return PMAX


def clamp(x, lo, hi): return lo if x < lo else hi if x > hi else x


def around(tb, lo, hi):
    """tb and the temperatures a relative 1e-9/1e-6/1e-3 (of the kelvin value) either side, inside [lo, hi]."""
    out = [tb]
    for d in DELTAS:
        for s in (-1, 1):
            x = (tb + T0) * (1 + s * d) - T0
            if lo <= x <= hi: out.append(x)
    return out


# ------------------------------------------------------------------------------------------------
# Hypothesis strategies

def frac():
    return st.one_of(st.floats(0.0, 1.0),
                     st.sampled_from([0.0, 1.0] + [d for d in DELTAS] + [1 - d for d in DELTAS]))


def temp(lo, hi, marks):
    pts = [x for m in marks for x in around(m, lo, hi) if lo <= x <= hi]
    return st.one_of(st.floats(lo, hi), st.floats(lo, hi), st.sampled_from(pts))


DELTA = st.sampled_from(DELTAS)


@st.composite
def r1_case(draw):
    t = draw(temp(TMIN_C, T13_C, [TMIN_C, T13_C, 100.0]))
    ps = psat_c(t)
    mode = draw(st.sampled_from(['lin', 'lin', 'log', 'sat+', 'p100-']))
    if mode == 'lin': p = ps + draw(frac()) * (PMAX - ps)
    elif mode == 'log': p = ps * (PMAX / ps) ** draw(frac())
    elif mode == 'sat+': p = ps * (1 + draw(DELTA))
    else: p = PMAX * (1 - draw(DELTA))
    return {'k': 'r1', 't': t, 'p': clamp(p, ps, PMAX)}


@st.composite
def r2_case(draw):
    t = draw(temp(TMIN_C, TMAX_C, [TMIN_C, T13_C, TCRIT_C, T23_C, TMAX_C]))
    pm = pmax2(t)
    mode = draw(st.sampled_from(['lin', 'log', 'log', 'edge-']))
    if mode == 'lin': p = PMIN2 + draw(frac()) * (pm - PMIN2)
    elif mode == 'log': p = PMIN2 * (pm / PMIN2) ** draw(frac())
    else: p = pm * (1 - draw(DELTA))
    return {'k': 'r2', 't': t, 'p': clamp(p, PMIN2, pm)}


def r3_density(t, p):
    """Reference density of the region-3 state (t degC, p Pa), or None (too close to the critical point)."""
    return ref.rho3(t + T0, p)


R3_FALLBACK = {'k': 'r3', 'd': 450.0, 't': 400.0}


@st.composite
def r3_case(draw):
    t = draw(temp(T13_C, T23_C, [T13_C, TCRIT_C, T23_C, 360.0]))
    pb = min(pb23_c(t), PMAX)
    mode = draw(st.sampled_from(['lin', 'lin', 'b23+', 'p100-', 'sat+', 'sat-', 'crit']))
    if mode in ('sat+', 'sat-') and t >= TCRIT_C: mode = 'crit'
    if mode == 'lin': p = pb + draw(frac()) * (PMAX - pb)
    elif mode == 'b23+': p = pb * (1 + draw(DELTA))
    elif mode == 'p100-': p = PMAX * (1 - draw(DELTA))
    elif mode == 'sat+': p = psat_c(t) * (1 + draw(DELTA))
    elif mode == 'sat-': p = psat_c(t) * (1 - draw(DELTA))
    else: p = 22.064e6 * (1 + draw(st.sampled_from([-1, 1])) * draw(DELTA))
    p = clamp(p, pb, PMAX)
    d = r3_density(t, p)
    if d is None: return dict(R3_FALLBACK)
    return {'k': 'r3', 'd': d, 't': t}


@st.composite
def line_case(draw):
    kind = draw(st.sampled_from(['sat', 'tsat', 'b23p', 'b23t']))
    if kind == 'sat':
        return {'k': 'sat', 't': draw(temp(TMIN_C, TCRIT_C, [TMIN_C, TCRIT_C, 373.946, T13_C]))}
    if kind == 'tsat':
        lo, hi = psat_c(TMIN_C), 22.064e6
        f = draw(frac())
        p = lo * (hi / lo) ** f if draw(st.booleans()) else lo + f * (hi - lo)
        return {'k': 'tsat', 'p': clamp(p, lo, hi)}
    if kind == 'b23p':
        return {'k': 'b23p', 't': draw(temp(T13_C, T23_C, [T13_C, T23_C]))}
    lo, hi = pb23_c(T13_C), PMAX
    return {'k': 'b23t', 'p': clamp(lo + draw(frac()) * (hi - lo), lo, hi)}


@st.composite
def xb_case(draw):
    if draw(st.booleans()):
        lo = psat_c(T13_C)
        return {'k': 'xb13', 'p': clamp(lo + draw(frac()) * (PMAX - lo), lo, PMAX)}
    return {'k': 'xb23', 't': draw(temp(T13_C, T23_C, [T13_C, TCRIT_C, T23_C]))}


@st.composite
def reg_case(draw):
    mode = draw(st.sampled_from(['any', 'any', 'sat', 'b23', 't350', 't590', 'limits']))
    sgn = draw(st.sampled_from([-1, 1]))
    if mode == 'any':
        t = draw(st.floats(TMIN_C, TMAX_C))
        p = draw(st.one_of(st.floats(PMIN2, PMAX), frac().map(lambda f: PMIN2 * (PMAX / PMIN2) ** f)))
    elif mode == 'sat':
        t = draw(temp(TMIN_C, T13_C, [TMIN_C, T13_C]))
        p = psat_c(t) * (1 + sgn * draw(DELTA))
    elif mode == 'b23':
        t = draw(temp(T13_C, T23_C, [T13_C, T23_C]))
        p = pb23_c(t) * (1 + sgn * draw(DELTA))
    elif mode == 't350':
        t = draw(st.sampled_from(around(T13_C, TMIN_C, TMAX_C)))
        p = PMIN2 + draw(frac()) * (PMAX - PMIN2)
    elif mode == 't590':
        t = draw(st.sampled_from(around(T23_C, TMIN_C, TMAX_C)))
        p = PMAX * (1 - draw(st.sampled_from([0.0, 1e-9, 1e-6, 1e-3, 0.1, 0.5])))
    else:
        t = draw(st.sampled_from(around(TMIN_C, TMIN_C, TMAX_C) + around(TMAX_C, TMIN_C, TMAX_C) + [100.0, 400.0, 700.0]))
        p = draw(st.sampled_from([PMAX, PMAX * (1 - 1e-9), PMAX * (1 - 1e-6), PMAX * (1 - 1e-3), PMIN2, 1e3, 1e5]))
    return {'k': 'reg', 't': clamp(t, TMIN_C, TMAX_C), 'p': clamp(p, PMIN2, PMAX)}


# ------------------------------------------------------------------------------------------------
# enumerations

def lin(a, b, n): return [a + (b - a) * i / (n - 1) for i in range(n - 1)] + [b] if n > 1 else [a]


def grid_r1(nt, npr):
    def g():
        for t in lin(TMIN_C, T13_C, nt):
            ps = psat_c(t)
            for f in lin(0.0, 1.0, npr):
                yield {'k': 'r1', 't': t, 'p': clamp(ps + f * f * (PMAX - ps), ps, PMAX)}
    return g


def grid_r2(nt, npr):
    def g():
        for t in lin(TMIN_C, TMAX_C, nt):
            pm = pmax2(t)
            for f in lin(0.0, 1.0, npr):
                yield {'k': 'r2', 't': t, 'p': clamp(PMIN2 * (pm / PMIN2) ** f, PMIN2, pm)}
            for f in lin(0.5, 0.99, max(2, npr // 3)):
                yield {'k': 'r2', 't': t, 'p': f * pm}
    return g


def r3_class(d, T):
    """Where the state (d, T) lies: None = not a region-3 state; 'l' / 'v' = compressed liquid / superheated vapour below
    the critical temperature; 's' = at or above it; 'dome' = inside the two-phase dome (between the saturation densities,
    or - at the critical temperature itself - inside the residual loop of the region-3 equation, which includes the
    critical point)."""
    p = ref.p3(d, T)
    if PMAX < p <= PMAX * (1 + 1e-9): p = PMAX         # a state on the 100 MPa limit, up to rounding of the density
    if not (100.0 <= d <= 800.0 and ref.T13 * (1 - 1e-9) <= T <= ref.T23MAX * (1 + 1e-9) and 3 in ref.region(T, p)):
        return None
    sp = ref.spinodals3(T)
    if sp is None: return 's'
    if T <= ref.TC:
        ps = ref.psat(T)
        if d <= sp[0] and p <= ps * (1 + 1e-9): return 'v'
        if d >= sp[1] and p >= ps * (1 - 1e-9): return 'l'
        return 'dome'
    if d <= sp[0] or d >= sp[1]: return 's'
    return 'dome'


def r3_valid(d, T):
    c = r3_class(d, T)
    return None if c == 'dome' else c


def grid_r3(nt, nd):
    def g():
        ts = lin(T13_C, T23_C, nt) + [TCRIT_C - 1.0, TCRIT_C - 0.1, TCRIT_C + 0.1, TCRIT_C + 1.0]
        for t in ts:
            for d in lin(100.0, 770.0, nd):
                if r3_valid(d, t + T0) is not None:
                    yield {'k': 'r3', 'd': d, 't': t}
    return g


def grid_lines(n):
    def g():
        for t in lin(TMIN_C, TCRIT_C, n): yield {'k': 'sat', 't': t}
        lo, hi = psat_c(TMIN_C), 22.064e6
        for f in lin(0.0, 1.0, n): yield {'k': 'tsat', 'p': clamp(lo * (hi / lo) ** f, lo, hi)}
        for t in lin(T13_C, T23_C, n // 2): yield {'k': 'b23p', 't': t}
        lo = pb23_c(T13_C)
        for p in lin(lo, PMAX, n // 2): yield {'k': 'b23t', 'p': p}
        for p in lin(psat_c(T13_C), PMAX, n // 4): yield {'k': 'xb13', 'p': p}
        for t in lin(T13_C, T23_C, n // 4): yield {'k': 'xb23', 't': t}
    return g


def grid_reg(nt, npr):
    def g():
        for t in lin(TMIN_C, TMAX_C, nt):
            for f in lin(0.0, 1.0, npr):
                yield {'k': 'reg', 't': t, 'p': PMIN2 * (PMAX / PMIN2) ** f}
            for f in lin(0.02, 1.0, npr):
                yield {'k': 'reg', 't': t, 'p': f * PMAX}
    return g


def edges():
    """Explicit end points, corners and boundary-straddling states."""
    out = []
    sat_ts = around(TMIN_C, TMIN_C, TCRIT_C) + around(TCRIT_C, TMIN_C, TCRIT_C) + [373.946] + around(T13_C, TMIN_C, TCRIT_C) \
        + [26.85, 226.85, 326.85]
    # the two quadratics of the saturation equations have leading coefficients that vanish inside the range (A(theta) = 0
    # near 175.17 degC, E(beta) = 0 near 0.726 MPa): forms that divide by them, or cancel there, go wrong only within
    # ~1e-5 of those states, which no grid or random draw reaches
    import math
    n4 = ref._N4
    th0 = 0.5 * (-n4[1] + math.sqrt(n4[1] ** 2 - 4.0 * n4[2]))
    T0 = 0.5 * ((th0 + n4[10]) - math.sqrt((th0 + n4[10]) ** 2 - 4.0 * (th0 * n4[10] + n4[9])))        # theta(T0) = th0
    be0 = 0.5 * (-n4[3] - math.sqrt(n4[3] ** 2 - 4.0 * n4[6]))
    t0, p0 = T0 - 273.15, 1.0e6 * be0 ** 4
    if not (100.0 < t0 < 250.0 and 0.1e6 < p0 < 5e6): raise HarnessError('singular saturation states misplaced: %r %r' % (t0, p0))
    for dlt in (0.0, 1e-13, 1e-12, 1e-11, 1e-10, 1e-9, 1e-8, 1e-7, 1e-6, 1e-5, 1e-4):
        for s in ((1,) if dlt == 0 else (1, -1)):
            sat_ts.append(t0 + s * dlt * 100.0)
            out.append({'k': 'tsat', 'p': p0 * (1 + s * dlt)})
            out.append({'k': 'tsat', 'p': ref.psat(T0 + s * dlt * 100.0)})
            out.append({'k': 'sat', 't': ref.tsat(p0 * (1 + s * dlt)) - 273.15})
    for t in sat_ts:
        out.append({'k': 'sat', 't': t})
    p_lo, p_hi = psat_c(TMIN_C), 22.064e6
    for p in [p_lo, p_hi] + [p_lo * (1 + d) for d in DELTAS] + [p_hi * (1 - d) for d in DELTAS] + [0.1e6, 1e6, 10e6]:
        out.append({'k': 'tsat', 'p': p})
    for t in around(T13_C, T13_C, T23_C) + around(T23_C, T13_C, T23_C):
        out.append({'k': 'b23p', 't': t}); out.append({'k': 'xb23', 't': t})
    b_lo = pb23_c(T13_C)
    for p in [b_lo, PMAX, 0.165291643e8] + [b_lo * (1 + d) for d in DELTAS] + [PMAX * (1 - d) for d in DELTAS]:
        out.append({'k': 'b23t', 'p': p})
    x_lo = psat_c(T13_C)
    for p in [x_lo, PMAX] + [x_lo * (1 + d) for d in DELTAS] + [PMAX * (1 - d) for d in DELTAS]:
        out.append({'k': 'xb13', 'p': p})
    # region 1 / 2 either side of the saturation line and at the corners
    for t in around(TMIN_C, TMIN_C, T13_C) + around(T13_C, TMIN_C, T13_C) + [50.0, 200.0, 300.0]:
        ps = psat_c(t)
        for d in (0.0,) + DELTAS:
            out.append({'k': 'r1', 't': t, 'p': ps * (1 + d)})
            out.append({'k': 'r2', 't': t, 'p': ps * (1 - d)})
            out.append({'k': 'r1', 't': t, 'p': PMAX * (1 - d)})
            for s in (-1, 1): out.append({'k': 'reg', 't': t, 'p': ps * (1 + s * d)})
    # published region 1 / 2 states
    for t, p in sorted(ref.PUBLISHED_TP):
        out.append({'k': 'r1' if p > psat_c(t) and t <= T13_C else 'r2', 't': t, 'p': p})
    for d, t in sorted(ref.PUBLISHED_RT): out.append({'k': 'r3', 'd': d, 't': t})
    # region 2 / 3 either side of B23, of 350 degC, of the critical temperature and at 590 degC / 100 MPa
    for t in around(T13_C, T13_C, T23_C) + around(TCRIT_C, T13_C, T23_C) + around(T23_C, T13_C, T23_C) + [400.0, 500.0]:
        pb = min(pb23_c(t), PMAX)
        for d in (0.0,) + DELTAS:
            out.append({'k': 'r2', 't': t, 'p': min(pb * (1 - d), PMAX)})
            for s in (-1, 1): out.append({'k': 'reg', 't': t, 'p': min(pb * (1 + s * d), PMAX)})
            for p in (pb * (1 + d), PMAX * (1 - d)):
                if pb <= p <= PMAX:
                    dd = r3_density(t, p)
                    if dd is not None: out.append({'k': 'r3', 'd': dd, 't': t})
        if t < TCRIT_C:
            for d in DELTAS:
                for s in (-1, 1):
                    p = psat_c(t) * (1 + s * d)
                    dd = r3_density(t, p) if p > pb * (1 + 1e-8) else None
                    if dd is not None and r3_class(dd, t + T0) is not None: out.append({'k': 'r3', 'd': dd, 't': t})
    # the critical point itself and its neighbourhood
    for d in (322.0, 321.0, 323.0, 300.0, 345.0):
        for t in (TCRIT_C, TCRIT_C + 1e-3, TCRIT_C + 1e-6):
            out.append({'k': 'r3', 'd': d, 't': t})
    # region 2 up to 800 degC / 100 MPa, down to 1 Pa
    for t in around(T23_C, TMIN_C, TMAX_C) + around(TMAX_C, TMIN_C, TMAX_C) + [600.0, 700.0]:
        pm = pmax2(t)
        for p in [pm, PMIN2] + [pm * (1 - d) for d in DELTAS]:
            out.append({'k': 'r2', 't': t, 'p': p}); out.append({'k': 'reg', 't': t, 'p': p})
    # 350 degC line at all pressures (regions 1|3 above saturation, 2|2 below)
    for t in around(T13_C, TMIN_C, TMAX_C):
        for p in (1e5, 10e6, 16.0e6, 17.0e6, 50e6, PMAX):
            out.append({'k': 'reg', 't': t, 'p': p})
    return out


def searches(tier):
    q = tier == 'quick'
    sh = 8 if q else 16
    return [
        Search('edges', 'enum', edges, shards=4),
        Search('grid_r1', 'enum', grid_r1(48, 36) if q else grid_r1(400, 200), shards=sh),
        Search('grid_r2', 'enum', grid_r2(49, 30) if q else grid_r2(400, 150), shards=sh),
        Search('grid_r3', 'enum', grid_r3(37, 68) if q else grid_r3(300, 336), shards=sh),
        Search('grid_lines', 'enum', grid_lines(1000) if q else grid_lines(40000), shards=sh),
        Search('grid_reg', 'enum', grid_reg(49, 30) if q else grid_reg(400, 150), shards=sh),
        Search('hyp_r1', 'hyp', r1_case, n=8000 if q else 300000, shards=sh),
        Search('hyp_r2', 'hyp', r2_case, n=8000 if q else 300000, shards=sh),
        Search('hyp_r3', 'hyp', r3_case, n=6000 if q else 200000, shards=sh),
        Search('hyp_lines', 'hyp', line_case, n=6000 if q else 200000, shards=sh),
        Search('hyp_xb', 'hyp', xb_case, n=2000 if q else 60000, shards=sh),
        Search('hyp_reg', 'hyp', reg_case, n=8000 if q else 300000, shards=sh),
    ]


# ------------------------------------------------------------------------------------------------
# oracles

def rel(a, b):
    return abs(a - b) / abs(b) if b != 0 else abs(a)


def num(x):
    return isinstance(x, (int, float)) and not isinstance(x, bool) and math.isfinite(x)


def pair(R, x, what, at):
    """The routine must return a pair of finite numbers inside its region."""
    if not (isinstance(x, tuple) and len(x) == 2 and all(num(v) for v in x)):
        R.fail('novalue:' + what, '%s%s returned %r inside its region' % (what, at, x))
        return None
    return float(x[0]), float(x[1])


def decade(prefix, x):
    """class label with the decade of a residual, so the evidence shows the head-room of a tolerance"""
    if not (x > 0): return '%s:0' % prefix
    return '%s:<=1e%d' % (prefix, max(-16, math.ceil(math.log10(x))))


def richardson(f, x, h):
    """O(h^4) derivative of the tuple-valued f at x from central differences with steps h and h/2."""
    a1, a2 = f(x + h), f(x - h)
    b1, b2 = f(x + 0.5 * h), f(x - 0.5 * h)
    return tuple((4.0 * (q1 - q2) / h - (p1 - p2) / (2.0 * h)) / 3.0 for p1, p2, q1, q2 in zip(a1, a2, b1, b2))


def vh(fun, t, p):
    d, u = fun(t, p)
    return 1.0 / d, u + p / d


def maxwell_tp(fun, t, p, hp, ht):
    """Relative residual of (dh/dp)_T = v - T (dv/dT)_p for a routine (t, p) -> (d, u)."""
    v, h = vh(fun, t, p)
    dv_dp, dh_dp = richardson(lambda x: vh(fun, t, x), p, hp)
    dv_dt, dh_dt = richardson(lambda x: vh(fun, x, p), t, ht)
    T = t + T0
    return abs(dh_dp - (v - T * dv_dt)) / (abs(v) + T * abs(dv_dt))


def maxwell_rt(fun, d, t, hr, ht):
    """Relative residual of (du/drho)_T = (p - T (dp/dT)_rho) / rho^2 for a routine (d, t) -> (p, u)."""
    p, u = fun(d, t)
    dp_dr, du_dr = richardson(lambda x: tuple(float(y) for y in fun(x, t)), d, hr)
    dp_dt, du_dt = richardson(lambda x: tuple(float(y) for y in fun(d, x)), t, ht)
    T = t + T0
    return abs(du_dr - (p - T * dp_dt) / (d * d)) / ((abs(p) + T * abs(dp_dt)) / (d * d))


def near_labels(R, t, p):
    """Which boundaries the state (t degC, p Pa) is close to (relative 1e-9 / 1e-6 / 1e-3)."""
    T = t + T0

    def bucket(name, x):
        for d in DELTAS:
            if x <= d * (1 + 1e-6):
                R.label('near:%s:%g' % (name, d)); return
    if t <= T13_C + 1: bucket('sat', rel(p, psat_c(min(t, T13_C))))
    if T13_C - 1 <= t <= T23_C + 1: bucket('b23', rel(p, pb23_c(clamp(t, T13_C, T23_C))))
    if t <= TCRIT_C and t > T13_C: bucket('sat3', rel(p, psat_c(t)))
    bucket('t350', rel(T, T13_C + T0)); bucket('t590', rel(T, T23_C + T0)); bucket('tcrit', rel(T, ref.TC))
    bucket('t0.01', rel(T, TMIN_C + T0)); bucket('t800', rel(T, TMAX_C + T0)); bucket('p100', rel(p, PMAX))


def check_visc(R, I, d, t, at):
    with R.lib('visc'):
        mu = I.visc(d, t)
    if not num(mu):
        R.fail('novalue:visc', 'visc%r = %r' % ((d, t), mu)); return
    R.check(mu > 0.0, 'visc:nonpositive', 'visc(%r, %r) = %r %s' % (d, t, mu, at))
    m0 = ref.visc(d, t + T0)
    R.check(rel(mu, m0) <= TOL_DIFF, 'diff:visc', 'visc(%r, %r) = %r, reference %r (rel %.3g) %s' % (
        d, t, mu, m0, rel(mu, m0), at))


def check_region(R, I, t, p, at=''):
    want = ref.region(t + T0, p)
    if not want: return
    with R.lib('region'):
        got = I.region(t, p)
    R.label('region:%s' % got)
    if got is None:
        R.fail('region:none', 'region(%r, %r) = None inside 0.01..800 degC, p <= 100 MPa %s' % (t, p, at)); return
    R.check(got in want, 'region:wrong:%s-for-%s' % (got, '|'.join(str(x) for x in sorted(want))),
            'region(%r, %r) = %r, IF97 definition gives %s (psat %r, b23p %r) %s' % (
                t, p, got, sorted(want), psat_c(t) if t <= TCRIT_C else None,
                pb23_c(t) if T13_C <= t <= T23_C else None, at))
    return got


def case_r12(R, I, kind, t, p):
    T = t + T0
    want = 1 if kind == 'r1' else 2
    if not (TMIN_C <= t <= TMAX_C and 0 < p <= PMAX and want in ref.region(T, p)):
        R.label('out-of-domain'); return
    R.label(kind); near_labels(R, t, p)
    R.nontrivial((round(t, 9), round(p, 6)) not in ref.PUBLISHED_TP)
    name = 'cowat' if kind == 'r1' else 'supst'
    fun = I.cowat if kind == 'r1' else I.supst
    at = 'at t=%r degC, p=%r Pa' % (t, p)
    with R.lib(name):
        out = fun(t, p)
    out = pair(R, out, name, (t, p))
    if out is None: return
    d, u = out
    o = (ref.r1 if kind == 'r1' else ref.r2)(T, p)
    # (a) differential
    R.check(rel(d, o['rho']) <= TOL_DIFF, 'diff:%s:d' % name,
            '%s density %r, reference %r (rel %.3g) %s' % (name, d, o['rho'], rel(d, o['rho']), at))
    eu = abs(u - o['u']) / (abs(o['u']) + ref.R * T)
    R.check(eu <= TOL_DIFF, 'diff:%s:u' % name, '%s internal energy %r, reference %r (rel %.3g) %s' % (name, u, o['u'], eu, at))
    # (e) viscosity
    check_visc(R, I, d, t, at)
    # (g) classifier
    check_region(R, I, t, p)
    # (d) density rises with pressure, both neighbours inside the region
    lo = psat_c(t) if kind == 'r1' else 0.0
    hi = PMAX if kind == 'r1' else pmax2(t)
    for q in (p * (1 - MONO_REL), p * (1 + MONO_REL)):
        if not (lo < q <= hi) or q == p: continue
        with R.lib(name):
            o2 = fun(t, q)
        o2 = pair(R, o2, name, (t, q))
        if o2 is None: return
        R.check((o2[0] - d) * (q - p) > 0.0, 'mono:' + name,
                '%s density %r at p=%r but %r at p=%r (t=%r)' % (name, d, p, o2[0], q, t))
    # (b) single-potential identity
    if kind == 'r1': hp, ht = HP1, HT1
    else: hp, ht = HP2REL * p, HT2
    # every point of the difference stencil must itself lie inside the region whose routine is evaluated (the
    # identity is only claimed there, and a routine may rightly give no value outside)
    inside = p + hp <= PMAX and p - hp > 0 and t - ht >= 0.01
    if kind == 'r1':
        inside = inside and t + ht <= T13_C and p - hp > psat_c(t + ht)
    else:
        inside = inside and t + ht <= 800.0 and p + hp <= min(pmax2(t - ht), pmax2(t + ht), pmax2(t))
    if not inside:
        R.label('fd-skipped'); return
    try:
        with R.lib('fd:' + name):
            res = maxwell_tp(lambda a, b: pair_or_raise(fun(a, b), name, a, b), t, p, hp, ht)
    except NoValue as e:
        R.fail('novalue:' + name, '%s inside the range of the routine, next to %s' % (e, at)); return
    R.label('maxwell:' + name, decade('resid:' + name, res))
    R.check(res <= TOL_MAXWELL, 'maxwell:' + name,
            '(dh/dp)_T differs from v - T (dv/dT)_p by %.3g of |v|+T|dv/dT| %s' % (res, at))


class NoValue(Refused):        # (Refused passes through R.lib untouched)
    """a routine returned no value at a finite-difference neighbour of a state where it did"""


def pair_or_raise(x, name, a, b):
    if not (isinstance(x, tuple) and len(x) == 2 and x[0] is not None and x[1] is not None):
        raise NoValue('%s(%r, %r) = %r' % (name, a, b, x))
    return float(x[0]), float(x[1])


def case_r3(R, I, d, t):
    T = t + T0
    br = r3_class(d, T)
    if br is None:
        R.label('out-of-domain'); return
    pref = ref.p3(d, T)
    R.label('r3', 'r3:' + {'l': 'subcritical-liquid', 'v': 'subcritical-vapour', 's': 'supercritical',
                           'dome': 'inside-dome(critical point)'}[br])
    if d == 322.0 and T == ref.TC: R.label('end:critical-point')
    near_labels(R, t, pref)
    R.nontrivial((round(d, 9), round(t, 9)) not in ref.PUBLISHED_RT)
    at = 'at d=%r kg/m3, t=%r degC' % (d, t)
    with R.lib('super'):
        out = I.super(d, t)
    out = pair(R, out, 'super', (d, t))
    if out is None: return
    p, u = out
    o = ref.r3(d, T)
    R.check(rel(p, o['p']) <= TOL_DIFF, 'diff:super:p', 'super pressure %r, reference %r (rel %.3g) %s' % (p, o['p'], rel(p, o['p']), at))
    eu = abs(u - o['u']) / (abs(o['u']) + ref.R * T)
    R.check(eu <= TOL_DIFF, 'diff:super:u', 'super internal energy %r, reference %r (rel %.3g) %s' % (u, o['u'], eu, at))
    check_visc(R, I, d, t, at)
    if 0 < p <= PMAX: check_region(R, I, t, p, '(p = super(d, t)[0])')
    # (d) pressure rises with density
    for d2 in (d * (1 - MONO_REL), d * (1 + MONO_REL)):
        if br == 'dome' or r3_class(d2, T) != br: continue
        inc = min(ref.dpdrho3(d, T), ref.dpdrho3(d2, T)) * abs(d2 - d)
        if inc < 1e-9 * pref:
            R.label('mono-skipped'); continue
        with R.lib('super'):
            o2 = I.super(d2, t)
        o2 = pair(R, o2, 'super', (d2, t))
        if o2 is None: return
        R.check((o2[0] - p) * (d2 - d) > 0.0, 'mono:super',
                'super pressure %r at d=%r but %r at d=%r (t=%r)' % (p, d, o2[0], d2, t))
    # (b) single-potential identity
    try:
        with R.lib('fd:super'):
            res = maxwell_rt(lambda a, b: pair_or_raise(I.super(a, b), 'super', a, b), d, t, HR3REL * d, HT3)
    except NoValue as e:
        R.fail('novalue:super', '%s next to %s' % (e, at)); return
    R.label('maxwell:super', decade('resid:super', res))
    R.check(res <= TOL_MAXWELL, 'maxwell:super',
            '(du/drho)_T differs from (p - T (dp/dT)_rho)/rho^2 by %.3g of its scale %s' % (res, at))


def case_line(R, I, case):
    k = case['k']
    if k == 'sat':
        t = case['t']
        if not (TMIN_C <= t <= TCRIT_C): R.label('out-of-domain'); return
        R.label('sat'); R.nontrivial(round(t, 9) not in ref.PUBLISHED_SAT_T)
        if t == TMIN_C: R.label('end:sat:triple')
        if t >= 373.946: R.label('end:sat:critical')
        near_labels(R, t, psat_c(t))
        with R.lib('sat'):
            p = I.sat(t)
        if not num(p):
            R.fail('novalue:sat', 'sat(%r) = %r on the saturation line' % (t, p)); return
        p0 = psat_c(t)
        R.check(rel(p, p0) <= TOL_DIFF, 'diff:sat', 'sat(%r) = %r, reference %r' % (t, p, p0))
        with R.lib('tsat'):
            t2 = I.tsat(p)
        if not num(t2):
            R.fail('inverse:tsat(sat):novalue', 'tsat(sat(%r)) = tsat(%r) = %r' % (t, p, t2)); return
        R.check(abs(t2 - t) <= TOL_INV_T, 'inverse:tsat(sat)', 'tsat(sat(%r)) = %r (off by %.3g K)' % (t, t2, t2 - t))
    elif k == 'tsat':
        p = case['p']
        if not (psat_c(TMIN_C) <= p <= 22.064e6): R.label('out-of-domain'); return
        R.label('tsat'); R.nontrivial(round(p, 6) not in ref.PUBLISHED_SAT_P)
        if p == 22.064e6: R.label('end:tsat:critical')
        if p == psat_c(TMIN_C): R.label('end:tsat:triple')
        with R.lib('tsat'):
            t = I.tsat(p)
        if not num(t):
            R.fail('novalue:tsat', 'tsat(%r) = %r on the saturation line' % (p, t)); return
        t0 = ref.tsat(p) - T0
        R.check(abs(t - t0) <= TOL_DIFF_T, 'diff:tsat', 'tsat(%r) = %r, reference %r' % (p, t, t0))
        with R.lib('sat'):
            p2 = I.sat(t)
        if not num(p2):
            R.fail('inverse:sat(tsat):novalue', 'sat(tsat(%r)) = sat(%r) = %r' % (p, t, p2)); return
        R.check(rel(p2, p) <= TOL_INV_P, 'inverse:sat(tsat)', 'sat(tsat(%r)) = %r (rel %.3g)' % (p, p2, rel(p2, p)))
    elif k == 'b23p':
        t = case['t']
        if not (T13_C <= t <= T23_C): R.label('out-of-domain'); return
        R.label('b23p'); R.nontrivial(t != T13_C)
        if t == T13_C: R.label('end:b23:350')
        if t == T23_C: R.label('end:b23:590')
        with R.lib('b23p'):
            p = I.b23p(t)
        if not num(p):
            R.fail('novalue:b23p', 'b23p(%r) = %r' % (t, p)); return
        R.check(rel(p, pb23_c(t)) <= TOL_DIFF, 'diff:b23p', 'b23p(%r) = %r, reference %r' % (t, p, pb23_c(t)))
        with R.lib('b23t'):
            t2 = I.b23t(p)
        if not num(t2):
            R.fail('novalue:b23t', 'b23t(b23p(%r)) = %r' % (t, t2)); return
        R.check(abs(t2 - t) <= TOL_INV_T, 'inverse:b23t(b23p)', 'b23t(b23p(%r)) = %r (off by %.3g K)' % (t, t2, t2 - t))
    elif k == 'b23t':
        p = case['p']
        if not (pb23_c(T13_C) <= p <= PMAX): R.label('out-of-domain'); return
        R.label('b23t'); R.nontrivial(abs(p - 0.165291643e8) > 1.0)
        if p == PMAX: R.label('end:b23:100MPa')
        with R.lib('b23t'):
            t = I.b23t(p)
        if not num(t):
            R.fail('novalue:b23t', 'b23t(%r) = %r' % (p, t)); return
        t0 = ref.b23t(p) - T0
        R.check(abs(t - t0) <= TOL_DIFF_T, 'diff:b23t', 'b23t(%r) = %r, reference %r' % (p, t, t0))
        with R.lib('b23p'):
            p2 = I.b23p(t)
        if not num(p2):
            R.fail('novalue:b23p', 'b23p(b23t(%r)) = %r' % (p, p2)); return
        R.check(rel(p2, p) <= TOL_INV_P, 'inverse:b23p(b23t)', 'b23p(b23t(%r)) = %r (rel %.3g)' % (p, p2, rel(p2, p)))


def case_xb(R, I, case):
    """(f) the two equations that meet at a boundary agree there within IF97's consistency requirement."""
    if case['k'] == 'xb13':
        t, p = T13_C, case['p']
        if not (psat_c(T13_C) <= p <= PMAX): R.label('out-of-domain'); return
        name, fun, tag = 'cowat', I.cowat, '13'
    else:
        t = case['t']
        if not (T13_C <= t <= T23_C): R.label('out-of-domain'); return
        p = min(pb23_c(t), PMAX)
        name, fun, tag = 'supst', I.supst, '23'
    T = t + T0
    R.label('xb' + tag); R.nontrivial()
    d3 = ref.rho3(T, p, 'l' if tag == '13' else ('v' if T < ref.TC else None))
    if d3 is None:
        R.label('xb:no-reference-density'); return        # degenerate root of the reference solver, not judged
    with R.lib('super'):
        o3 = I.super(d3, t)
    o3 = pair(R, o3, 'super', (d3, t))
    with R.lib(name):
        oa = fun(t, p)
    oa = pair(R, oa, name, (t, p))
    if o3 is None or oa is None: return
    p3, u3 = o3
    da, ua = oa
    if rel(p3, p) > 1e-8:
        R.fail('diff:super:p', 'super(%r, %r) pressure %r, reference %r' % (d3, t, p3, p)); return
    va, ha = 1.0 / da, ua + p / da
    v3, h3 = 1.0 / d3, u3 + p3 / d3
    at = 'on the %s boundary at t=%r degC, p=%r Pa: %s gives v=%r h=%r, super gives v=%r h=%r' % (
        '350 degC' if tag == '13' else 'B23', t, p, name, va, ha, v3, h3)
    R.check(abs(va - v3) <= XB_V * v3, 'xb:%s:v' % tag, 'specific volume differs by %.4g %% %s' % (100 * abs(va - v3) / v3, at))
    R.check(abs(ha - h3) <= XB_H, 'xb:%s:h' % tag, 'enthalpy differs by %.4g J/kg %s' % (abs(ha - h3), at))


def case_reg(R, I, t, p):
    if not (TMIN_C <= t <= TMAX_C and 0 < p <= PMAX): R.label('out-of-domain'); return
    R.label('reg'); near_labels(R, t, p); R.nontrivial()
    got = check_region(R, I, t, p)
    want = ref.region(t + T0, p)
    # the equation of the named region must be usable at that state
    if got == 1 and 1 in want:
        with R.lib('cowat'):
            pair(R, I.cowat(t, p), 'cowat', (t, p))
    elif got == 2 and 2 in want:
        with R.lib('supst'):
            pair(R, I.supst(t, p), 'supst', (t, p))


def run_case(case, R):
    ref.selftest()
    I = lib()
    import numpy
    numpy.seterr(divide='ignore')   # power_array always forms 1/value, also where that entry is unused (visc at d = 322)
    k = case['k']
    if k in ('r1', 'r2'): case_r12(R, I, k, float(case['t']), float(case['p']))
    elif k == 'r3': case_r3(R, I, float(case['d']), float(case['t']))
    elif k in ('sat', 'tsat', 'b23p', 'b23t'): case_line(R, I, case)
    elif k in ('xb13', 'xb23'): case_xb(R, I, case)
    elif k == 'reg': case_reg(R, I, float(case['t']), float(case['p']))
    else: raise HarnessError('unknown case kind %r' % k)
    purity(R, I, case)


def _same(a, b):
    if isinstance(a, tuple) or isinstance(b, tuple):
        return isinstance(a, tuple) and isinstance(b, tuple) and len(a) == len(b) and all(_same(x, y) for x, y in zip(a, b))
    if a is None or b is None: return a is None and b is None
    return float(a) == float(b) or (float(a) != float(a) and float(b) != float(b))


def purity(R, I, case):
    """Call history: the same state evaluated again after a call at a different state gives the same answer
    (a result that depends on what was asked before - a cache keyed on too little - is exposed)."""
    k = case['k']
    calls = []
    if k in ('r1', 'r2'):
        t, p = float(case['t']), float(case['p'])
        f = I.cowat if k == 'r1' else I.supst
        calls = [(f, (t, p), (t * 0.97 + 1.0, p * 1.03)), (I.region, (t, p), (t + 40.0, p * 0.5))]
    elif k == 'r3':
        d, t = float(case['d']), float(case['t'])
        calls = [(I.super, (d, t), (d * 1.1, t + 3.0)), (I.visc, (d, t), (d * 0.9 + 1.0, t + 5.0))]
    elif k == 'sat': calls = [(I.sat, (float(case['t']),), (float(case['t']) * 0.5 + 1.0,))]
    elif k == 'tsat': calls = [(I.tsat, (float(case['p']),), (float(case['p']) * 0.7,))]
    elif k == 'b23p': calls = [(I.b23p, (float(case['t']),), (float(case['t']) - 11.0,))]
    elif k == 'b23t': calls = [(I.b23t, (float(case['p']),), (float(case['p']) * 1.05,))]
    for f, args, other in calls:
        try:
            a = f(*args)
            try: f(*other)
            except Exception: pass
            b = f(*args)
        except Exception:
            continue        # exceptions are judged by the main oracle
        R.check(_same(a, b), 'purity:' + f.__name__, '%s%r = %r, and %r when asked again after %s%r' % (f.__name__, args, a, b, f.__name__, other))


def finish(tier, seed, total):
    return {'tolerances': {'differential_rel': TOL_DIFF, 'differential_K': TOL_DIFF_T, 'maxwell_rel': TOL_MAXWELL,
                           'inverse_K': TOL_INV_T, 'inverse_rel': TOL_INV_P, 'boundary_v_rel': XB_V, 'boundary_h_J_per_kg': XB_H},
            'reference_selftest': 'passed (IF97 Tables 5, 15, 33, 35, 36, B23, viscosity Table 4)'}


LEVEL_TEXT = ('Generated-input search over the documented range 0.01..800 degC, p <= 100 MPa: complete tensor grids per region and '
              'per boundary curve, Hypothesis floats, and explicit end points / boundary-straddling states (relative 1e-9, 1e-6, '
              '1e-3). Oracles: differential against an independently written IF97 evaluation, coefficient-free Maxwell identity by '
              'finite differences, inverse pairs, monotone density, positive viscosity, IF97 boundary consistency, IF97 region '
              'definition. Refutes, never proves; floating-point states are sampled, not exhausted.')
LEVEL_NOTE = ('Trusted: refs/if97_ref.py (own coefficient tables, plain ** evaluation, self-tested on every run against the '
              'published verification tables incl. s, cp, w; exit 2 if it fails). Tolerance oracles carry their calibration in RULE.')
TECHNIQUE = ('property-based testing (Hypothesis) + dense grid enumeration + explicit boundary cases; differential oracle vs an '
             'independent IF97 reference and metamorphic/thermodynamic-identity oracles (Maxwell relation by Richardson finite '
             'differences, inverse functions, monotonicity, cross-boundary consistency)')


def calibrate(nt=80, npr=60):
    """Measured maxima of every tolerance oracle on the tree under test (prints; used to set the TOL_* constants)."""
    I = lib()
    m = {}

    def up(k, v, at):
        if v > m.get(k, (0, None))[0]: m[k] = (v, at)
    for c in grid_r1(nt, npr)():
        t, p = c['t'], c['p']
        if p + HP1 > PMAX or t + HT1 > T13_C: continue
        up('maxwell:cowat', maxwell_tp(I.cowat, t, p, HP1, HT1), (t, p))
    for c in grid_r2(nt, npr)():
        t, p = c['t'], c['p']
        if p * (1 + HP2REL) > PMAX: continue
        up('maxwell:supst', maxwell_tp(I.supst, t, p, HP2REL * p, HT2), (t, p))
    for c in grid_r3(nt, npr)():
        up('maxwell:super', maxwell_rt(I.super, c['d'], c['t'], HR3REL * c['d'], HT3), (c['d'], c['t']))
    for p in lin(psat_c(T13_C), PMAX, 400):
        d3 = ref.rho3(T13_C + T0, p, 'l'); p3, u3 = I.super(d3, T13_C); da, ua = I.cowat(T13_C, p)
        up('xb13:v', abs(1 / da - 1 / d3) * d3, p); up('xb13:h', abs(ua + p / da - u3 - p3 / d3), p)
    for t in lin(T13_C, T23_C, 400):
        p = min(pb23_c(t), PMAX)
        d3 = ref.rho3(t + T0, p, 'v' if t + T0 < ref.TC else None); p3, u3 = I.super(d3, t); da, ua = I.supst(t, p)
        up('xb23:v', abs(1 / da - 1 / d3) * d3, t); up('xb23:h', abs(ua + p / da - u3 - p3 / d3), t)
    for k in sorted(m): print('%-16s %.4g at %r' % (k, m[k][0], m[k][1]))
    return m
