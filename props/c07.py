"""C07 - what a listing shows at a given time does not depend on how you navigated there."""
import os, itertools
import numpy as np
from hypothesis import strategies as st
from vlib.core import Search, HarnessError
from gens import listing as GL

ID = 'C07'
RULE = ('A case is (file, optional cut = keep only the first k result times, list of navigation actions with abstract '
        'arguments resolved against the file at run time). Actions: first, last, next, prev, index=i (0, n-1, -1, -n, middle, '
        'any i in [-n, n-1]), time=t and step=s (exact, between two results at a fraction, before the first, after the last), '
        'history(one of two fixed selections). exhaustive: every sequence of length <= 3 (4 in thorough) over a 20-letter '
        'alphabet on the shipped files under 100 kB with >= 2 times and on 2-time cuts of others, every sequence of length <= 2 '
        'on every other file with >= 2 times; random: Hypothesis lists of up to 40 actions on any file with >= 2 times and on '
        'truncated copies with 1..N-1 times. After every action (index, time, step, every table: row names, column names, '
        'array) is compared with a fresh listing positioned once at that index. Non-trivial = the sequence contains a '
        'backward move or a history call; distinct = distinct case JSON.'
        ' The third history letter is a selection none of whose entries exists (returns None, must change nothing).'
        ' Rounds 7-9: time = inf / step = 10**18 and far / infinite values either side; a second listing object of the same file opened and moved between the judged actions.')
ASSUMPTIONS = ['index accepts -n..n-1 (negative = from the end, as last() uses)',
               'a truncated copy is the file cut at the start of the line of a result banner; the reader opens such copies',
               'time=t / step=s may select either of two equally near result sets']

ALPHABET = [['first'], ['last'], ['next'], ['prev'],
            ['index', 'zero'], ['index', 'neg1'], ['index', 'negn'], ['index', 'mid'],
            ['time', 'exact', 1], ['time', 'between', 0, 0.3], ['time', 'before'], ['time', 'after'],
            ['step', 'exact', 0], ['step', 'between', 0, 0.7], ['time', 'inf-after'], ['step', 'far-after'], ['other', 'last'],
            ['history', 0], ['history', 1], ['history', 2]]

# ------------------------------------------------------------------------------------------------

_info = {}


def ntimes(rel):
    if rel not in _info:
        offs, size = GL.banner_lines(GL.path_of(rel))
        _info[rel] = len(offs)
    return _info[rel]


def multi():
    return [r for r in GL.shipped() if ntimes(r) >= 2]


def seqs(maxlen):
    for k in range(1, maxlen + 1):
        for p in itertools.product(ALPHABET, repeat=k):
            yield [list(x) for x in p]


def enum_cases(tier):
    def g():
        deep = 3 if tier == 'quick' else 4
        files = multi()
        small = [r for r in files if GL.size_of(r) < 100000]
        for rel in files:
            d = deep if rel in small else (2 if tier == 'quick' else 3)
            for s in seqs(d):
                yield {'file': rel, 'cut': None, 'ops': s}
        # truncated copies: 1 time and 2 times
        for rel in files:
            n = ntimes(rel)
            if GL.size_of(rel) > 450000 and tier == 'quick': continue
            for cut in sorted(set([1, 2, n - 1])):
                if not (1 <= cut < n): continue
                for s in seqs(2 if (tier == 'quick' or cut == 1) else 3):
                    yield {'file': rel, 'cut': cut, 'ops': s}
    return g


@st.composite
def random_case(draw):
    rel = draw(st.sampled_from(multi()))
    n = ntimes(rel)
    cut = None
    if draw(st.integers(0, 3)) == 0:
        cut = draw(st.integers(1, n - 1))
    frac = st.sampled_from([0.01, 0.25, 0.49, 0.5, 0.51, 0.75, 0.99])
    k = st.integers(0, 40)
    op = st.one_of(
        st.sampled_from([['first'], ['last'], ['next'], ['prev'], ['next'], ['prev']]),
        st.tuples(st.just('index'), st.one_of(st.sampled_from(['zero', 'neg1', 'negn', 'mid']), st.integers(-40, 40))).map(list),
        st.one_of(st.tuples(st.sampled_from(['time', 'step']), st.just('exact'), k),
                  st.tuples(st.sampled_from(['time', 'step']), st.just('between'), k, frac),
                  st.tuples(st.sampled_from(['time', 'step']), st.sampled_from(['before', 'after', 'before', 'after', 'far-after', 'inf-after', 'far-before', 'inf-before']))).map(list),
        st.tuples(st.just('history'), st.integers(0, 2)).map(list),
        st.tuples(st.just('other'), st.sampled_from(['open', 'last', 'first', 'next'])).map(list))
    ops = draw(st.lists(op, min_size=1, max_size=40))
    return {'file': rel, 'cut': cut, 'ops': ops}


def searches(tier):
    q = tier == 'quick'
    return [Search('all_short_sequences', 'enum', enum_cases(tier), shards=16),
            Search('random_sequences', 'hyp', random_case, n=800 if q else 40000, shards=16, max_shrink_s=20)]


# ------------------------------------------------------------------------------------------------

def selections(base):
    """two fixed history selections per file: one cell; first table + last table in file order"""
    snaps = base['snaps'][0]['tables']
    names = base['tablenames']
    spec = {'element': 'e', 'connection': 'c', 'generation': 'g', 'primary': 'p', 'element1': 'e1', 'element2': 'e2'}
    first, last = names[0], names[-1]
    c0 = snaps[first][1][0]
    s0 = (spec[first], 0, c0)
    rows, cols, arr = snaps[last]
    s1 = [(spec[last], rows[-1], cols[-1]), (spec[first], snaps[first][0][len(snaps[first][0]) // 2], snaps[first][1][-1])]
    return [s0, s1]


def nearest(values, x):
    d = np.abs(np.asarray(values, dtype=float) - x)
    m = d.min()
    return set(int(i) for i in np.nonzero(d == m)[0])


def resolve_value(kind, arr, op):
    """the time / step value an abstract argument stands for, and the set of admissible result indices"""
    n = len(arr)
    mode = op[1]
    a = np.asarray(arr, dtype=float)
    if mode == 'exact':
        x = arr[op[2] % n]
        if kind == 'step': x = int(x)
        else: x = float(x)
    elif mode == 'between':
        k = op[2] % max(n - 1, 1)
        lo, hi = a[k], a[min(k + 1, n - 1)]
        x = lo + op[3] * (hi - lo)
        if kind == 'step': x = int(round(x))
    elif mode == 'before':
        x = a[0] - 1.0 - abs(a[0])
        if kind == 'step': x = int(a[0]) - 1
    elif mode == 'after':
        x = a[-1] * 2.0 + 1.0
        if kind == 'step': x = int(a[-1]) + 7
    elif mode in ('far-after', 'inf-after', 'far-before', 'inf-before'):
        # beyond the last / before the first result by more than floating point can tell the results apart
        sgn = 1.0 if mode.endswith('after') else -1.0
        x = sgn * (float('inf') if mode.startswith('inf') else 1e300)
        if kind == 'step' and mode.startswith('far'): x = int(sgn) * 10 ** 18
        return x, ({n - 1} if sgn > 0 else {0})
    else:
        raise HarnessError('bad mode %r' % mode)
    return x, nearest(a, float(x))


def resolve_index(arg, n):
    if arg == 'zero': return 0
    if arg == 'neg1': return -1
    if arg == 'negn': return -n
    if arg == 'mid': return n // 2
    i = int(arg)
    # fold any integer into the documented range -n .. n-1
    return ((i + n) % (2 * n)) - n


def opclass(op):
    if op[0] in ('first', 'last', 'next', 'prev'): return op[0]
    if op[0] == 'index':
        return 'index'
    if op[0] in ('time', 'step'): return '%s-%s' % (op[0], op[1])
    if op[0] == 'other': return 'other'
    return 'history'


def run_case(case, R):
    rel = case['file']
    fam = GL.family(rel)
    cut = case.get('cut')
    path = GL.path_of(rel)
    key = rel
    R.label('sim:' + fam, 'len:%s' % (len(case['ops']) if len(case['ops']) <= 4 else '5-10' if len(case['ops']) <= 10 else '11+'))
    if cut is not None:
        n_all = ntimes(rel)
        if not (1 <= cut < n_all): raise HarnessError('cut %r of %d' % (cut, n_all))
        path = GL.truncate_copy(path, cut, R.tmp)
        key = '%s@cut%d' % (rel, cut)
        R.label('truncated-copy', 'truncated-to:%s' % ('1' if cut == 1 else '2+'))
    base = None
    with R.lib('open-fresh'):
        base = GL.baseline(path, key)
    n = base['n']
    if cut is not None and n != cut:
        raise HarnessError('truncated copy of %s has %d times, cut at %d' % (rel, n, cut))
    sels = selections(base)
    lst = None
    with R.lib('open'):
        lst = GL.open_listing(path)
    other = [None]
    try:
        cur = 0
        trail = []
        backward = False
        for k, op in enumerate(case['ops']):
            name = op[0]
            cls = opclass(op)
            expect = None
            ret = None
            want_ret = None
            shown = None
            with R.lib('nav:' + cls):
                if name == 'first': lst.first(); expect = {0}; shown = 'first()'
                elif name == 'last': lst.last(); expect = {n - 1}; shown = 'last()'
                elif name == 'next':
                    ret = lst.next(); want_ret = cur < n - 1; expect = {min(cur + 1, n - 1)}; shown = 'next()'
                elif name == 'prev':
                    ret = lst.prev(); want_ret = cur > 0; expect = {max(cur - 1, 0)}; shown = 'prev()'
                elif name == 'index':
                    i = resolve_index(op[1], n)
                    if i < 0: R.label('negative-index'); cls = 'index-negative'
                    lst.index = i; expect = {i % n}; shown = 'index=%d' % i
                elif name == 'time':
                    x, expect = resolve_value('time', base['fulltimes'], op)
                    lst.time = x; shown = 'time=%r' % x
                elif name == 'step':
                    x, expect = resolve_value('step', base['fullsteps'], op)
                    lst.step = x; shown = 'step=%r' % x
                elif name == 'history':
                    if op[1] % 3 == 2:
                        # a selection none of whose entries exists in this listing: a legal call that yields nothing
                        sel = [('e', 'no such row', sels[0][2])]
                        h = lst.history(sel)
                        expect = {cur}; shown = 'history(%r)' % (sel,); cls = 'history-nothing-valid'
                        if h is not None: R.label('history-of-unknown-row-returned-something')
                    else:
                        sel = sels[op[1] % 3]
                        h = lst.history(sel)
                        expect = {cur}; shown = 'history(%r)' % (sel,)
                        if h is None: R.fail('nav:history:none', '%s: history(%r) returned None' % (key, sel))
                elif name == 'other':
                    # a second listing object of the same file, alive next to this one, is opened / moved: nothing to this one
                    if other[0] is None or op[1] == 'open':
                        if other[0] is not None: other[0].close()
                        other[0] = GL.open_listing(path); shown = 'other = t2listing(same file)'
                    elif op[1] == 'last': other[0].last(); shown = 'other.last()'
                    elif op[1] == 'first': other[0].first(); shown = 'other.first()'
                    else: other[0].next(); shown = 'other.next()'
                    expect = {cur}; cls = 'other-listing-of-the-same-file'
                else:
                    raise HarnessError('unknown action %r' % (op,))
            trail.append(shown)
            where = '%s (%d times): %s' % (key, n, ' ; '.join(trail))
            R.label('op:' + cls)
            if want_ret is not None:
                if not isinstance(ret, (bool, np.bool_)) or bool(ret) != want_ret:
                    R.fail('nav:%s:return' % cls, '%s returned %r at index %d' % (where, ret, cur)); return
                if not want_ret: R.label('%s-at-end' % name)
            got = lst.index
            if not (isinstance(got, (int, np.integer)) and 0 <= got < n and int(got) in expect):
                what = 'nearest' if name in ('time', 'step') else 'index'
                R.fail('nav:%s:%s' % (cls, what), '%s -> index %r, expected %s' % (where, got, sorted(expect))); return
            got = int(got)
            if got < cur: backward = True
            if name == 'history': backward = True
            if name in ('time', 'step') and len(expect) > 1: R.label('nearest-tie')
            diffs = GL.diff_snapshot(base['snaps'][got], GL.snapshot(lst), what=('time', 'step', 'tables'))
            if diffs:
                field, detail = diffs[0]
                R.fail('nav:%s:%s' % (cls, field.split(':')[0]), '%s: differs from a fresh listing at index %d: %s' % (
                    where, got, detail)); return
            cur = got
        if backward: R.label('has-backward-move-or-history')
        R.nontrivial(backward)
    finally:
        lst.close()
        if other[0] is not None: other[0].close()


LEVEL_TEXT = ('Exhaustive enumeration of all navigation sequences up to length 3 (quick) / 4 (thorough) over a 16-action '
              'alphabet on the small multi-time files, up to length 2 / 3 on all other multi-time files and on truncated copies, '
              'plus Hypothesis action lists up to length 40. Reference: fresh listing positioned directly at the index. '
              'Exhaustive only for the stated alphabet and lengths; refutes otherwise.')
LEVEL_NOTE = ('Trusted: a freshly opened listing with index set once as the definition of "what the listing shows at that time" '
              '(that such a listing shows what is printed is C05\'s subject).')
TECHNIQUE = ('exhaustive bounded enumeration of action sequences + Hypothesis-generated action lists (model-based: abstract '
             'index model + fresh-instance reference), including truncated copies')
