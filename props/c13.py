"""C13 - initial-conditions file write/read round trip preserves every block's state."""
import os, math, functools
from hypothesis import strategies as st
from vlib.core import Search, HarnessError
from vlib import core
from refs import incon_ref, ffmt

ID = 'C13'
CASE_TIMEOUT = 60
RULE = ('gen: 0..40 blocks x 1..12 primary variables (same count in every block; num_variables passed when >4, '
        'either way when <=4) x values (negative, zero, 3-digit exponents, full 14-digit mantissas) x porosity '
        'present/absent x nseq/nadd present/absent x TOUGHREACT permeabilities on some/all/no blocks x timing '
        'present/absent x reset on/off x names from geometries of all 4 naming conventions, (A3,I2)-quirk names and '
        'free names with check_blocknames off; legs: lib write -> lib read (model comparison), second write '
        'byte-identical, lib write -> independent reader, independent Fortran-style writer (E / D / dropped-letter '
        'exponents, simulator-printed names) -> lib read; shipped: the 7 shipped files vs their .npy arrays, the '
        'independent reader and a write/read/write cycle. Non-trivial = >=1 block and (a negative or 3-digit-exponent '
        'value, >4 variables, permeabilities, timing kept, or a quirk name); distinct = distinct case JSON.'
        ' Also: the written object may already have been written once elsewhere (with or without reset).'
        ' Rounds 7-10: NSEQ / NADD independently present; another set refused earlier in the process; sets built through insert / delete / replace edits; the reused reader held up to 8 variables per block before.')
ASSUMPTIONS = ['every block of one file has the same number of primary variables (reader contract)',
               'TOUGHREACT flavour only when at least one block carries permeabilities (the format has no other marker)',
               'values that do not fit 20.13e are allowed to lose digits (C02), never to change otherwise']

CONV_GEO = [(0, 3, 3, 12), (1, 4, 3, 3), (2, 12, 10, 3), (0, 2, 2, 3)]


@functools.lru_cache(maxsize=None)
def geometry_names():
    """Block names from rectangular geometries of all conventions / atmosphere types."""
    import mulgrids, numpy as np
    names = []
    for conv in (0, 1, 2):
        for atm in (0, 1, 2):
            nx, ny, nz = {0: (4, 3, 12), 1: (8, 9, 3), 2: (12, 11, 3)}[conv]
            g = mulgrids.mulgrid().rectangular([10.] * nx, [10.] * ny, [5.] * nz, convention=conv,
                                               atmos_type=atm)
            names += list(g.block_name_list)
    seen, out = set(), []
    for n in names:
        if n not in seen:
            seen.add(n); out.append(n)
    return out


QUIRK = ['ab1 5', 'ab105', ' a1 1', 'AB 01', 'abc05', 'abc 5', 'a 100', '  1 1', 'AA1 0', 'zz905', 'AB100', 'KA  1', ' 12 3']


def finite(lo, hi):
    return st.floats(min_value=lo, max_value=hi, allow_nan=False, allow_infinity=False)


def value():
    return st.one_of(
        finite(-1e7, 1e7), finite(0.0, 1.0), finite(1e4, 1e8),
        st.sampled_from([0.0, 1.013e5, 20.0, -1.0, 1e-100, -1e-100, 1.5e100, -2.5e+101, 9.9999999999999995e-101,
                         1e-99, -1e-99, 0.99999999999999989, 1.2345678901234567e5, -9.9999999999999e9, 5e-324,
                         # too wide for the field AND rounding up to the next power of ten when a decimal is dropped
                         # (the exponent then loses a digit: -9.99..e-100 -> -1.00..e-99)
                         -9.9999999999999e-100, -9.99999999999996e-100, -9.9999999999999e+99, -9.99999999999997e-10]),
        st.builds(lambda m, e, s: s * float('%.17ge%d' % (m, e)), finite(1.0, 9.999999999999998),
                  st.integers(-120, 120), st.sampled_from([1, -1])))


_S = {}


def S(name, make):
    """strategies are built once: constructing them inside a composite costs more than drawing"""
    if name not in _S: _S[name] = make()
    return _S[name]


@st.composite
def gen_case(draw):
    pool = geometry_names()
    VALUE = S('value', value)
    POOL = S('pool', lambda: st.sampled_from(pool))
    QUIRKS = S('quirk', lambda: st.sampled_from(QUIRK))
    POR = S('por', lambda: st.one_of(st.none(), finite(0.0, 1.0), st.sampled_from([0.0, 1.0, 0.1, 1e-100])))
    PERM = S('perm', lambda: st.one_of(finite(1e-20, 1e-9), st.sampled_from([0.0, 1e-15, 6.51e-14])))
    BOOL = S('bool', st.booleans)
    K10 = S('k10', lambda: st.integers(0, 9))
    NSEQ = S('nseq', lambda: st.integers(0, 99999)); NADD = S('nadd', lambda: st.integers(-9999, 99999))
    nb = draw(st.sampled_from([0, 1, 1, 2, 3, 5, 8, 13, 40]))
    nv = draw(st.integers(1, 12))
    check = draw(st.sampled_from([True, True, False]))
    toughreact = draw(st.sampled_from([False, False, True]))
    names, used = [], set()
    while len(names) < nb:
        kind = draw(K10)
        if kind <= 5: n = draw(POOL)
        elif kind <= 7: n = draw(QUIRKS)
        elif check:
            n = draw(st.text(alphabet='abzAZ 09.-', min_size=3, max_size=3)) + \
                draw(st.sampled_from(' 0123456789')) + draw(st.sampled_from('0123456789'))
        else:
            n = draw(st.text(alphabet='abzAZ 09.-_#', min_size=4, max_size=4)) + draw(st.sampled_from('abzAZ09._#'))
        if n.strip() == '' or n.startswith('+++'): continue
        key = incon_ref.quirk_repair(incon_ref.a3i2_print(n))
        if key in used or n in used: continue
        used.add(key); used.add(n); names.append(n)
    blocks = []
    anyperm = False
    for n in names:
        b = {'name': n, 'vars': [draw(VALUE) for _ in range(nv)]}
        b['por'] = draw(POR)
        if draw(BOOL):
            b['nseq'], b['nadd'] = draw(NSEQ), draw(NADD)
            # the two are separate optional fields of the record: either may be there without the other
            one = draw(st.integers(0, 5))
            if one == 0: b['nseq'] = None
            elif one == 1: b['nadd'] = None
        else:
            b['nseq'], b['nadd'] = None, None
        if toughreact and draw(st.integers(0, 3)) > 0:
            b['perm'] = [draw(PERM) for _ in range(3)]
            anyperm = True
        else:
            b['perm'] = None
        blocks.append(b)
    if toughreact and not anyperm:
        if blocks: blocks[0]['perm'] = [1e-15, 2e-15, 3.5e-16]
        else: toughreact = False
    timing = None
    if draw(st.booleans()):
        lim = (999999, 999999, 999) if toughreact else (99999, 99999, 99999)
        timing = {'kcyc': draw(st.integers(0, lim[0])), 'iter': draw(st.integers(0, lim[1])),
                  'nm': draw(st.integers(0, lim[2])),
                  'tstart': draw(st.one_of(st.just(0.0), finite(0.0, 1e12))),
                  'sumtim': draw(st.one_of(st.just(0.0), finite(0.0, 1e15), st.just(1.5e100),
                                           # a time whose seventh significant digit is decided differently by the 9-decimal timing
                                           # record and by the 6-decimal header (double rounding when a file is re-written)
                                           st.builds(lambda d, f, e, tail: float('%d.%06d%se%d' % (d, f, tail, e)), st.integers(1, 9),
                                                     st.integers(0, 999999), st.integers(0, 14), st.sampled_from(['4999996', '5000004', '4999994']))))}
    return {'k': 'gen', 'blocks': blocks, 'nv': nv, 'pass_nv': (nv > 4) or draw(st.booleans()),
            'check': check, 'toughreact': toughreact, 'timing': timing, 'reset': draw(st.booleans()), 'prewrite': draw(st.sampled_from([None, None, 'reset', 'keep'])), 'refused_first': draw(st.integers(0, 4)) == 0,
            'built_by': draw(st.sampled_from(['add', 'add', 'insert-front', 'delete-readd', 'edit'])),
            'style': draw(st.sampled_from(['E', 'D', 'e'])),
            'reuse': draw(st.sampled_from([None, None, 'TOUGH2', 'TOUGHREACT']))}


def shipped_files():
    base = os.path.join(core.REPO, 'tests', 'incon')
    out = []
    for root, dirs, files in sorted(os.walk(base)):
        for f in sorted(files):
            if not f.endswith('.npy'):
                out.append(os.path.relpath(os.path.join(root, f), core.REPO))
    return out


def searches(tier):
    q = tier == 'quick'
    big = lambda p: os.path.getsize(os.path.join(core.REPO, p)) > 200000
    return [Search('shipped', 'enum', lambda: [{'k': 'shipped', 'file': p} for p in shipped_files()
                                               if not (q and big(p))], shards=4),
            Search('generated', 'hyp', gen_case, n=4000 if q else 80000, shards=8 if q else 16)]


def feq(a, b):
    if a is None or b is None: return a is None and b is None
    return float(a) == float(b)


def close(a, b, rel):
    if a is None or b is None: return a is None and b is None
    if a == b: return True
    return abs(a - b) <= rel * max(abs(a), abs(b))


def compare_blocks(R, tag, got, exp, tol_var=None):
    """got: list of t2blockincon, exp: list of dict(name, vars, por, perm, nseq, nadd) with exact expected values."""
    if not R.check(len(got) == len(exp), tag + ':block-count', 'read %d blocks, expected %d' % (len(got), len(exp))):
        return
    for i, (g, e) in enumerate(zip(got, exp)):
        R.check(g.block == e['name'], tag + ':name', 'block %d: %r expected %r' % (i, g.block, e['name']))
        gv = list(g.variable)
        if R.check(len(gv) == len(e['vars']), tag + ':nvars',
                   'block %d (%r): %d variables, expected %d' % (i, g.block, len(gv), len(e['vars']))):
            for j, (a, b) in enumerate(zip(gv, e['vars'])):
                R.check(feq(a, b), tag + ':variable', 'block %d var %d: %r expected %r' % (i, j, a, b))
        R.check(feq(g.porosity, e['por']), tag + ':porosity', 'block %d: %r expected %r' % (i, g.porosity, e['por']))
        if e['perm'] is None:
            R.check(g.permeability is None, tag + ':permeability', 'block %d: %r expected None' % (i, g.permeability))
        else:
            ok = g.permeability is not None and len(g.permeability) == 3 and \
                all(feq(a, b) for a, b in zip(g.permeability, e['perm']))
            R.check(ok, tag + ':permeability', 'block %d: %r expected %r' % (i, g.permeability, e['perm']))
        R.check(g.nseq == e['nseq'] and g.nadd == e['nadd'], tag + ':nseq-nadd',
                'block %d: %r,%r expected %r,%r' % (i, g.nseq, g.nadd, e['nseq'], e['nadd']))


def expected_after_lib_write(b):
    """What the printed digits of the library's own formats mean (own formatting model)."""
    return {'name': incon_ref.quirk_repair(incon_ref.a3i2_print(b['name'])),
            'vars': [ffmt.py_e_expected(v, 20, 13) for v in b['vars']],
            'por': ffmt.py_e_expected(b['por'], 15, 9),
            'perm': None if b['perm'] is None else [ffmt.py_e_expected(k, 15, 9) for k in b['perm']],
            'nseq': b['nseq'], 'nadd': b['nadd']}


def build(case):
    import t2incons, numpy as np
    inc = t2incons.t2incon()
    how = case.get('built_by', 'add')
    blocks = case['blocks'] if how in ('add', 'edit') else case['blocks'][::-1]
    for k, b in enumerate(blocks):
        perm = None if b['perm'] is None else np.array(b['perm'])
        bi = t2incons.t2blockincon(list(b['vars']), b['name'], b['por'], perm, b['nseq'], b['nadd'])
        if how in ('add', 'edit'): inc.add_incon(bi)
        elif how == 'insert-front': inc.insert_incon(0, bi)          # same set, same final order, reached by insertion at the front
        else:                                                       # 'delete-readd': appended in reverse, then each moved to its place
            inc.add_incon(bi)
    if how == 'edit':
        # the set reached through deletions and replacements: two stand-ins inserted next to each other in the middle and
        # deleted again (neighbours, one after the other), a stand-in at the front deleted, and the block that followed each
        # deleted one replaced by itself (assignment under a name already present keeps the block's place)
        names = [b['name'] for b in case['blocks']]
        mid = len(names) // 2
        for k, nm in enumerate(('~~~~1', '~~~~2', '~~~~3')):
            inc.insert_incon(0 if k == 2 else mid + k, t2incons.t2blockincon([1.0] * len(case['blocks'][0]['vars']) if case['blocks'] else [1.0], nm))
        inc.delete_incon('~~~~3')
        if names: inc[names[0]] = inc[names[0]]
        inc.delete_incon('~~~~1'); inc.delete_incon('~~~~2')
        if mid < len(names): inc[names[mid]] = inc[names[mid]]
        if names: inc[names[-1]] = inc[names[-1]]
    if how == 'delete-readd':
        for b in case['blocks']:
            bi = inc[b['name']]; inc.delete_incon(b['name']); inc.add_incon(bi)
    if case['toughreact']: inc.simulator = 'TOUGHREACT'
    if case['timing'] is not None: inc.timing = dict(case['timing'])
    return inc


def check_timing(R, tag, got, exp, keep):
    if not keep:
        R.check(got is None, tag + ':timing-after-reset', 'timing %r after a reset write' % (got,))
        return
    if not R.check(got is not None, tag + ':timing-lost', 'timing not read back'): return
    for k in ('kcyc', 'iter', 'nm'):
        R.check(got[k] == exp[k], tag + ':timing', '%s: %r expected %r' % (k, got[k], exp[k]))
    for k in ('tstart', 'sumtim'):
        R.check(feq(got[k], exp[k]), tag + ':timing', '%s: %r expected %r' % (k, got[k], exp[k]))


def run_gen(case, R):
    import t2incons
    blocks, nv = case['blocks'], case['nv']
    nvarg = nv if case['pass_nv'] else None
    keep = case['timing'] is not None and not case['reset']
    R.label('nv:%d' % nv, 'blocks:%d' % len(blocks), 'toughreact' if case['toughreact'] else 'tough2',
            'timing-kept' if keep else ('timing-reset' if case['timing'] is not None else 'no-timing'))
    flat = [v for b in blocks for v in b['vars']]
    neg = any(v < 0 for v in flat)
    e3 = any(v != 0 and (abs(v) >= 1e100 or abs(v) < 1e-99) for v in flat)
    quirk = any(incon_ref.a3i2_print(b['name']) != b['name'] for b in blocks)
    if neg: R.label('negative-value')
    if e3: R.label('3-digit-exponent')
    if quirk: R.label('quirk-name')
    if any(b['por'] is None for b in blocks): R.label('porosity-absent')
    if any(b['nseq'] is not None for b in blocks): R.label('nseq-present')
    if any((b['nseq'] is None) != (b['nadd'] is None) for b in blocks): R.label('nseq-nadd:one-without-the-other')
    R.nontrivial(bool(blocks) and (neg or e3 or nv > 4 or case['toughreact'] or keep or quirk))
    exp = [expected_after_lib_write(b) for b in blocks]
    # sanity of the generator: repaired names distinct
    if len(set(e['name'] for e in exp)) != len(exp): raise HarnessError('generator produced colliding names')
    f1, f2, f3 = (os.path.join(R.tmp, n) for n in ('a.incon', 'b.incon', 'c.incon'))
    # leg 1: lib -> lib
    if case.get('refused_first'):
        # call history across objects: another set, one of whose records cannot be written (a sequence number wider than
        # its five columns), was refused - loudly - in this process before; nothing of it may turn up in later files
        import t2incons
        other = t2incons.t2incon()
        other['  z 1'] = t2incons.t2blockincon([1.0e5, 20.0], '  z 1')
        other['  z 2'] = t2incons.t2blockincon([2.0e5, 30.0], '  z 2', nseq=123456, nadd=1)
        other['  z 3'] = t2incons.t2blockincon([3.0e5, 40.0], '  z 3')
        try:
            other.write(os.path.join(R.tmp, 'refused.incon'))
            R.label('history:unwritable-set-not-refused')
        except (ValueError, OverflowError):
            R.label('history:another-write-was-refused-before')
    with R.lib('write'):
        inc = build(case)
        if case.get('prewrite'):
            # call history on the writing side: the same set was already written once (elsewhere, with or without
            # reset); that must not change what the object is, nor what it writes now
            R.label('history:written-before-with-' + case['prewrite'])
            inc.write(os.path.join(R.tmp, 'earlier.incon'), reset=(case['prewrite'] == 'reset'))
        inc.write(f1, reset=case['reset'])
    reuse = case.get('reuse')
    with R.lib('read'):
        if reuse:
            # call history: the reading object has already read a file of the OTHER flavour (with timing);
            # nothing of that earlier file may survive in what it reports now
            R.label('history:reader-reused-after-' + reuse)
            f0 = os.path.join(R.tmp, 'other.incon')
            o = t2incons.t2incon()
            perm = __import__('numpy').array([1e-15, 2e-15, 3e-15]) if reuse == 'TOUGHREACT' else None
            # (the earlier file holds two blocks, one of them with more primary variables than one line takes)
            o.add_incon(t2incons.t2blockincon([1.0e5, 20.0, 0.5], 'zzz99', 0.1, perm))
            nprev = 3 + (len(blocks) + nv) % 6
            if nprev != 3:
                o = t2incons.t2incon()
                for nm_ in ('zzz98', 'zzz99'): o.add_incon(t2incons.t2blockincon([1.0e5 + k for k in range(nprev)], nm_, 0.1, perm))
            o.simulator = reuse
            o.timing = {'kcyc': 7, 'iter': 3, 'nm': 1, 'tstart': 0.0, 'sumtim': 86400.0}
            o.write(f0, reset=False)
            r = t2incons.t2incon(f0, num_variables=(nprev if nprev > 4 else None))
            R.label('history:earlier-file-had-%s-variables' % ('more-than-4' if nprev > 4 else 'up-to-4'))
            r.read(f1, num_variables=nvarg, check_blocknames=case['check'])
        else:
            r = t2incons.t2incon(f1, num_variables=nvarg, check_blocknames=case['check'])
    compare_blocks(R, 'libread', r[0:len(exp) + 5], exp)
    R.check(r.blocklist == [e['name'] for e in exp], 'libread:order', 'block order / names differ')
    if blocks:
        sim = 'TOUGHREACT' if case['toughreact'] else 'TOUGH2'
        R.check(r.simulator == sim, 'libread:simulator' + (':reused-reader' if reuse else ''), 'simulator %r expected %r' % (r.simulator, sim))
    texp = None
    if keep:
        texp = dict(case['timing'])
        texp['tstart'] = ffmt.py_e_expected(texp['tstart'], 15, 9)
        texp['sumtim'] = ffmt.py_e_expected(texp['sumtim'], 15, 9)
    check_timing(R, 'libread', r.timing, texp, keep)
    # full-precision clause: to 13 decimals when the value fits
    for b, e in zip(blocks, exp):
        for v, x in zip(b['vars'], e['vars']):
            if len('%20.13e' % v) <= 20 and not close(v, x, 5.1e-14):
                raise HarnessError('expected-value model lost precision: %r -> %r' % (v, x))
    # leg 2: second write reproduces the file byte for byte
    with R.lib('rewrite'):
        r.write(f2, reset=case['reset'])
    b1, b2 = open(f1, 'rb').read(), open(f2, 'rb').read()
    R.check(b1 == b2, 'rewrite:bytes-differ', lambda: 'first difference at byte %d: %r vs %r' % (
        next((i for i, (x, y) in enumerate(zip(b1, b2)) if x != y), min(len(b1), len(b2))),
        b1[:200], b2[:200]))
    # leg 3: lib -> independent reader (own column layout)
    try:
        ref = incon_ref.read(f1, nv if blocks else None)
    except Exception as e:
        R.fail('refread:unreadable', 'independent reader cannot parse the written file: %r' % (e,)); ref = None
    if ref is not None:
        if R.check(len(ref['blocks']) == len(blocks), 'refread:block-count',
                   '%d blocks in file, expected %d' % (len(ref['blocks']), len(blocks))):
            for i, (g, b, e) in enumerate(zip(ref['blocks'], blocks, exp)):
                R.check(g['name'] == incon_ref.a3i2_print(b['name']), 'refread:name',
                        'block %d written as %r, simulator form is %r' % (i, g['name'], incon_ref.a3i2_print(b['name'])))
                ok = len(g['vars']) == nv and all(feq(a, x) for a, x in zip(g['vars'], e['vars']))
                R.check(ok, 'refread:variable', 'block %d: file holds %r expected %r' % (i, g['vars'], e['vars']))
                R.check(feq(g['por'], e['por']), 'refread:porosity', 'block %d: %r expected %r' % (i, g['por'], e['por']))
                R.check((g['perm'] is None) == (e['perm'] is None) and
                        (g['perm'] is None or all(feq(a, x) for a, x in zip(g['perm'], e['perm']))),
                        'refread:permeability', 'block %d: %r expected %r' % (i, g['perm'], e['perm']))
                R.check(g['nseq'] == b['nseq'] and g['nadd'] == b['nadd'], 'refread:nseq-nadd',
                        'block %d: %r,%r' % (i, g['nseq'], g['nadd']))
        if keep and ref['timing'] is not None:
            for k in ('kcyc', 'iter', 'nm'):
                R.check(ref['timing'][k] == case['timing'][k], 'refread:timing', '%s %r' % (k, ref['timing'][k]))
        elif keep:
            R.fail('refread:timing', 'no timing record in the written file')
    # leg 4: independent Fortran-style writer -> lib
    rep = incon_ref.write(f3, blocks, case['timing'] if keep else None, case['toughreact'], case['style'])
    if any(x is None and v is not None for b, rr in zip(blocks, rep) for v, x in zip(b['vars'], rr['vars'])):
        R.label('fortran-overflow-skipped'); return
    with R.lib('read-fortran'):
        r3 = t2incons.t2incon(f3, num_variables=nvarg, check_blocknames=case['check'])
    exp3 = []
    for b, rr in zip(blocks, rep):
        exp3.append({'name': incon_ref.quirk_repair(incon_ref.a3i2_print(b['name'])), 'vars': rr['vars'],
                     'por': rr['por'], 'perm': rr['perm'], 'nseq': b['nseq'], 'nadd': b['nadd']})
    compare_blocks(R, 'fortranread', r3[0:len(exp3) + 5], exp3)
    if keep:
        t3 = dict(case['timing'])
        t3['tstart'] = ffmt.fort_e(t3['tstart'], 15, 8)[1]; t3['sumtim'] = ffmt.fort_e(t3['sumtim'], 15, 8)[1]
        check_timing(R, 'fortranread', r3.timing, t3, True)


def run_shipped(case, R):
    import t2incons, numpy as np
    path = os.path.join(core.REPO, case['file'])
    d = os.path.dirname(path)
    R.label('shipped'); R.nontrivial()
    var = np.load(os.path.join(d, 'variable.npy')) if os.path.exists(os.path.join(d, 'variable.npy')) else None
    nv = None
    if var is not None and var.shape[1] > 4: nv = int(var.shape[1])
    with R.lib('read-shipped'):
        inc = t2incons.t2incon(path, num_variables=nv)
    if var is not None:
        R.check(inc.variable.shape == var.shape and bool(np.all(inc.variable == var)), 'shipped:variable-npy',
                'variables differ from the stored array')
    for name, attr in (('porosity.npy', 'porosity'), ('permeability.npy', 'permeability')):
        p = os.path.join(d, name)
        if os.path.exists(p):
            a, b = np.load(p), getattr(inc, attr)
            ok = a.shape == b.shape and all(feq(x, y) or (x != x and y is None)
                                            for x, y in zip(a.astype(object).ravel(), b.astype(object).ravel()))
            R.check(ok, 'shipped:%s-npy' % attr, '%s differs from the stored array' % attr)
    # independent reader agrees on the shipped file
    ref = incon_ref.read(path, inc.num_variables if inc.num_blocks else None)
    exp = [{'name': incon_ref.quirk_repair(b['name']), 'vars': b['vars'], 'por': b['por'], 'perm': b['perm'],
            'nseq': b['nseq'], 'nadd': b['nadd']} for b in ref['blocks']]
    compare_blocks(R, 'shipped', inc[0:inc.num_blocks], exp)
    # round trip and stability
    f1, f2 = os.path.join(R.tmp, 'a'), os.path.join(R.tmp, 'b')
    for reset in (True, False):
        with R.lib('write'): inc.write(f1, reset=reset)
        with R.lib('read'): r = t2incons.t2incon(f1, num_variables=nv)
        exp2 = [{'name': g.block, 'vars': [ffmt.py_e_expected(v, 20, 13) for v in g.variable],
                 'por': ffmt.py_e_expected(g.porosity, 15, 9),
                 'perm': None if g.permeability is None else [ffmt.py_e_expected(k, 15, 9) for k in g.permeability],
                 'nseq': g.nseq, 'nadd': g.nadd} for g in inc[0:inc.num_blocks]]
        compare_blocks(R, 'shipped-roundtrip', r[0:r.num_blocks], exp2)
        R.check(r.simulator == inc.simulator, 'shipped-roundtrip:simulator', '%r vs %r' % (r.simulator, inc.simulator))
        if inc.timing is not None:
            check_timing(R, 'shipped-roundtrip', r.timing, inc.timing, not reset)
        with R.lib('rewrite'): r.write(f2, reset=reset)
        R.check(open(f1, 'rb').read() == open(f2, 'rb').read(), 'rewrite:bytes-differ', 'shipped %s' % case['file'])


def run_case(case, R):
    from vlib.hygiene import eof_guard, Hang
    try:
        with eof_guard():
            if case['k'] == 'gen': run_gen(case, R)
            else: run_shipped(case, R)
    except Hang as e:
        R.fail('hang:read-at-end-of-file', 'reader never returns on a file the library wrote itself: %s' % e)


LEVEL_TEXT = ('Generated initial-condition sets (Hypothesis) through four oracle legs - library round trip against the '
              'model, byte-identical rewrite, an independent reader with its own column layout, and an independent '
              'Fortran-style writer read by the library - plus the 7 shipped files against their stored arrays. Refutes only.')
LEVEL_NOTE = ('Trusted: refs/incon_ref.py + refs/ffmt.py (own INCON layout and Fortran formatting), refs/fnum.py; Python % '
              'formatting as the meaning of "13 decimals".')
TECHNIQUE = 'property-based testing (Hypothesis): round trip + differential against an independent INCON reader/writer'
