"""C17 - block, column, layer and node names are unique, well-formed and invertible."""
import os, itertools
from string import ascii_lowercase, ascii_uppercase, ascii_letters, digits
from hypothesis import strategies as st
from vlib.core import Search, HarnessError, Refused
from refs import names_ref as NR

ID = 'C17'
RULE = ('numbers: for every (convention 0-3, justify r/l, charset, spaces yes/no, kind column/node/layer) the integers '
        '0..20000 (thorough: up to capacity+50 where that is larger) in windows of 2000, one case per (configuration, window): '
        'each result is a string of the convention\'s length, over the charset, different from the names of all smaller '
        'integers, or NamingConventionError, and never a name again after an error. '
        'fix: every five-character name = 9 representative two-character prefixes x all 63^3 tails over letters/digits/blank, '
        'one case per (prefix, third character) = 3969 names. names: random five-character names (Hypothesis). '
        'keys: successive new_dict_key/new_column_name/new_node_name calls into dictionaries with drawn holes. '
        'geo: geometries from mulgrid.rectangular, mulgrid.from_gmsh (triangulated strip, so columns outnumber nodes) and '
        't2grid.radial with node/column/layer counts on both sides of every capacity of the configuration '
        '(99, 999, k+k^2+k^3, k^3, k+k^2, k^2 for k = charset size; the layer count next to the surface-layer name) x '
        'atmosphere types 0/1/2; geo_random: drawn configuration (also mixed-case/duplicate-letter charsets, deprecated '
        'case argument) and sizes (Hypothesis). Non-trivial = a numbers window containing a length or capacity boundary; '
        'a fix/names case where repair or un-repair changes the name; a geometry within 3 of a capacity or with an '
        'atmosphere block or with >= 100 columns; a key case with holes. distinct = distinct case JSON.'
        ' Also: search call_order = two letter fields (all ordered pairs of convention x kind) asked for the same numbers within one case; right-justified generated geometries are written, re-read with mulgrid(filename) and judged again; random geometries preceded by one of another convention.'
        ' Rounds 7-10: convention switched through the property on a built geometry and back; surface layer renamed then refine_layers(); columns split until the names run out (fresh name or naming error).')
ASSUMPTIONS = ['the simulator prints a name through (A3,I2): I2 output is right-justified, blank padded (refs/names_ref.py); '
               'no prediction is made for names whose last two characters are digit+blank, two blanks (ambiguous under '
               'Fortran blank handling) - for names containing a letter there the printed form is taken to be the name itself',
               '"name space exhausted" is taken literally: an error is a violation while a name of the convention\'s length '
               'over the charset still exists for that integer under the documented numbering (letters with blanks: bijective '
               'numerals; spaces=False: first letter acts as zero; numeric fields: decimal)',
               'character sets are alphabetic with at least two distinct letters']

LOWER, UPPER = ascii_lowercase, ascii_uppercase
CHARSETS_Q = [LOWER, UPPER, 'xyz', 'atmxz']
CHARSETS_T = CHARSETS_Q + [LOWER + UPPER, 'ab', 'AtZ', 'ATMatm', 'bcdfghjklm']
SURFACE_LAYER = {0: ' 0', 1: 'atm', 2: 'at', 3: ' 0'}     # documented in the geometry file description
TOP_N = 20000
WINDOW = 2000
ALPHA63 = ascii_letters + digits + ' '
PREFIXES = ['AB', 'a1', '1a', '12', ' a', 'a ', '  ', ' 1', '1 ']
RAISED = '<NamingConventionError>'


# ----------------------------------------------------------------------
# model side

def eff_chars(chars, case=None):
    if case is not None:
        chars = chars.lower() if case == 'l' else chars.upper()
    return NR.ordered_unique(chars)


def caps(conv, chars, spaces):
    """(column/node capacity, layer capacity, effective number of subsurface layers)."""
    k = len(chars)
    colcap = NR.capacity(conv, 'column', k, spaces)
    laycap = NR.capacity(conv, 'layer', k, spaces)
    typ, L = NR.field(conv, 'layer')
    surf = SURFACE_LAYER[conv]
    skip = typ == 'letters' and len(surf) == L and all(c in chars for c in surf)
    return colcap, laycap, laycap - (1 if skip else 0)


def surface_index(conv, chars, spaces):
    typ, L = NR.field(conv, 'layer')
    if typ != 'letters': return None
    return NR.letter_index(SURFACE_LAYER[conv], chars, spaces)


def boundaries(conv, kind, chars, spaces):
    typ, L = NR.field(conv, kind)
    k = len(chars)
    b = {0, 1}
    if typ == 'digits':
        for j in range(1, L + 1): b.update((10 ** j - 1, 10 ** j))
    else:
        for j in range(1, L + 1):
            c = NR.letters_capacity(k, j, spaces)
            b.update((c, c + 1))
    return b


# ----------------------------------------------------------------------
# case generation

def configs(charsets):
    for conv in range(4):
        for just in 'rl':
            for chars in charsets:
                for spaces in (True, False):
                    yield conv, just, chars, spaces


def num_cases(tier):
    charsets = CHARSETS_Q if tier == 'quick' else CHARSETS_T
    cfgs = [(c, j, ch, sp, kind) for (c, j, ch, sp) in configs(charsets) for kind in ('column', 'node', 'layer')]

    def top(cfg):
        conv, just, chars, spaces, kind = cfg
        if tier == 'quick': return TOP_N
        cap = NR.capacity(conv, kind, len(chars), spaces)
        return max(TOP_N, min(cap + 50, 160000))

    def g():
        lo = 0
        while True:
            live = False
            for cfg in cfgs:
                t = top(cfg)
                if lo > t: continue
                live = True
                conv, just, chars, spaces, kind = cfg
                yield {'k': 'num', 'conv': conv, 'just': just, 'chars': chars, 'spaces': spaces, 'kind': kind,
                       'lo': lo, 'hi': min(lo + WINDOW, t + 1)}
            if not live: return
            lo += WINDOW
    return g


LETTER_FIELDS = [(0, 'column'), (0, 'node'), (1, 'layer'), (2, 'layer'), (3, 'column'), (3, 'layer')]


def order_cases(tier):
    """name generation under call history: the same numbers asked for two letter fields (of equal or different
    length, same or different convention) one after the other, in both orders, in ONE case - so that anything
    remembered between calls shows up from the case alone"""
    charsets = CHARSETS_Q if tier == 'quick' else CHARSETS_T
    def g():
        for a in LETTER_FIELDS:
            for b in LETTER_FIELDS:
                if a == b: continue
                for chars in charsets:
                    for spaces in (True, False):
                        for just in 'rl':
                            yield {'k': 'order', 'seq': [list(a), list(b)], 'chars': chars, 'spaces': spaces, 'just': just}
    return g


def fix_cases():
    for p in PREFIXES:
        for c3 in ALPHA63:
            yield {'k': 'fix', 'prefix': p, 'c3': c3}


def key_cases(tier):
    charsets = CHARSETS_Q if tier == 'quick' else CHARSETS_T
    def g():
        for conv, just, chars, spaces in configs(charsets):
            k = len(chars)
            for what in ('column', 'node', 'raw'):
                L = 5 if what == 'raw' else NR.field(conv, 'column')[1]
                cap = NR.letters_capacity(k, L, spaces)
                small = cap <= 400
                for pre in ([], list(range(1, 12)), list(range(2, 61, 2)), [1, 2, 3, 5, 8, 13, 21, 34, 55]):
                    pre = [n for n in pre if n <= cap]
                    yield {'k': 'key', 'conv': conv, 'just': just, 'chars': chars, 'spaces': spaces, 'what': what,
                           'length': L, 'pre': pre, 'istart': 0, 'calls': (cap + 4) if small else 70}
                yield {'k': 'key', 'conv': conv, 'just': just, 'chars': chars, 'spaces': spaces, 'what': what,
                       'length': L, 'pre': [4, 5, 9], 'istart': 3, 'calls': 12}
    return g


def strip_shape(m, cap):
    """(nx, ny) of a triangulated rectangle with >= m triangles and <= cap nodes, or None."""
    best = None
    for ny in range(1, 200):
        nx = -(-m // (2 * ny))
        if nx < ny: break
        if (nx + 1) * (ny + 1) <= cap:
            if best is None or (nx + 1) * (ny + 1) < (best[0] + 1) * (best[1] + 1): best = (nx, ny)
    return best


def geo_sizes(conv, chars, spaces, tier):
    """Sizes on both sides of every capacity of this configuration: (how, nx, ny, nz, m)."""
    q = tier == 'quick'
    colcap, laycap, layeff = caps(conv, chars, spaces)
    out = []
    # --- column dimension
    # rectangular: nodes (nx+1)(ny+1) are named with the column scheme and run out first
    for ny in (1, 2):
        nx = colcap // (ny + 1) - 1
        if nx >= 1:
            out += [('rect', nx, ny, 1, None), ('rect', nx + 1, ny, 1, None)]
    out += [('rect', 1, 1, 1, None), ('rect', 3, 2, 2, None)]
    # radial: columns without nodes, exactly at the column capacity
    out += [('radial', colcap, 1, 1, None), ('radial', colcap + 1, 1, 1, None), ('radial', 3, 1, 3, None),
            ('radial', min(colcap, 30), 1, 2, None)]
    # gmsh: triangles outnumber nodes
    for m in (colcap, colcap + 1):
        sh = strip_shape(m, colcap)
        if sh: out.append(('gmsh', sh[0], sh[1], 1, m))
    out.append(('gmsh', 3, 2, 2, 12))
    # --- layer dimension
    nzs = {layeff, layeff + 1, layeff - 1, min(layeff, 7)}
    si = surface_index(conv, chars, spaces)
    if si is not None: nzs.update((si - 1, si, si + 1))
    for nz in sorted(nzs):
        if nz < 1: continue
        if q and nz > 1500: continue
        out.append(('rect', 2, 1, nz, None))
        out.append(('radial', 2, 1, nz, None))
    if layeff <= 1500 or not q:
        out.append(('gmsh', 2, 1, layeff, 4)); out.append(('gmsh', 2, 1, layeff + 1, 4))
    return out


def geo_cases(tier):
    charsets = CHARSETS_Q if tier == 'quick' else CHARSETS_T
    def g():
        idx = 0
        for conv, just, chars, spaces in configs(charsets):
            for (how, nx, ny, nz, m) in geo_sizes(conv, chars, spaces, tier):
                big = max(nx * ny, m or 0) * max(nz, 1) > 4000
                atms = (0, 1, 2)
                if big and tier == 'quick':
                    atms = (idx % 3,); idx += 1
                for atm in atms:
                    c = {'k': 'geo', 'how': how, 'conv': conv, 'atm': atm, 'just': just, 'chars': chars,
                         'spaces': spaces, 'nx': nx, 'ny': ny, 'nz': nz}
                    if how == 'gmsh':
                        c['m'] = m; c['fmt'] = '2.2' if (conv + atm + len(chars)) % 2 else '4.1'
                    if how == 'rect' and not big and (nx + ny + nz + atm) % 3 == 0: c['switch'] = (nx + atm) % 2
                    if how == 'rect' and not big and (nx + ny + nz + atm) % 5 == 1: c['relayer'] = True
                    yield c
    return g


@st.composite
def name_case(draw):
    alpha = draw(st.sampled_from([ALPHA63, ALPHA63, digits + ' ', digits + ' ab', ALPHA63 + ALPHA63[-11:] * 3]))
    if draw(st.integers(0, 2)) == 0:
        # numbered names: any two characters, then three characters over digits/blank (where fix/unfix act)
        name = draw(st.text(alphabet=ALPHA63, min_size=2, max_size=2)) + \
            draw(st.text(alphabet=digits + ' ', min_size=3, max_size=3))
    else:
        name = draw(st.text(alphabet=alpha, min_size=5, max_size=5))
    return {'k': 'name', 'name': name}


@st.composite
def uniq_case(draw):
    return {'k': 'uniq', 's': draw(st.text(alphabet=draw(st.sampled_from(['abc', ascii_letters, 'aAbB'])), max_size=30))}


@st.composite
def charset(draw):
    kind = draw(st.integers(0, 9))
    if kind <= 1: return LOWER
    if kind == 2: return UPPER
    if kind == 3: return draw(st.sampled_from(['xyz', 'atmxz', 'ab', 'ATMatm', LOWER + UPPER, 'tam', 'AT']))
    s = draw(st.text(alphabet=ascii_letters if kind < 8 else 'atmATMxy', min_size=2, max_size=9))
    if len(set(s)) < 2: s += 'qz'
    return s      # may contain duplicate letters


@st.composite
def geo_random(draw):
    conv = draw(st.integers(0, 3)); atm = draw(st.integers(0, 2))
    just = draw(st.sampled_from('rl')); chars = draw(charset()); spaces = draw(st.booleans())
    case = draw(st.sampled_from([None, None, None, 'u', 'l']))
    how = draw(st.sampled_from(['rect', 'rect', 'radial', 'gmsh']))
    if how != 'rect': case = None if how == 'gmsh' else case
    ec = eff_chars(chars, case)
    if len(ec) < 2: case = None; ec = eff_chars(chars)
    colcap, laycap, layeff = caps(conv, ec, spaces)
    limit = 2500 if draw(st.integers(0, 7)) else 20000

    def near(cap, lo=1):
        mode = draw(st.integers(0, 3))
        if mode == 1: return draw(st.integers(lo, max(lo, min(cap + 3, limit))))
        if mode == 0 or cap > limit: return draw(st.integers(lo, max(lo, min(cap, 40))))
        return max(lo, cap + draw(st.integers(-3, 3)))
    c = {'k': 'geo', 'how': how, 'conv': conv, 'atm': atm, 'just': just, 'chars': chars, 'spaces': spaces}
    if case is not None: c['case'] = case
    warm = draw(st.sampled_from([None, None, 0, 1, 2, 3]))
    if warm is not None and warm != conv: c['warm'] = warm
    if how != 'radial' and draw(st.integers(0, 3)) == 0: c['switch'] = draw(st.integers(0, 1))
    if how == 'rect' and draw(st.integers(0, 4)) == 0: c['relayer'] = True
    nzmode = draw(st.integers(0, 2))
    nz = near(layeff) if nzmode == 0 else draw(st.integers(1, 6))
    if how == 'rect':
        ny = draw(st.sampled_from([1, 1, 2, 3, 5, 12]))
        nodes = near(colcap, lo=4)
        nx = max(1, -(-nodes // (ny + 1)) - 1 + draw(st.integers(-1, 0)))
        if nz > 200: nx, ny = min(nx, 3), 1
        c.update(nx=nx, ny=ny, nz=nz)
    elif how == 'radial':
        nr = near(colcap)
        if nz > 200: nr = min(nr, 3)
        c.update(nx=nr, ny=1, nz=nz)
    else:
        m = near(colcap)
        if nz > 200: m = min(m, 4)
        sh = strip_shape(m, max(colcap, 6)) or (max(1, -(-m // 2)), 1)
        c.update(nx=sh[0], ny=sh[1], nz=nz, m=m, fmt=draw(st.sampled_from(['2.2', '4.1'])))
    return c


def searches(tier):
    q = tier == 'quick'
    return [
        Search('numbers', 'enum', num_cases(tier), shards=16),
        Search('call_order', 'enum', order_cases(tier), shards=16),
        Search('fix_unfix', 'enum', fix_cases, shards=16),
        Search('keys', 'enum', key_cases(tier), shards=8 if q else 16),
        Search('split_until_names_run_out', 'enum', split_cases, shards=4),
        Search('geometries', 'enum', geo_cases(tier), shards=16),
        Search('names_random', 'hyp', name_case, n=4000 if q else 400000, shards=2 if q else 16),
        Search('uniqstring', 'hyp', uniq_case, n=400 if q else 20000, shards=1 if q else 4),
        Search('geo_random', 'hyp', geo_random, n=640 if q else 40000, shards=16),
    ]


# ----------------------------------------------------------------------
# oracle

_cache = {}
JUST = {'r': str.rjust, 'l': str.ljust}


def _geo_for(conv):
    key = ('geo', conv)
    if key not in _cache:
        import mulgrids
        _cache[key] = mulgrids.mulgrid(convention=conv)
    return _cache[key]


def _num_results(case, upto):
    """Results of <kind>_name_from_number for 0..upto-1 (the functions are pure: cached per process)."""
    import mulgrids
    key = ('num', case['conv'], case['just'], case['chars'], case['spaces'], case['kind'])
    lst = _cache.setdefault(key, [])
    if len(lst) < upto:
        fn = getattr(_geo_for(case['conv']), case['kind'] + '_name_from_number')
        justfn, chars, spaces = JUST[case['just']], case['chars'], case['spaces']
        for n in range(len(lst), upto):
            try:
                lst.append(fn(n, justfn, chars, spaces))
            except mulgrids.NamingConventionError:
                lst.append(RAISED)
            except RecursionError:
                lst.append(('exc', 'RecursionError', ''))
            except Exception as e:
                lst.append(('exc', type(e).__name__, str(e)[:200]))
    return lst


def check_name_form(R, name, typ, L, chars, spaces, just, what, justified):
    """length / alphabet / justification of one generated name; returns False on a finding."""
    if not isinstance(name, str):
        R.fail('type:' + what, '%s name %r is not a string' % (what, name)); return False
    ok = R.check(len(name) == L, 'length:' + what,
                 '%s name %r has %d characters, the convention has %d' % (what, name, len(name), L))
    if typ == 'letters':
        allowed = chars + (' ' if spaces else '')
        ok &= bool(R.check(all(c in allowed for c in name), 'alphabet:' + what + (':space' if not spaces else ''),
                           '%s name %r uses characters outside %r (spaces=%r)' % (what, name, chars, spaces)))
        if justified and spaces and len(name) == L:
            s = name.strip(' ')
            want = s.rjust(L) if just == 'r' else s.ljust(L)
            ok &= bool(R.check(name == want, 'justify:' + what,
                               '%s name %r is not %s-justified' % (what, name, 'right' if just == 'r' else 'left')))
    else:
        ok &= bool(R.check(all(c in digits + ' ' for c in name) and name.strip(' ').isdigit(), 'alphabet:' + what,
                           '%s name %r is not a number' % (what, name)))
    return ok


def doc_justified(conv, kind):
    """justify is documented for "the character part of the block names (first three characters)"."""
    return (conv in (0, 3) and kind in ('column', 'node')) or (conv == 1 and kind == 'layer')


def run_num(case, R):
    conv, kind, chars, spaces, just = case['conv'], case['kind'], case['chars'], case['spaces'], case['just']
    lo, hi = case['lo'], case['hi']
    typ, L = NR.field(conv, kind)
    cap = NR.capacity(conv, kind, len(chars), spaces)
    res = _num_results(case, hi)
    R.label('num:conv%d:%s:%s' % (conv, kind, typ))
    b = boundaries(conv, kind, chars, spaces)
    if any(lo <= x < hi for x in b): R.nontrivial()
    if lo <= cap + 1 < hi: R.label('num:crosses-capacity')
    seen = {}
    first_raise = None
    for n in range(0, lo):
        v = res[n]
        if v == RAISED:
            if first_raise is None: first_raise = n
        elif isinstance(v, str): seen.setdefault(v, n)
    bad = 0
    for n in range(lo, hi):
        v = res[n]
        if bad > 20: break
        if isinstance(v, tuple):
            R.fail('exc:%s_name_from_number:%s' % (kind, v[1]), 'n=%d raised %s %s' % (n, v[1], v[2])); bad += 1
            continue
        if v == RAISED:
            if first_raise is None: first_raise = n
            if n <= cap:
                bad += 1
                R.fail('capacity:refused-early:' + kind,
                       '%s number %d refused although %d names of %d %s exist (convention %d, chars %r, spaces %r)' % (
                           kind, n, cap, L, typ, conv, chars, spaces))
            continue
        if first_raise is not None:
            bad += 1
            R.fail('raise:not-monotone:' + kind, '%s number %d gets name %r although number %d was refused' % (
                kind, n, v, first_raise))
        if not check_name_form(R, v, typ, L, chars, spaces, just, kind, doc_justified(conv, kind)): bad += 1
        if isinstance(v, str):
            if v in seen:
                bad += 1
                R.fail('duplicate:' + kind, '%s numbers %d and %d both get the name %r (convention %d, chars %r, '
                       'spaces %r, justify %r)' % (kind, seen[v], n, v, conv, chars, spaces, just))
            else: seen[v] = n


def run_order(case, R):
    import mulgrids
    chars, spaces, just = case['chars'], case['spaces'], case['just']
    R.label('order:%s' % '>'.join('%d%s' % (c, k[0]) for c, k in case['seq']))
    lens = set(NR.field(c, k)[1] for c, k in case['seq'])
    R.nontrivial(len(lens) > 1)
    for conv, kind in case['seq']:
        typ, L = NR.field(conv, kind)
        cap = NR.capacity(conv, kind, len(chars), spaces)
        fn = getattr(mulgrids.mulgrid(convention=conv), kind + '_name_from_number')
        nums = list(range(0, 80)) + [n for n in range(cap - 3, cap + 3) if n >= 80]
        seen = {}
        for n in nums:
            try:
                with R.lib('%s_name_from_number' % kind, accept=(mulgrids.NamingConventionError,)):
                    v = fn(n, JUST[just], chars, spaces)
            except Refused:
                R.check(n > cap, 'capacity:refused-early:' + kind,
                        '%s number %d refused although %d names exist (convention %d, chars %r, spaces %r), after calls %r' % (
                            kind, n, cap, conv, chars, spaces, case['seq']))
                continue
            if not check_name_form(R, v, typ, L, chars, spaces, just, kind, doc_justified(conv, kind)): return
            if v in seen:
                R.fail('duplicate:' + kind, '%s numbers %d and %d both get %r' % (kind, seen[v], n, v)); return
            seen[v] = n


def judge_name(R, name, fix, unfix):
    """All fix/unfix assertions for one five-character name; returns True when fix or unfix acts."""
    f = fix(name)
    if not (isinstance(f, str) and len(f) == 5):
        R.fail('fix:not-5-characters', 'fix_blockname(%r) = %r' % (name, f)); return False
    ff = fix(f)
    R.check(ff == f, 'fix:not-idempotent', 'fix(%r) = %r but fix of that = %r' % (name, f, ff))
    rule = NR.repair_rule(name)
    if rule is not None:
        R.check(f == rule, 'fix:doc-rule', 'fix_blockname(%r) = %r, documented rule gives %r' % (name, f, rule))
    u = unfix(name)
    if not (isinstance(u, str) and len(u) == 5):
        R.fail('unfix:not-5-characters', 'unfix_blockname(%r) = %r' % (name, u)); return False
    p = NR.a3i2_print(name)
    if p is not None:
        R.check(u == p, 'unfix:print-model', 'unfix_blockname(%r) = %r, the simulator prints %r' % (name, u, p))
    elif NR.a3i2_class(name) == 'text':
        R.check(u == name, 'unfix:text-changed', 'unfix_blockname(%r) = %r: last two characters are not a number' % (name, u))
    # one write-then-read cycle, then another
    c1 = fix(unfix(name))
    c2 = fix(unfix(c1))
    R.check(c2 == c1, 'cycle:unstable', 'write/read of %r gives %r, a second cycle gives %r' % (name, c1, c2))
    return f != name or u != name


def run_fix(case, R):
    import mulgrids
    fix, unfix = mulgrids.fix_blockname, mulgrids.unfix_blockname
    head = case['prefix'] + case['c3']
    acts = 0
    R.label('fix:third-' + ('digit' if case['c3'] in digits else 'blank' if case['c3'] == ' ' else 'letter'))
    with R.lib('fix_unfix'):
        for c4 in ALPHA63:
            for c5 in ALPHA63:
                if judge_name(R, head + c4 + c5, fix, unfix): acts += 1
                if len(R.findings) > 30: return
    R.nontrivial(acts > 0)


def run_name(case, R):
    import mulgrids
    name = case['name']
    R.label('name:' + NR.a3i2_class(name))
    with R.lib('fix_unfix'):
        R.nontrivial(judge_name(R, name, mulgrids.fix_blockname, mulgrids.unfix_blockname))


def run_uniq(case, R):
    import mulgrids
    s = case['s']
    with R.lib('uniqstring'):
        u = mulgrids.uniqstring(s)
    R.nontrivial(len(set(s)) < len(s))
    R.check(u == NR.ordered_unique(s), 'uniqstring', 'uniqstring(%r) = %r' % (s, u))


class ProbeCounter(dict):
    def __init__(self, limit):
        dict.__init__(self); self.limit = limit; self.probes = 0

    def __contains__(self, k):
        self.probes += 1
        if self.probes > self.limit:
            from vlib.hygiene import Hang
            raise Hang('search for a free name|%d membership tests in one call, every name of the convention was tried long ago' % self.probes)
        return dict.__contains__(self, k)


def run_key(case, R):
    import mulgrids
    conv, chars, spaces, what = case['conv'], case['chars'], case['spaces'], case['what']
    justfn = JUST[case['just']]
    L = case['length']
    cap = NR.letters_capacity(len(chars), L, spaces)
    R.label('key:' + what)
    R.nontrivial(bool(case['pre']))
    geo = mulgrids.mulgrid(convention=conv)
    with R.lib('int_to_chars'):
        prenames = [justfn(mulgrids.int_to_chars(n, chars=chars, spaces=spaces, length=L), L) for n in case['pre']]
    if len(set(prenames)) != len(prenames):
        return        # duplicate generated names are the 'numbers' search's business
    # the dictionary counts its membership tests: a search for a free key that keeps probing long after every name of the
    # convention has been tried is non-termination, detected by count (deterministic), not by the clock
    d = ProbeCounter(limit=60 * (cap + 50) + 5000)
    if what == 'column': geo.column = d
    elif what == 'node': geo.node = d
    for nm in prenames: d[nm] = nm
    i = case['istart']
    got = 0
    refused_at = None
    for call in range(case['calls']):
        d.probes = 0
        try:
            with R.lib('new_%s_key' % what, accept=(mulgrids.NamingConventionError,)):
                if what == 'column': name, i2 = geo.new_column_name(i, justfn, chars, spaces)
                elif what == 'node': name, i2 = geo.new_node_name(i, justfn, chars, spaces)
                else: name, i2 = mulgrids.new_dict_key(d, i, justfn, L, chars, spaces)
        except Refused:
            refused_at = call
            break
        if not R.check(name not in d, 'key:used', 'call %d returned %r which is already a key (chars %r, spaces %r)' % (
                call, name, chars, spaces)): return
        if not R.check(isinstance(i2, int) and i2 > i, 'key:index-not-advanced',
                       'call %d: start index %r -> %r' % (call, i, i2)): return
        if what != 'raw':
            if not R.check(len(name) == L, 'key:length', 'new_%s_name returned %r, the convention has %d characters' % (
                    what, name, L)): return
        d[name] = name
        i = i2
        got += 1
    if what != 'raw':
        # names available from istart+1 up to the capacity, minus those taken
        avail = cap - case['istart'] - len([n for n in case['pre'] if n > case['istart']])
        if refused_at is not None:
            R.label('key:exhausted')
            R.check(got >= avail, 'key:refused-early', 'new_%s_name refused after %d names, %d were available '
                    '(chars %r, spaces %r, length %d)' % (what, got, avail, chars, spaces, L))


# ---- geometries

def write_msh(path, nx, ny, m, fmt):
    """Triangulated nx x ny rectangle, first m triangles; returns (nodes in file, nodes used)."""
    nn = (nx + 1) * (ny + 1)
    tris = []
    for j in range(ny):
        for i in range(nx):
            a = j * (nx + 1) + i + 1; b = a + 1; c = a + nx + 2; d = a + nx + 1
            tris.append((a, b, c)); tris.append((a, c, d))
    tris = tris[:m]
    used = set(v for t in tris for v in t)
    with open(path, 'w') as f:
        if fmt == '2.2':
            f.write('$MeshFormat\n2.2 0 8\n$EndMeshFormat\n$Nodes\n%d\n' % nn)
            for k in range(nn):
                f.write('%d %g %g 0\n' % (k + 1, k % (nx + 1), k // (nx + 1)))
            f.write('$EndNodes\n$Elements\n%d\n' % len(tris))
            for e, t in enumerate(tris):
                f.write('%d 2 2 0 1 %d %d %d\n' % ((e + 1,) + t))
            f.write('$EndElements\n')
        else:
            f.write('$MeshFormat\n4.1 0 8\n$EndMeshFormat\n$Nodes\n1 %d 1 %d\n2 1 0 %d\n' % (nn, nn, nn))
            for k in range(nn): f.write('%d\n' % (k + 1))
            for k in range(nn): f.write('%g %g 0\n' % (k % (nx + 1), k // (nx + 1)))
            f.write('$EndNodes\n$Elements\n1 %d 1 %d\n2 1 2 %d\n' % (len(tris), len(tris), len(tris)))
            for e, t in enumerate(tris):
                f.write('%d %d %d %d\n' % ((e + 1,) + t))
            f.write('$EndElements\n')
    return nn, len(used), len(tris)


def names_distinct(R, names, what, sig):
    seen = {}
    for i, nm in enumerate(names):
        if nm in seen:
            R.fail(sig, '%s %d and %d are both named %r (of %d)' % (what, seen[nm], i, nm, len(names)))
            return False
        seen[nm] = i
    return True


def judge_mulgrid(R, g, case, chars, ncols, nnodes, nz, blocks_only=False):
    conv, atm, just, spaces = case['conv'], case['atm'], case['just'], case['spaces']
    ctyp, cL = NR.field(conv, 'column'); ltyp, lL = NR.field(conv, 'layer')
    if blocks_only: return _judge_blocks(R, g, atm, ncols, nz)
    # nodes, columns, layers
    R.check(len(g.nodelist) == nnodes and len(g.node) == nnodes, 'geo:node-lost',
            '%d nodes expected, list has %d, dictionary %d' % (nnodes, len(g.nodelist), len(g.node)))
    R.check(len(g.columnlist) == ncols and len(g.column) == ncols, 'geo:column-lost',
            '%d columns expected, list has %d, dictionary %d' % (ncols, len(g.columnlist), len(g.column)))
    R.check(len(g.layerlist) == nz + 1 and len(g.layer) == nz + 1, 'geo:layer-lost',
            '%d layers (with surface layer) expected, list has %d, dictionary %d' % (nz + 1, len(g.layerlist), len(g.layer)))
    names_distinct(R, [n.name for n in g.nodelist], 'nodes', 'duplicate:node')
    names_distinct(R, [c.name for c in g.columnlist], 'columns', 'duplicate:column')
    names_distinct(R, [l.name for l in g.layerlist], 'layers', 'duplicate:layer')
    for what, objs, typ, L in (('node', g.nodelist, ctyp, cL), ('column', g.columnlist, ctyp, cL),
                               ('layer', g.layerlist[1:], ltyp, lL)):
        for o in objs:
            if not check_name_form(R, o.name, typ, L, chars, spaces, just, what, doc_justified(conv, what)): break
    if R.findings: return
    _judge_blocks(R, g, atm, ncols, nz)


def _judge_blocks(R, g, atm, ncols, nz):
    # blocks
    natm = {0: 1, 1: ncols, 2: 0}[atm]
    blocks = g.block_name_list
    R.check(len(blocks) == ncols * nz + natm, 'geo:block-count',
            '%d blocks expected (%d columns x %d layers + %d atmosphere), list has %d' % (
                ncols * nz + natm, ncols, nz, natm, len(blocks)))
    for b in blocks:
        if not R.check(isinstance(b, str) and len(b) == 5, 'block:not-5-characters', 'block name %r' % (b,)): return
    names_distinct(R, blocks, 'blocks', 'duplicate:block')
    R.check(len(g.block_name_index) == len(blocks), 'duplicate:block', 'block_name_index has %d entries for %d blocks' % (
        len(g.block_name_index), len(blocks)))
    built = {}

    def built_from(lay, colname, isatm):
        b = g.block_name(lay.name, colname)
        if not R.check(len(b) == 5, 'block:not-5-characters', 'block_name(%r, %r) = %r' % (lay.name, colname, b)):
            return False
        if b in built:
            R.fail('duplicate:block', 'block name %r is built from %r and from %r' % (b, built[b], (lay.name, colname)))
            return False
        built[b] = (lay.name, colname)
        cn, ln = g.column_name(b), g.layer_name(b)
        ok = R.check(cn == colname, 'inverse:column' + (':atmosphere' if isatm else ''),
                     'block %r built from column %r, layer %r: column_name gives %r' % (b, colname, lay.name, cn))
        R.check(g.layer.get(ln) is lay, 'inverse:layer-part-is-not-that-layer-in-the-geometry',
                lambda: 'block %r: its layer part %r looks up %r in geo.layer; it was built from layer %r' % (b, ln, getattr(g.layer.get(ln), 'name', None), lay.name))
        ok &= bool(R.check(ln == lay.name, 'inverse:layer' + (':atmosphere' if isatm else ''),
                           'block %r built from column %r, layer %r: layer_name gives %r' % (b, colname, lay.name, ln)))
        return ok
    top = g.layerlist[0]
    if atm == 0:
        built_from(top, g.atmosphere_column_name, True)
    elif atm == 1:
        for c in g.columnlist:
            if not built_from(top, c.name, True): break
    if not R.findings:
        for lay in g.layerlist[1:]:
            for c in g.columnlist:
                if not built_from(lay, c.name, False): break
            if R.findings: break
    if not R.findings:
        R.check(set(built) == set(blocks), 'geo:block-list-differs',
                lambda: 'block_name_list and block_name() over layers x columns differ: %r' % (
                    sorted(set(built) ^ set(blocks))[:6],))


def judge_radial(R, grid, case, chars, ncols, nz):
    conv, atm = case['conv'], case['atm']
    dec = _geo_for(conv)
    names = [b.name for b in grid.blocklist]
    natm = {0: 1, 1: ncols, 2: 0}[atm]
    R.check(len(names) == ncols * nz + natm and len(grid.block) == len(names), 'geo:block-count',
            '%d blocks expected (%d columns x %d layers + %d atmosphere), list has %d, dictionary %d' % (
                ncols * nz + natm, ncols, nz, natm, len(names), len(grid.block)))
    for b in names:
        if not R.check(isinstance(b, str) and len(b) == 5, 'block:not-5-characters', 'block name %r' % (b,)): return
    names_distinct(R, names, 'blocks', 'duplicate:block')
    if R.findings: return
    # column part and layer part: the underground blocks must form a full columns x layers product
    under = names[natm:]
    cols = set(dec.column_name(b) for b in under); lays = set(dec.layer_name(b) for b in under)
    R.check(len(cols) == ncols, 'inverse:column', '%d columns were built, the column parts of the block names take '
            '%d values' % (ncols, len(cols)))
    R.check(len(lays) == nz, 'inverse:layer', '%d layers were built, the layer parts of the block names take '
            '%d values' % (nz, len(lays)))
    ctyp, cL = NR.field(conv, 'column'); ltyp, lL = NR.field(conv, 'layer')
    for c in sorted(cols):
        if not check_name_form(R, c, ctyp, cL, chars, case['spaces'], case['just'], 'column',
                               doc_justified(conv, 'column')): break
    for l in sorted(lays):
        if not check_name_form(R, l, ltyp, lL, chars, case['spaces'], case['just'], 'layer',
                               doc_justified(conv, 'layer')): break
    if natm and not R.findings:
        alay = set(dec.layer_name(b) for b in names[:natm])
        R.check(len(alay) == 1 and not (alay & lays), 'inverse:layer:atmosphere',
                'atmosphere blocks carry layer parts %r, underground layers include them: %r' % (
                    sorted(alay), sorted(alay & lays)))
        if atm == 1:
            acols = [dec.column_name(b) for b in names[:natm]]
            R.check(set(acols) == cols and len(set(acols)) == ncols, 'inverse:column:atmosphere',
                    'column parts of the %d atmosphere blocks do not match the %d columns' % (natm, ncols))


def run_geo(case, R):
    import mulgrids, t2grids
    how, conv, atm, just, spaces = case['how'], case['conv'], case['atm'], case['just'], case['spaces']
    nx, ny, nz = case['nx'], case['ny'], case['nz']
    cs = case.get('case')
    chars = eff_chars(case['chars'], cs)
    if len(chars) < 2: raise HarnessError('degenerate charset in case')
    colcap, laycap, layeff = caps(conv, chars, spaces)
    R.label('geo:%s:conv%d' % (how, conv), 'geo:atm%d' % atm)
    if how == 'rect':
        ncols, nnodes = nx * ny, (nx + 1) * (ny + 1)
        need_names = nnodes
    elif how == 'radial':
        ncols, nnodes = nx, 0
        need_names = ncols
    else:
        path = os.path.join(R.tmp, 'mesh.msh')
        filenodes, nnodes, ncols = write_msh(path, nx, ny, case['m'], case['fmt'])
        need_names = max(filenodes, ncols)
    over = []
    if need_names > colcap: over.append('columns/nodes %d > %d' % (need_names, colcap))
    if nz > layeff: over.append('layers %d > %d' % (nz, layeff))
    near = abs(need_names - colcap) <= 3 or abs(nz - layeff) <= 3
    R.nontrivial(near or atm != 2 or ncols >= 100)
    if near: R.label('geo:near-capacity')
    R.label('geo:beyond-capacity' if over else 'geo:within-capacity')
    kw = dict(convention=conv, atmos_type=atm, justify=just, chars=case['chars'], spaces=spaces)
    raised = None
    if case.get('warm') is not None:
        # another geometry (other convention, same alphabet) built first in the same process: its names must not
        # leak into this one
        R.label('geo:after-convention-%d' % case['warm'])
        try:
            mulgrids.mulgrid().rectangular([10.] * 3, [20.] * 2, [5.] * 3, convention=case['warm'], atmos_type=2,
                                           justify=just, chars=case['chars'], spaces=spaces)
        except mulgrids.NamingConventionError:
            pass
    try:
        with R.lib(how, accept=(mulgrids.NamingConventionError,)):
            if how == 'rect':
                if cs is not None: kw['case'] = cs
                g = mulgrids.mulgrid().rectangular([10.] * nx, [20.] * ny, [5.] * nz, **kw)
            elif how == 'radial':
                if cs is not None: kw['case'] = cs
                g = t2grids.t2grid().radial([10.] * nx, [5.] * nz, **kw)
            else:
                kw['atmos_type'] = atm
                g = mulgrids.mulgrid().from_gmsh(path, [5.] * nz, **kw)
    except Refused as e:
        raised = str(e.args[0])
    if raised is not None:
        R.label('geo:refused')
        R.check(bool(over), 'capacity:refused-early:%s:%s' % (how, 'layer' if 'Layer' in raised else 'column'),
                '%s %dx%dx%d (convention %d, chars %r, spaces %r) refused with %r although %d column/node names and '
                '%d layer names exist' % (how, nx, ny, nz, conv, chars, spaces, raised, colcap, layeff))
        return
    # a geometry was returned: whatever the size, its names must be sound
    if how == 'radial': judge_radial(R, g, case, chars, ncols, nz)
    else: judge_mulgrid(R, g, case, chars, ncols, nnodes, nz)
    if over and not R.findings: R.label('geo:beyond-model-capacity-but-sound')
    # the same geometry object switched, through the public `convention` property, to another convention of the same name
    # lengths: its block names are then those of the new convention and still invert to (column, layer)
    if how != 'radial' and not over and not R.findings and case.get('switch') is not None and conv in SWITCH:
        new = SWITCH[conv][case['switch'] % 2]
        R.label('geo:convention-switched:%d->%d' % (conv, new))
        with R.lib('set-convention'): g.convention = new
        before = len(R.findings)
        judge_mulgrid(R, g, case, chars, ncols, nnodes, nz, blocks_only=True)
        R.findings[before:] = [('switched:' + sg, d) for sg, d in R.findings[before:]]
        with R.lib('set-convention-back'): g.convention = conv
        if len(R.findings) == before:
            judge_mulgrid(R, g, case, chars, ncols, nnodes, nz, blocks_only=True)
            R.findings[before:] = [('switched-back:' + sg, d) for sg, d in R.findings[before:]]
    # ... and after its layers were regenerated: the surface layer given another (free) name, then every layer refined
    if how == 'rect' and not over and not R.findings and case.get('relayer') and 2 * nz <= layeff:
        free = [n for n in ('sf', 'zz', 'qq') if n.rjust(len(g.layerlist[0].name)) not in g.layer]
        if free:
            R.label('geo:surface-layer-renamed-then-refine_layers')
            with R.lib('rename_layer'): g.rename_layer(g.layerlist[0].name, free[0].rjust(len(g.layerlist[0].name)))
            with R.lib('refine_layers'): g.refine_layers()
            before = len(R.findings)
            judge_mulgrid(R, g, case, chars, ncols, nnodes, 2 * nz, blocks_only=True)
            R.findings[before:] = [('relayered:' + sg, d) for sg, d in R.findings[before:]]
            return
    # a geometry constructed by reading a file is a geometry the library constructs: the same names, judged the same way
    if how != 'radial' and not over and not R.findings and just == 'r':       # (the file format right-justifies names)
        fn = os.path.join(R.tmp, 'geo.dat')
        with R.lib('write'): g.write(fn)
        with R.lib('reread'): g2 = mulgrids.mulgrid(fn)
        R.label('geo:reread')
        before = len(R.findings)
        judge_mulgrid(R, g2, case, chars, ncols, nnodes, nz)
        if len(R.findings) == before:
            R.check(list(g2.block_name_list) == list(g.block_name_list), 'reread:block-names',
                    lambda: 'block names of the re-read geometry differ: %r' % (
                        [(a, b) for a, b in zip(g.block_name_list, g2.block_name_list) if a != b][:4],))


SWITCH = {0: (2, 3), 2: (0, 3), 3: (2, 0)}        # conventions with the same name lengths (3-character columns, 2-character layers)

def split_cases():
    return [{'k': 'split', 'conv': conv, 'chars': ch, 'nx': nx, 'spaces': sp}
            for conv in (0, 3) for ch, nx in (('abc', 10), ('ab', 3), ('xyz', 6)) for sp in (True, False)]


def run_split(case, R):
    """columns split one after the other until the column names of the convention run out: every new column gets a fresh
    name of the right length, and when none is left the naming error is raised (not a refusal, a duplicate or a longer name)"""
    import mulgrids
    conv, chars, nx = case['conv'], case['chars'], case['nx']
    R.label('split-until-names-run-out:conv%d:%d-chars' % (conv, len(chars))); R.nontrivial()
    cap = caps(conv, chars, case['spaces'])[0]
    try:
        g = mulgrids.mulgrid().rectangular([1.] * nx, [1.] * 2, [1.], convention=conv, chars=chars, spaces=case['spaces'], atmos_type=2)
    except mulgrids.NamingConventionError:
        R.label('geo:refused'); return
    L = g.colname_length
    quads = [c.name for c in g.columnlist]
    raised = False
    for k, name in enumerate(quads):
        n0 = g.num_columns
        col = g.column[name]
        try:
            ok = g.split_column(name, col.node[0].name, chars=chars)
        except mulgrids.NamingConventionError:
            raised = True
            R.check(n0 >= cap, 'split:naming-error-before-the-names-ran-out', 'split %d refused with %d columns, %d names exist' % (k + 1, n0, cap))
            break
        names = [c.name for c in g.columnlist]
        if not R.check(ok is True and g.num_columns == n0 + 1, 'split:refused-without-a-naming-error',
                       'split_column() number %d returned %r with %d columns (%d column names exist)' % (k + 1, ok, n0, cap)): return
        if not R.check(len(set(names)) == len(names) and all(len(n) == L for n in names), 'split:duplicate-or-overlong-name', repr(names[-3:])): return
        if not R.check(g.num_columns <= cap, 'split:more-columns-than-names', '%d columns, %d names' % (g.num_columns, cap)): return
    if raised: R.label('split:naming-error-raised')


def run_case(case, R):
    k = case['k']
    if k == 'split': return run_split(case, R)
    if k == 'num': run_num(case, R)
    elif k == 'fix': run_fix(case, R)
    elif k == 'name': run_name(case, R)
    elif k == 'uniq': run_uniq(case, R)
    elif k == 'key': run_key(case, R)
    elif k == 'geo': run_geo(case, R)
    elif k == 'order': run_order(case, R)
    else: raise HarnessError('unknown case kind %r' % (k,))


def finish(tier, seed, total):
    n_num = sum(c['hi'] - c['lo'] for c in num_cases(tier)())
    n_fix = len(PREFIXES) * 63 ** 3
    return {'names_enumerated': {'name_from_number_calls_judged': n_num, 'five_character_names_judged': n_fix},
            'exhaustive_for': ['fix/unfix over 9 prefixes x 63^3 tails', 'numbers 0..20000 per configuration']}


LEVEL_TEXT = ('Complete enumeration of stated finite spaces (integers 0..20000 for every convention x justify x charset x '
              'spaces x kind; every five-character name with one of 9 representative two-character prefixes and any tail over '
              'letters/digits/blank; geometries from three constructors on both sides of every capacity) plus Hypothesis '
              'generation of random names, key dictionaries and geometry configurations. Exhaustive only for those spaces; '
              'otherwise refutes, never proves.')
LEVEL_NOTE = ('Trusted: refs/names_ref.py ((A3,I2) print model, documented repair rule, bijective-numeral capacities) and the '
              'documented layout of the four conventions. Exact names are never predicted, only length, alphabet, documented '
              'justification, distinctness, inverse and capacities.')
TECHNIQUE = ('exhaustive enumeration + property-based testing (Hypothesis): injectivity / length / monotone-refusal oracle for '
             'name generators, (A3,I2) print model for fix/unfix, build-and-decode oracle over constructed geometries')
