"""C03 - MULgraph geometry file write/read round trip preserves the geometry."""
import os, math
from hypothesis import strategies as st
from vlib.core import Search, HarnessError
from vlib import core
from vlib.hygiene import eof_guard
from gens import geo
from refs import mul_ref, geom_ref

ID = 'C03'
CASE_TIMEOUT = 120
RULE = ('geometry recipes (gens/geo.py): rectangular with drawn spacings/origin (incl. 7-digit coordinates) in all 4 '
        'naming conventions, upper/lower-case right-justified names, BFS-reduced pieces of the 7 shipped geometries, 3 '
        'hand-built mixed tri/quad/pentagon meshes; optional refine / rotate / translate / refine_layers; atmosphere '
        'type 0/1/2; block order None/layer_column/dmplex; unit \'\'/FEET; permeability angle; atmosphere volume/'
        'connection; surfaces on a boundary / inside a layer / inside the bottom layer / above the top; specified '
        'column centres; 0..3 wells with 2..6 points. Legs: write->read vs model rounded through the format, identical '
        'name lists, byte-identical second write, independent reader of the written file (own column layout; feet '
        'check on raw columns), independent Fortran-style writer -> library reader; the 7 shipped files whole. '
        'Non-trivial = any non-default header option, surface, well, specified centre or non-rectangular mesh; '
        'distinct = distinct recipe JSON.'
        ' Also: the geometry object is extracted again after write() (must be unchanged) and written twice (same file); up to three assignments to block_order / atmosphere_type through the property setters before the write.'
        ' Rounds 7-10: columns renamed so that records read like keywords or numbers (also zero-padded, conventions 1/2); surfaces below the model bottom; coordinates needing all ten columns (fewer decimals expected); files read into the written object itself or into an object holding another geometry; wells whose track comes up again.')
ASSUMPTIONS = ['names written to files are right-justified (format documentation); well names have 5 characters',
               'surface elevations are either exactly a layer boundary value or at least 2% of a layer away from one, '
               'so 2-decimal rounding cannot legitimately change the block list (layers are >= 0.5 thick)',
               'dmplex block order only for 3- and 4-sided columns (documented)']


KEYWORD_PAIRS = [('CON', 'NEC'), ('LAY', 'ERS'), ('VER', 'TIC'), ('SUR', 'FAC'), ('WEL', 'LSA'), ('GRI', 'DXY'), ('CON', 'NE '), ('SUR', 'F A')]
ODD_WELLS = ['WELLS', 'LAYER', 'SURFA', 'CONNE', 'VERTI', 'GRIDS', ' GRID', ' SURF', '12345', '  1.5']
NUMBER_NAMES = ['123', ' 12', '1e3', '  0', '0.5', ' -1', '+ 2', 'nan', 'inf', '1d2', '9 9', '001', ' 07', '010', '000']
NUMBER_NAMES2 = ['01', '07', ' 5', '1e', '12', '00', '-1', '.5']


def give_odd_names(g, spec, R):
    """rename columns (3-character column names only) through the public rename_column"""
    if not g.connectionlist: return
    if g.colname_length != 3 and spec['kind'] == 'keyword': return
    taken = set(c.name for c in g.columnlist) | set(n.name for n in g.nodelist)
    done = set()
    if spec['kind'] == 'keyword':
        for k in range(spec['n']):
            a, b = KEYWORD_PAIRS[(spec['seed'] + k) % len(KEYWORD_PAIRS)]
            con = g.connectionlist[(spec['seed'] * 7 + k * 13) % len(g.connectionlist)]
            c0, c1 = con.column
            if c0.name in done or c1.name in done or a in taken or b in taken: continue
            if b.endswith(' '): continue
            with R.lib('rename_column'): g.rename_column([c0.name, c1.name], [a, b])
            taken |= {a, b}; done |= {a, b}
            R.label('odd-names:connection-record-reads-like-a-keyword')
    else:
        cols = geo.ordered_columns(g)
        for k in range(spec['n']):
            pool = NUMBER_NAMES if g.colname_length == 3 else NUMBER_NAMES2
            nm = pool[(spec['seed'] + k) % len(pool)]
            col = cols[(spec['seed'] * 7 + k * 13) % len(cols)]
            if col.name in done or nm in taken: continue
            with R.lib('rename_column'): g.rename_column(col.name, nm)
            taken.add(nm); done.add(nm)
            R.label('odd-names:column-name-looks-like-a-number')


def case_strategy():
    @st.composite
    def s(draw):
        rc = draw(geo.geometry(max_nx=6, max_ny=6, max_nz=6, shipped=True, ops=True, with_surfaces=True,
                               with_wells=True, header=True, max_shipped_cols=40))
        if draw(st.integers(0, 3)) == 0:
            rc['centres'] = [[draw(st.sampled_from([0, 0, 1, 2, 7, 50, 300])), draw(st.sampled_from([-0.5, 0.0, 0.0, 0.3])),
                              draw(st.sampled_from([-0.25, 0.0, 0.0, 0.6]))] for _ in range(draw(st.integers(1, 3)))]
        if draw(st.integers(0, 7)) == 0:
            rc['sunk'] = [[draw(st.integers(0, 300)), draw(st.sampled_from([0.25, 15.25, 0.01, 100.0]))] for _ in range(draw(st.integers(1, 2)))]
        if rc['base']['kind'] == 'rect' and draw(st.integers(0, 9)) == 0:
            # coordinates whose integer part takes nine or all ten columns (whole-number spacings, so that the fewer decimals
            # that fit lose nothing)
            b = rc['base']
            b['dx'] = [float(max(5, round(v))) for v in b['dx']]; b['dy'] = [float(max(5, round(v))) for v in b['dy']]
            b['origin'] = [draw(st.sampled_from([1234560000.0, 999999000.0, -123450000.0, 99999900.0, 9999999000.0 - 5000.0])),
                           draw(st.sampled_from([-123450000.0, 1234560000.0, 6280000.0, -99999000.0])), b['origin'][2]]
            rc['ops'] = [o for o in rc['ops'] if o['op'] not in ('rotate', 'translate')]
            rc.get('header', {}).pop('unit', None)
            rc.pop('wells', None); rc.pop('centres', None)
        c = {'k': 'gen', 'rc': rc}
        if draw(st.integers(0, 3)) == 0: c['into'] = draw(st.sampled_from(['same', 'other']))
        if draw(st.integers(0, 4)) == 0: c['top_centre'] = draw(st.sampled_from([0.01, 0.25, 5.0, -0.5]))
        if draw(st.integers(0, 2)) == 0:
            one = st.one_of(st.tuples(st.just('block_order'), st.sampled_from([None, 'layer_column', 'dmplex'])),
                            st.tuples(st.just('atmosphere_type'), st.sampled_from([0, 1, 2])))
            c['setters'] = [list(x) for x in draw(st.lists(one, min_size=1, max_size=3))]
        if draw(st.integers(0, 5)) == 0:
            # legal names a reader could mistake for something else: two connected columns whose names run together to a
            # section keyword in the CONNECTIONS record, wells named like keywords, names that look like numbers
            c['odd_names'] = {'kind': draw(st.sampled_from(['keyword', 'keyword', 'number'])), 'seed': draw(st.integers(0, 500)),
                              'n': draw(st.integers(1, 6)), 'flip': draw(st.booleans())}
            for i, w in enumerate(rc.get('wells') or []):
                if i < len(ODD_WELLS): w['name'] = ODD_WELLS[(i + c['odd_names']['seed']) % len(ODD_WELLS)]
        return c
    return s()


def searches(tier):
    q = tier == 'quick'
    return [Search('shipped', 'enum', lambda: [{'k': 'shipped', 'file': f} for f in geo.SHIPPED
                                               if not (q and f in ('g2.dat', 'g4.dat'))], shards=7),
            Search('generated', 'hyp', case_strategy, n=1600 if q else 30000, shards=8 if q else 16)]


def fitted(v, d, w=10):
    """the number a w-column F field with d decimals holds for v: fewer decimals when the full form is too wide"""
    for k in range(d, -1, -1):
        s = '%.*f' % (k, v)
        if len(s) <= w: return float(s)
    return float('%.*f' % (d, v))


def r2(x, scale, d=2):
    """value carried by a w.df field holding x/scale, back in metres"""
    if x is None: return None
    return fitted(x / scale, d) * scale


def printed(x, scale, d=2):
    return None if x is None else fitted(x / scale, d)


def feq(a, b, tol=0.0):
    if a is None or b is None: return a is None and b is None
    return a == b or abs(a - b) <= tol


def expected_model(m, scale):
    """The model as the 2-decimal format carries it."""
    h = dict(m['header'])
    h['atmosphere_volume'] = float('%10.2e' % h['atmosphere_volume'])
    h['atmosphere_connection'] = float('%10.2e' % h['atmosphere_connection'])
    h['permeability_angle'] = float('%10.2f' % h['permeability_angle'])
    e = {'header': h}
    e['nodes'] = [[n, r2(x, scale), r2(y, scale)] for n, x, y in m['nodes']]
    pos = dict((n, (x, y)) for n, x, y in e['nodes'])
    cols = []
    for c in m['columns']:
        cc = dict(c)
        if c['centre_specified']:
            cc['centre'] = [r2(c['centre'][0], scale), r2(c['centre'][1], scale)]
        else:
            cc['centre'] = geom_ref.centroid([pos[n] for n in c['nodes']])
        cc['surface'] = r2(c['surface'], scale)
        cols.append(cc)
    e['columns'] = cols
    e['connections'] = m['connections']
    e['layers'] = [{'name': l['name'], 'bottom': r2(l['bottom'], scale), 'centre': r2(l['centre'], scale)}
                   for l in m['layers']]
    e['wells'] = [{'name': w['name'], 'pos': [[r2(v, scale, 1) for v in p] for p in w['pos']]} for w in m['wells']]
    e['block_name_list'] = m['block_name_list']
    e['block_connection_name_list'] = m['block_connection_name_list']
    return e


def compare(R, tag, got, exp, size):
    tol = 1e-9 * size
    gh, eh = got['header'], exp['header']
    for k in ('type', 'convention', 'atmosphere_type', 'unit_type', 'block_order'):
        R.check(gh[k] == eh[k], '%s:header:%s' % (tag, k), '%s: %r expected %r' % (k, gh[k], eh[k]))
    for k in ('atmosphere_volume', 'atmosphere_connection', 'permeability_angle', 'gdcx', 'gdcy'):
        R.check(feq(gh[k], eh[k]), '%s:header:%s' % (tag, k), '%s: %r expected %r' % (k, gh[k], eh[k]))
    if R.check([n[0] for n in got['nodes']] == [n[0] for n in exp['nodes']], tag + ':nodes:names',
               'node names/order differ'):
        for a, b in zip(got['nodes'], exp['nodes']):
            if not (feq(a[1], b[1], tol) and feq(a[2], b[2], tol)):
                R.fail(tag + ':nodes:position', 'node %r at %r expected %r' % (a[0], a[1:], b[1:])); break
    if R.check([c['name'] for c in got['columns']] == [c['name'] for c in exp['columns']], tag + ':columns:names',
               'column names/order differ'):
        for a, b in zip(got['columns'], exp['columns']):
            R.check(a['nodes'] == b['nodes'], tag + ':columns:nodes', 'column %r nodes %r expected %r' % (
                a['name'], a['nodes'], b['nodes']))
            R.check(a['centre_specified'] == b['centre_specified'], tag + ':columns:centre_specified',
                    'column %r: %r expected %r' % (a['name'], a['centre_specified'], b['centre_specified']))
            ctol = tol if b['centre_specified'] else 1e-6 * size
            R.check(feq(a['centre'][0], b['centre'][0], ctol) and feq(a['centre'][1], b['centre'][1], ctol),
                    tag + ':columns:centre', 'column %r centre %r expected %r' % (a['name'], a['centre'], b['centre']))
            R.check(feq(a['surface'], b['surface'], tol), tag + ':columns:surface',
                    'column %r surface %r expected %r' % (a['name'], a['surface'], b['surface']))
            R.check(a['num_layers'] == b['num_layers'], tag + ':columns:num_layers',
                    'column %r: %r layers expected %r' % (a['name'], a['num_layers'], b['num_layers']))
    R.check(got['connections'] == exp['connections'], tag + ':connections', 'connection pairs/order differ')
    if R.check([l['name'] for l in got['layers']] == [l['name'] for l in exp['layers']], tag + ':layers:names',
               'layer names %r expected %r' % ([l['name'] for l in got['layers']][:6], [l['name'] for l in exp['layers']][:6])):
        for a, b in zip(got['layers'], exp['layers']):
            R.check(feq(a['bottom'], b['bottom'], tol) and feq(a['centre'], b['centre'], tol), tag + ':layers:elevation',
                    'layer %r bottom/centre %r,%r expected %r,%r' % (a['name'], a['bottom'], a['centre'], b['bottom'], b['centre']))
    if R.check([w['name'] for w in got['wells']] == [w['name'] for w in exp['wells']], tag + ':wells:names', 'well names differ'):
        for a, b in zip(got['wells'], exp['wells']):
            ok = len(a['pos']) == len(b['pos']) and all(feq(x, y, tol) for p, q in zip(a['pos'], b['pos']) for x, y in zip(p, q))
            R.check(ok, tag + ':wells:track', 'well %r track %r expected %r' % (a['name'], a['pos'], b['pos']))
    R.check(got['block_name_list'] == exp['block_name_list'], tag + ':block_name_list', 'block name lists differ')
    R.check(got['block_connection_name_list'] == exp['block_connection_name_list'], tag + ':block_connection_name_list',
            'block connection name lists differ')


def check_raw_file(R, path, m, scale, shipped=False):
    """Independent reader: the file itself holds the model in file units, in the documented columns."""
    try:
        r = mul_ref.read(path)
    except Exception as e:
        R.fail('raw:unreadable', 'independent reader cannot parse the written file: %r' % (e,)); return
    h = m['header']
    R.check(r['header']['type'] == 'GENER', 'raw:header:type', repr(r['header']['type']))
    R.check(r['header']['convention'] == h['convention'], 'raw:header:convention', repr(r['header']['convention']))
    R.check(r['header']['atmosphere_type'] == h['atmosphere_type'], 'raw:header:atmosphere_type', repr(r['header']['atmosphere_type']))
    R.check(r['header']['unit'].strip() == h['unit_type'].strip(), 'raw:header:unit',
            'columns 28-32 hold %r for a geometry with unit_type %r' % (r['header']['unit'], h['unit_type']))
    for key, fmt in (('atmosphere_volume', '%10.2e'), ('atmosphere_connection', '%10.2e'), ('permeability_angle', '%10.2f')):
        fv = r['header'][key]
        if shipped:
            if fv is None: continue         # blank in a hand-made file: the constructor default applies
            R.check(abs(fv - h[key]) <= 1e-9 * max(abs(fv), 1e-300), 'raw:header:' + key, 'file %r, geometry %r' % (fv, h[key]))
        else:
            R.check(feq(fv, float(fmt % h[key])), 'raw:header:' + key, repr(fv))
    bo = {None: None, 'layer_column': 0, 'dmplex': 1}[h['block_order']]
    R.check(r['header']['block_order'] == bo, 'raw:header:block_order', repr(r['header']['block_order']))
    ok = len(r['nodes']) == len(m['nodes']) and all(
        a[0].strip() == b[0].strip() and feq(a[1], printed(b[1], scale)) and feq(a[2], printed(b[2], scale))
        for a, b in zip(r['nodes'], m['nodes']))
    R.check(ok, 'raw:nodes', lambda: 'file nodes %r ... model (file units) %r' % (
        r['nodes'][:2], [[b[0], printed(b[1], scale), printed(b[2], scale)] for b in m['nodes'][:2]]))
    ok = len(r['columns']) == len(m['columns'])
    if ok:
        for a, b in zip(r['columns'], m['columns']):
            na, nb = [x.strip() for x in a['nodes']], [x.strip() for x in b['nodes']]
            same_nodes = na == nb
            if shipped and not same_nodes and len(na) == len(nb):
                # a column listed clockwise in a hand-made file is turned counter-clockwise on reading
                rots = [nb[k:] + nb[:k] for k in range(len(nb))]
                same_nodes = na in rots or na[::-1] in rots
            if a['name'].strip() != b['name'].strip() or not same_nodes or bool(a['centre_specified']) != bool(b['centre_specified']):
                ok = False; break
            if b['centre_specified'] and not (feq(a['cx'], printed(b['centre'][0], scale)) and feq(a['cy'], printed(b['centre'][1], scale))):
                ok = False; break
    R.check(ok, 'raw:columns', 'GRID section differs from the model')
    R.check([[a.strip(), b.strip()] for a, b in r['connections']] == [[a.strip(), b.strip()] for a, b in m['connections']],
            'raw:connections', 'CONNECTIONS section differs from the model')
    if shipped:
        # a hand-made file: a blank centre means "midway between this bottom and the one above" (the first layer: its
        # bottom); SURFA records come in any order and may repeat the default; numbers may carry more decimals
        ok = len(r['layers']) == len(m['layers'])
        prev = None
        for a, b in zip(r['layers'], m['layers']) if ok else []:
            want = a[2] if a[2] is not None else (a[1] if prev is None else 0.5 * (a[1] + prev))
            if not (a[0].strip() == b['name'].strip() and abs(a[1] - b['bottom'] / scale) <= 1e-9 * max(1.0, abs(a[1]))
                    and abs(want - b['centre'] / scale) <= 1e-9 * max(1.0, abs(want))):
                ok = False
                R.fail('raw:layers', 'layer %r: file has bottom %r centre %r, the geometry read from it bottom %r centre %r' % (
                    a[0], a[1], a[2], b['bottom'] / scale, b['centre'] / scale)); break
            prev = a[1]
        if not ok and not any(sg == 'raw:layers' for sg, _d in R.findings): R.fail('raw:layers', 'layer count differs')
        fs = dict((a.strip(), b) for a, b in r['surface'])
        top = m['layers'][0]['bottom']
        for c in m['columns']:
            z = fs.get(c['name'].strip())
            have = c['surface'] if c['surface'] is not None else top
            if z is not None and not abs(z - have / scale) <= 1e-9 * max(1.0, abs(z)):
                R.fail('raw:surface', 'column %r: SURFA record %r, geometry surface %r' % (c['name'], z, have / scale)); break
            if z is None and c['surface'] is not None and c['surface'] != top:
                R.fail('raw:surface', 'column %r has surface %r without a SURFA record' % (c['name'], c['surface'])); break
        wl = [[w['name']] + [v / scale for v in p] for w in m['wells'] for p in w['pos']]
        ok = len(wl) == len(r['wells']) and all(a[0].strip() == b[0].strip() and all(abs(x - y) <= 1e-9 * max(1.0, abs(x)) for x, y in zip(a[1:], b[1:]))
                                                for a, b in zip(r['wells'], wl))
        R.check(ok, 'raw:wells', 'WELLS section differs from the wells read')
        return
    ok = len(r['layers']) == len(m['layers']) and all(
        a[0].strip() == b['name'].strip() and feq(a[1], printed(b['bottom'], scale)) and feq(a[2], printed(b['centre'], scale))
        for a, b in zip(r['layers'], m['layers']))
    R.check(ok, 'raw:layers', 'LAYERS section differs from the model: %r' % (r['layers'][:3],))
    surf = [[c['name'].strip(), printed(c['surface'], scale)] for c in m['columns'] if c['surface'] is not None]
    R.check([[a.strip(), b] for a, b in r['surface']] == surf, 'raw:surface', 'SURFA section %r expected %r' % (r['surface'][:3], surf[:3]))
    wl = [[w['name']] + [printed(v, scale, 1) for v in p] for w in m['wells'] for p in w['pos']]
    R.check(r['wells'] == wl, 'raw:wells', 'WELLS section %r expected %r' % (r['wells'][:2], wl[:2]))


def case_ok_for_wide(m, scale):
    """with fewer decimals the file is a different (coarser) geometry unless every coordinate is unchanged by the rounding;
    only such geometries are judged (columns could otherwise collapse, which is not a defect of the format)"""
    vals = [v for n in m['nodes'] for v in n[1:]] + [v for c in m['columns'] if c['centre_specified'] for v in c['centre']]
    return all(abs(fitted(v / scale, 2) * scale - v) <= 1e-6 * max(1.0, abs(v)) * 1e-3 for v in vals)


def run_geometry(R, g, labels, into=None):
    import mulgrids
    m = geo.extract(g)
    scale = {'': 1.0, 'FEET ': 0.3048}[m['header']['unit_type']]
    bd = g.bounds
    size = max(1.0, abs(bd[0][0]), abs(bd[0][1]), abs(bd[1][0]), abs(bd[1][1]))
    coords = [v for n in m['nodes'] for v in n[1:]] + [v for c in m['columns'] for v in c['centre']] + \
             [l['bottom'] for l in m['layers']] + [c['surface'] for c in m['columns'] if c['surface'] is not None]
    wcoords = [v for w in m['wells'] for p in w['pos'] for v in p]
    wide = False
    if any(len('%.0f' % (v / scale)) > 10 for v in coords + wcoords):
        R.label('skipped:coordinate-beyond-10-columns'); R.exclude('domain:coordinate-beyond-10-columns')
        return
    if any(len('%.2f' % (v / scale)) > 10 for v in coords) or any(len('%.1f' % (v / scale)) > 10 for v in wcoords):
        # fits its ten columns only with fewer decimals: the format then carries what fits (the clause "equal to the two
        # decimals the format carries" is read as "equal to the decimals that fit")
        R.label('coordinate-needs-all-ten-columns'); wide = True
        if not case_ok_for_wide(m, scale):
            R.label('skipped:wide-coordinate-not-on-the-coarser-lattice'); R.exclude('domain:wide-coordinate-not-on-the-coarser-lattice'); return
    bounds = [l['bottom'] for l in m['layers']]
    for c in m['columns']:
        z = c['surface']
        if z is not None and any(z != b and abs(z - b) / scale < 0.0101 for b in bounds):
            # 2-decimal rounding may legitimately move this surface across a layer boundary
            R.label('skipped:surface-within-rounding-of-boundary')
            R.exclude('domain:surface-within-rounding-of-boundary'); return
    exp = expected_model(m, scale)
    f1, f2, f3 = (os.path.join(R.tmp, n) for n in ('a.dat', 'b.dat', 'c.dat'))
    with R.lib('write'): g.write(f1)
    # the geometry the caller still holds is the one that was written: writing does not alter it, and writing it
    # again gives the same file (this is what "the same" is measured against after the call)
    m_after = geo.extract(g)
    if m_after != m:
        k = next((k for k in m if m_after.get(k) != m[k]), '?')
        R.fail('write:alters-geometry:' + k, 'after write() the geometry object differs from what it was before (%s)' % k)
    f4 = os.path.join(R.tmp, 'a2.dat')
    with R.lib('write-again'): g.write(f4)
    if open(f1, 'rb').read() != open(f4, 'rb').read():
        R.fail('write:second-file-differs', 'the same geometry object written twice gives two different files')
    with R.lib('read'):
        if into == 'same':
            # read(filename) on an object that already holds a geometry replaces what it holds
            R.label('read-into:the-written-object-itself'); g2 = g; g2.read(f1)
        elif into == 'other':
            R.label('read-into:an-object-holding-another-geometry')
            import numpy as np
            g2 = mulgrids.mulgrid().rectangular([10.] * 2, [10.], [5.] * 2, convention=m['header']['convention'])
            for w in m['wells'][:1]: g2.add_well(mulgrids.well(w['name'], [np.array([1., 1., 0.]), np.array([2., 2., -5.])]))
            g2.read(f1)
        else: g2 = mulgrids.mulgrid(f1)
    compare(R, 'roundtrip', geo.extract(g2), exp, size)
    with R.lib('rewrite'): g2.write(f2)
    b1, b2 = open(f1, 'rb').read(), open(f2, 'rb').read()
    if b1 != b2:
        l1, l2 = b1.split(b'\n'), b2.split(b'\n')
        i = next((i for i, (x, y) in enumerate(zip(l1, l2)) if x != y), min(len(l1), len(l2)))
        R.fail('rewrite:bytes-differ', 'line %d: %r vs %r' % (i + 1, l1[i:i + 1], l2[i:i + 1]))
    check_raw_file(R, f1, m, scale)
    if wide: return        # (a Fortran F10.2 write of such a number prints asterisks: there is no independently written file)
    # independent Fortran-style writer -> library reader
    fm = {'header': {'convention': m['header']['convention'], 'atmosphere_type': m['header']['atmosphere_type'],
                     'atmosphere_volume': m['header']['atmosphere_volume'],
                     'atmosphere_connection': m['header']['atmosphere_connection'], 'unit': m['header']['unit_type'],
                     'gdcx': None, 'gdcy': None, 'permeability_angle': m['header']['permeability_angle'],
                     'block_order': {None: None, 'layer_column': 0, 'dmplex': 1}[m['header']['block_order']]},
          'nodes': [[n, x / scale, y / scale] for n, x, y in m['nodes']],
          'columns': [{'name': c['name'], 'centre_specified': c['centre_specified'],
                       'centre': [c['centre'][0] / scale, c['centre'][1] / scale], 'nodes': c['nodes']} for c in m['columns']],
          'connections': m['connections'],
          'layers': [{'name': l['name'], 'bottom': l['bottom'] / scale, 'centre': l['centre'] / scale} for l in m['layers']],
          'surface': [[c['name'], c['surface'] / scale] for c in m['columns'] if c['surface'] is not None],
          'wells': [{'name': w['name'], 'pos': [[v / scale for v in p] for p in w['pos']]} for w in m['wells']]}
    mul_ref.write(f3, fm)
    with R.lib('read-fortran'): g3 = mulgrids.mulgrid(f3)
    compare(R, 'fortranread', geo.extract(g3), exp, size)


def run_case(case, R):
    import mulgrids
    with eof_guard():
        if case['k'] == 'shipped':
            R.label('shipped:' + case['file']); R.nontrivial()
            with R.lib('read-shipped'): g = mulgrids.mulgrid(geo.shipped_path(case['file']))
            # what the library read from the shipped file against an independent reading of the same file
            m0 = geo.extract(g)
            before = len(R.findings)
            check_raw_file(R, geo.shipped_path(case['file']), m0, {'': 1.0, 'FEET ': 0.3048}[m0['header']['unit_type']], shipped=True)
            if len(R.findings) > before:
                R.findings[before:] = [('shipped-' + sg, d) for sg, d in R.findings[before:]]
            run_geometry(R, g, [])
            return
        rc = case['rc']
        for l in geo.describe(rc): R.label(l)
        h = rc.get('header', {})
        R.nontrivial(bool(rc.get('surfaces') or rc.get('wells') or rc.get('centres') or rc['base']['kind'] != 'rect'
                          or rc.get('ops') or h.get('unit') or h.get('perm_angle') or rc.get('block_order')))
        R.label('hdr:%s/%s/%s/%s' % (rc.get('convention', 'f'), rc.get('atmos'), 'ft' if h.get('unit') else 'm',
                                     rc.get('block_order')))
        try:
            g = geo.build(rc)
        except Exception as e:
            import mulgrids as mg
            if isinstance(e, mg.NamingConventionError):
                R.label('build:naming-capacity'); return
            raise
        bad = geo.input_defects(g)
        if bad:
            for b in bad: R.exclude('input:' + b)
            R.label('skipped:invalid-input'); return
        # header options that were changed through their property setters before the write (the last value counts)
        if case.get('top_centre'):
            # an atmosphere layer whose centre is not its bottom (as in the shipped g4.dat / g5.dat: 1500.00 / 1500.01)
            R.label('top-layer-centre-differs-from-bottom')
            g.layerlist[0].centre = g.layerlist[0].bottom + float(case['top_centre'])
        if case.get('odd_names'): give_odd_names(g, case['odd_names'], R)
        for name, v in case.get('setters') or []:
            R.label('setter:' + name)
            try:
                setattr(g, name, v)
            except Exception as e:
                if 'not supported by DMPlex ordering' in str(e):        # documented refusal (columns with > 4 nodes): not a case
                    R.label('setter:dmplex-refused'); return
                with R.lib('set-' + name): raise
        run_geometry(R, g, [], into=case.get('into'))


LEVEL_TEXT = ('Generated geometries (Hypothesis recipes over rectangular, shipped-irregular and hand-built meshes with all '
              'header options) through: library round trip vs the model rounded through the format, name-list identity, '
              'byte-identical rewrite, an independent reader with its own column layout (feet checked on raw columns), and an '
              'independent writer read by the library; plus the 7 shipped files whole. Refutes only.')
LEVEL_NOTE = ('Trusted: refs/mul_ref.py (own layout from the format documentation, corrected against the shipped files), '
              'refs/geom_ref.py centroid, gens/geo.py extractor (reads public attributes only).')
TECHNIQUE = 'property-based testing (Hypothesis): round trip + differential against an independent MULgraph reader/writer'
