"""C04 - geometry-to-TOUGH2-grid conversion is geometrically exact and index-consistent."""
import math
import numpy as np
from hypothesis import strategies as st
from vlib.core import Search, HarnessError
from gens import geo
from refs import geom_ref

ID = 'C04'
CASE_TIMEOUT = 120
RULE = ('geometry recipes (gens/geo.py): rectangular (drawn spacings, origins up to 7 digits), BFS pieces of the 7 shipped '
        'irregular geometries, hand-built tri/quad/pentagon meshes; refine / rotate / translate / refine_layers; all '
        'naming conventions, atmosphere types, block orders, permeability angles; column surfaces on a layer boundary, '
        'inside any layer (incl. the bottom one) and above the top; with and without a bijective block-name map. '
        'Oracle: independent enumeration of blocks and connections from public geometry attributes and independent '
        'geometry (exact-rational shoelace area, perpendicular distance by cross product). '
        'Non-trivial = at least one truncated or extended surface block, or a non-rectangular mesh; distinct = recipe JSON.'
        ' Also: convert - translate / rotate the same geometry object - convert again (second grid judged against the geometry as it then is).'
        ' Rounds 7-10: copy_layers_from a structure with another top (recipe op relayer); block maps that swap / cycle / chain block names; FEET geometries; untidy vertical shifts; the bottom layer dropped with the raw mutator; atmosphere type set through the property; a column named like the reserved atmosphere column.')
ASSUMPTIONS = ['untilted geometries (gdcx = gdcy = None), as in the statement\'s -1 clause',
               'every column surface lies above the bottom of the model',
               'relative tolerance 1e-9 (1e-7 for areas of columns with 7-digit coordinates, where the library\'s float shoelace is the less exact side)']


def case_strategy():
    @st.composite
    def s(draw):
        rc = draw(geo.geometry(max_nx=5, max_ny=5, max_nz=5, shipped=True, ops=True, with_surfaces=True,
                               with_wells=False, header=True, max_shipped_cols=30, relayer=True))
        if draw(st.integers(0, 5)) == 0:
            # a vertical shift that is not exactly representable: layer boundaries and the surfaces lying on them must move together
            rc['ops'] = rc.get('ops', []) + [{'op': 'translate', 'shift': [0.0, 0.0, draw(st.sampled_from([0.3, 2.3, -4.9, 7.7, 0.001, 1e-3 + 1e3]))]}]
        if draw(st.integers(0, 7)) == 0: rc['ops'] = rc.get('ops', []) + [{'op': 'drop_layer'}]
        then = draw(st.sampled_from([None, None, 'translate', 'translate', 'rotate', 'same']))
        if then == 'translate':
            then = ['translate', [draw(st.sampled_from([0.0, 12.5, -300.0])), draw(st.sampled_from([0.0, 40.0])),
                                  draw(st.sampled_from([0.0, 7.25, -55.0, 120.0, 0.3, 2.3, -4.9, 7.7, 0.001]))]]
        elif then == 'rotate': then = ['rotate', draw(st.sampled_from([30.0, 90.0, -45.0]))]
        elif then: then = [then]
        setters = draw(st.lists(st.sampled_from([0, 1, 2]), min_size=1, max_size=2)) if draw(st.integers(0, 3)) == 0 else None
        return {'rc': rc, 'setters': setters, 'atm_named': draw(st.integers(1, 50)) if draw(st.integers(0, 2)) == 0 else None, 'blockmap': draw(st.sampled_from([None, None, 'all', 'some', 'swap', 'cycle', 'chain'])), 'then': then}
    return s()


def searches(tier):
    q = tier == 'quick'
    return [Search('shipped', 'enum', lambda: [{'rc': {'base': {'kind': 'shipped', 'file': f}}, 'blockmap': None}
                                               for f in (['g7.dat', 'g5.dat'] if q else geo.SHIPPED)], shards=7),
            Search('generated', 'hyp', case_strategy, n=1000 if q else 16000, shards=8 if q else 16)]


def close(a, b, rel=1e-9, ab=1e-9):
    return abs(a - b) <= ab + rel * max(abs(a), abs(b))


def run_case(case, R):
    import t2grids, mulgrids
    rc = case['rc']
    for l in geo.describe(rc): R.label(l)
    try:
        g = geo.build(rc)
    except mulgrids.NamingConventionError:
        R.label('build:naming-capacity'); return
    bad = geo.input_defects(g)
    if bad:
        for b in bad: R.exclude('input:' + b)
        return
    if case.get('atm_named') and g.atmosphere_type == 0 and g.atmosphere_column_name not in g.column:
        # a column that happens to carry the name the library reserves for the column part of the single atmosphere block
        # ('ATM', ' 0', '  0'): its blocks ('ATM 1', ...) are ordinary blocks
        R.label('column-named-like-the-atmosphere-column')
        with R.lib('rename_column'): g.rename_column(g.columnlist[case['atm_named'] % g.num_columns].name, g.atmosphere_column_name)
    for v in case.get('setters') or []:
        # the atmosphere type changed through its property on the finished geometry (the last value counts)
        R.label('setter:atmosphere_type:%d->%d' % (g.atmosphere_type, v))
        with R.lib('set-atmosphere_type'): g.atmosphere_type = v
    if verify(case, R, g) is False: return
    # conversion history on ONE geometry object: convert, move the geometry, convert again - the second grid must be
    # the grid of the geometry as it is now (nothing remembered from the first conversion)
    then = case.get('then')
    if then:
        R.label('then:' + then[0])
        with R.lib('then:' + then[0]):
            if then[0] == 'translate': g.translate(np.array([float(v) for v in then[1]]))
            elif then[0] == 'rotate': g.rotate(float(then[1]))
        verify(case, R, g)


def verify(case, R, g):
    import t2grids
    rc = case['rc']
    lays = g.layerlist
    und = lays[1:]
    zbot = und[-1].bottom
    if any(c.surface <= zbot for c in g.columnlist):
        R.exclude('domain:surface-at-or-below-model-bottom'); return False
    # ---------------------------------------------------------------- expected blocks (independent enumeration)
    natm = {0: 1, 1: g.num_columns, 2: 0}[g.atmosphere_type]
    names = list(g.block_name_list)
    bm = {}
    if case.get('blockmap'):
        kind = case['blockmap']
        for i, n in enumerate(names):
            if kind == 'all' or (kind == 'some' and i % 3 == 0):
                bm[n] = 'Z%04d' % i
            # mappings whose values are themselves block names of the geometry (applied once, not until nothing changes)
            elif kind == 'swap' and i % 2 == 0 and i + 1 < len(names) and i % 3 != 1:
                bm[n] = names[i + 1]; bm[names[i + 1]] = n
            elif kind == 'cycle':
                bm[n] = names[(i + 1) % len(names)]
            elif kind == 'chain' and i % 4 == 0 and i + 1 < len(names):
                bm[n] = names[i + 1]; bm[names[i + 1]] = 'Z%04d' % i
    mp = lambda n: bm.get(n, n)
    R.label('blockmap:%s' % case.get('blockmap'))
    with R.lib('fromgeo'):
        grid = t2grids.t2grid().fromgeo(g, dict(bm))
    size = max(1.0, max(abs(float(v)) for n in g.nodelist for v in n.pos))
    area_rel = 1e-9 if size < 1e5 else 1e-7
    colarea = dict((c.name, geom_ref.area_exact([n.pos for n in c.node])) for c in g.columnlist)
    for c in g.columnlist:
        if not R.check(colarea[c.name] > 0, 'input:column-not-ccw', c.name): return

    def top_of(lay, col):
        """top elevation of the block (independent statement of the block-top rule)"""
        topmost = (lay is und[0]) or (col.surface <= lay.top)
        if topmost:
            if col.surface < lay.top: return col.surface, 'truncated'
            if col.surface > lay.top and lay is und[0]: return col.surface, 'extended'
        return lay.top, 'full'

    exp_blocks = {}     # name -> dict
    order_expected = []
    kinds = set()
    for lay in und:
        for col in g.columnlist:
            if col.surface > lay.bottom:
                nm = g.block_name(lay.name, col.name)
                top, kind = top_of(lay, col)
                kinds.add(kind)
                zc = 0.5 * (lay.bottom + col.surface) if kind == 'truncated' or (lay.bottom < col.surface <= lay.top) \
                    else lay.centre
                exp_blocks[nm] = {'lay': lay, 'col': col, 'top': top, 'kind': kind,
                                  'volume': colarea[col.name] * (top - lay.bottom), 'zc': zc,
                                  'height': top - lay.bottom}
                order_expected.append(nm)
    for k in kinds: R.label('block:' + k)
    R.nontrivial(('truncated' in kinds) or ('extended' in kinds) or rc['base']['kind'] != 'rect')
    # block list: names and order
    got_names = [b.name for b in grid.blocklist]
    R.check(got_names == [mp(n) for n in names], 'blocks:names-or-order',
            lambda: 'grid blocks %r... announced %r...' % (got_names[:4], [mp(n) for n in names][:4]))
    R.check(set(names[natm:]) == set(exp_blocks) and len(names[natm:]) == len(exp_blocks), 'blocks:existence-rule',
            'underground blocks announced differ from {(layer, column): surface > layer bottom}')
    if g.block_order in (None, 'layer_column'):
        R.check(names[natm:] == order_expected, 'blocks:layer-column-order', 'block order is not layer by layer, column by column')
    # volumes
    tot = 0.0
    for n, e in exp_blocks.items():
        b = grid.block.get(mp(n))
        if b is None: continue
        tot += b.volume
        R.check(close(b.volume, e['volume'], area_rel), 'volume:%s' % e['kind'],
                'block %r (%s): volume %r expected area %r x height %r = %r' % (
                    n, e['kind'], b.volume, colarea[e['col'].name], e['height'], e['volume']))
    exp_tot = sum(colarea[c.name] * (c.surface - zbot) for c in g.columnlist)
    R.check(close(tot, exp_tot, max(area_rel, 1e-9)), 'volume:total', 'total %r expected sum(area x depth) %r' % (tot, exp_tot))
    # ---------------------------------------------------------------- expected connections
    exp_cons = []   # (name1, name2, kind, params)
    for il, lay in enumerate(und):
        cols = [c for c in g.columnlist if c.surface > lay.bottom]
        for col in cols:
            nm = g.block_name(lay.name, col.name)
            e = exp_blocks[nm]
            if il == 0 or col.surface <= lay.top:
                if g.atmosphere_type == 2: continue
                above = names[0] if g.atmosphere_type == 0 else g.block_name(lays[0].name, col.name)
                exp_cons.append((nm, above, 'atm', {'area': colarea[col.name], 'd': [col.surface - e['zc'], g.atmosphere_connection]}))
            else:
                al = und[il - 1]
                above = g.block_name(al.name, col.name)
                ea = exp_blocks[above]
                exp_cons.append((nm, above, 'vert', {'area': colarea[col.name], 'sep': ea['zc'] - e['zc'],
                                                     'd2': ea['zc'] - al.bottom}))
        inlay = set(c.name for c in cols)
        for con in g.connectionlist:
            c0, c1 = con.column
            if c0.name in inlay and c1.name in inlay:
                n0, n1 = g.block_name(lay.name, c0.name), g.block_name(lay.name, c1.name)
                shared = [n for n in c0.node if n in c1.node]
                exp_cons.append((n0, n1, 'horiz', {'shared': shared, 'c0': c0, 'c1': c1, 'lay': lay}))
    got = [(c.block[0].name, c.block[1].name) for c in grid.connectionlist]
    ann = [(mp(a), mp(b)) for a, b in g.block_connection_name_list]
    R.check(got == ann, 'connections:names-or-order', lambda: 'grid %r... announced %r...' % (got[:3], ann[:3]))
    R.check(sorted(got) == sorted((mp(a), mp(b)) for a, b, _k, _p in exp_cons), 'connections:existence-rule',
            lambda: 'grid connections differ from the independent enumeration: only in grid %r, only expected %r' % (
                sorted(set(got) - set((mp(a), mp(b)) for a, b, _k, _p in exp_cons))[:3],
                sorted(set((mp(a), mp(b)) for a, b, _k, _p in exp_cons) - set(got))[:3]))
    for a, b, kind, p in exp_cons:
        con = grid.connection.get((mp(a), mp(b)))
        if con is None: continue
        R.label('con:' + kind)
        d = [float(x) for x in con.distance]
        if kind == 'atm':
            R.check(close(con.area, p['area'], area_rel), 'atm:area', '%r: area %r expected column area %r' % ((a, b), con.area, p['area']))
            R.check(close(d[0], p['d'][0]) and close(d[1], p['d'][1], 1e-12, 0.0), 'atm:distance',
                    '%r: distances %r expected [surface - centre, atmosphere connection] = %r' % ((a, b), d, p['d']))
            R.check(con.dircos == -1, 'atm:dircos', '%r: %r' % ((a, b), con.dircos))
        elif kind == 'vert':
            R.check(close(con.area, p['area'], area_rel), 'vertical:area', '%r: area %r expected %r' % ((a, b), con.area, p['area']))
            R.check(close(d[0] + d[1], p['sep']), 'vertical:distance-sum',
                    '%r: distances %r sum to %r, centre separation %r' % ((a, b), d, d[0] + d[1], p['sep']))
            R.check(d[0] > 0 and d[1] > 0 and close(d[1], p['d2']), 'vertical:distance-split',
                    '%r: distances %r, upper block centre is %r above the interface' % ((a, b), d, p['d2']))
            R.check(con.dircos == -1, 'vertical:dircos', '%r: %r (lower, upper) expected -1' % ((a, b), con.dircos))
        else:
            sh = p['shared']
            if len(sh) != 2:
                R.exclude('input:connection-without-shared-edge'); continue
            L = geom_ref.dist(sh[0].pos, sh[1].pos)
            h = min(exp_blocks[a]['height'], exp_blocks[b]['height'])
            R.check(close(con.area, L * h), 'horizontal:area',
                    '%r: area %r expected edge %r x min height %r = %r' % ((a, b), con.area, L, h, L * h))
            e0 = geom_ref.perp_dist_to_line(p['c0'].centre, sh[0].pos, sh[1].pos)
            e1 = geom_ref.perp_dist_to_line(p['c1'].centre, sh[0].pos, sh[1].pos)
            tol = 1e-9 * size
            R.check(abs(d[0] - e0) <= tol + 1e-9 * e0 and abs(d[1] - e1) <= tol + 1e-9 * e1, 'horizontal:distance',
                    '%r: distances %r expected perpendicular distances %r' % ((a, b), d, [e0, e1]))
            dz = exp_blocks[b]['zc'] - exp_blocks[a]['zc']
            dxy = geom_ref.dist(p['c0'].centre, p['c1'].centre)
            ec = -dz / math.sqrt(dxy * dxy + dz * dz)
            R.check(abs(con.dircos - ec) <= 1e-9, 'horizontal:dircos',
                    '%r: gravity cosine %r expected %r (dz = %r)' % ((a, b), con.dircos, ec, dz))
            if dz != 0: R.label('horizontal:beside-truncated-block')


LEVEL_TEXT = ('Generated geometries (Hypothesis recipes; surfaces below, inside and above every layer; all atmosphere types, '
              'block orders, conventions; with/without block map) converted with fromgeo and compared with an independent '
              'enumeration of blocks/connections and independent geometry formulas; two to seven shipped geometries whole. Refutes only.')
LEVEL_NOTE = 'Trusted: refs/geom_ref.py (exact-rational area, cross-product distances); public geometry attributes as input data.'
TECHNIQUE = 'property-based testing (Hypothesis) against an independent geometric reference model'
