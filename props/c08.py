"""C08 - TOUGH2 grid stays internally consistent under any sequence of edits."""
import itertools
from hypothesis import strategies as st
from vlib.core import Search, HarnessError, Aborted
from gens import geo

ID = 'C08'
CASE_TIMEOUT = 600
RULE = ('histories of grid edits as JSON op lists whose arguments are indices resolved against the current state '
        '(so a history shrinks and replays as one value). enum: from a fixed populated start grid (blocks a,b,c of a '
        '4-name universe, connections a-b and b-c, rocks r0,r1) EVERY sequence of the stated length over the full '
        'concrete alphabet (add/delete block, add/delete connection in both orientations, add/delete/rename rock type, '
        'all 209 injective partial name maps of the universe for rename_blocks, reorders = every block permutation x '
        '{identity, reversed, rotated connection order} x {no, first, all connections flipped}, demote, clean_rocktypes, '
        'minc, + and embed with fresh sub-grids); one case = one prefix, expanded with every last operation. '
        'random: Hypothesis op lists up to 60 long on grids built from geometries (<= 200 blocks). After every '
        'operation the structural invariant is evaluated and the grid compared with an abstract reference model '
        '(ordered names, oriented pairs, rock names). Non-trivial = history with >= 2 different operation kinds '
        'including a rename, reorder or delete; distinct = distinct history JSON.'
        " Also: MINC with clashing generated names (refusal ends the history, acceptance is judged), demote with repeated names, rename targets in the simulator's printed form ('qq1 5')."
        ' Rounds 7-9: five-character rock names and over-long rename targets; set_rocktype (one block / all atmosphere-flagged blocks) and an atmosphere-flagged start block; reorders refused for an unknown pair at every position; a held block object added again.')
ASSUMPTIONS = ['preconditions from the code/docs are honoured by construction: new block names are unused, connections join two '
               'present distinct blocks not already connected in either orientation, deleted rock types are unused, rename '
               'targets do not collide with an unrenamed block, MINC only when the default matrix names are free',
               'a block\'s rock type is registered when the grid\'s lookup returns that very object under its name',
               'block names are such that the (A3,I2) repair is the identity']

U = ['  a 1', '  b 1', '  c 1', '  d 1']
ROCKS = ['rck_0', 'rck_1', 'rck_2']      # five characters, as TOUGH2 holds them


# ---------------------------------------------------------------------------------------------- abstract model
class Model(object):
    def __init__(self):
        self.blocks = []     # [id, name, rock, volume]
        self.cons = []       # [idA, idB]
        self.rocks = []      # names
        self.redefined = set()   # rock names re-registered with add_rocktype() after blocks were given the old object
        self.next = 0

    def names(self): return [b[1] for b in self.blocks]
    def byname(self, n): return next((b for b in self.blocks if b[1] == n), None)
    def name_of(self, i): return next(b[1] for b in self.blocks if b[0] == i)
    def pairs(self): return [(self.name_of(a), self.name_of(b)) for a, b in self.cons]

    def add_block(self, name, rock, vol=1.0):
        self.blocks.append([self.next, name, rock, vol]); self.next += 1
        return self.next - 1


def start_state():
    import t2grids
    g = t2grids.t2grid()
    m = Model()
    for r in ROCKS[:2]:
        g.add_rocktype(t2grids.rocktype(r)); m.rocks.append(r)
    for i, n in enumerate(U[:3]):
        # the middle block, the only one of its rock type, is flagged as an atmosphere block (as fromgeo() flags them)
        g.add_block(t2grids.t2block(n, 10.0 + i, g.rocktype[ROCKS[i % 2]], centre=[float(i), 0., 0.], atmosphere=(i == 1)))
        m.add_block(n, ROCKS[i % 2], 10.0 + i)
    for a, b in ((0, 1), (1, 2)):
        g.add_connection(t2grids.t2connection([g.blocklist[a], g.blocklist[b]], 1, [1.0 + a, 2.0 + b], 3.0, 0.0))
        m.cons.append([a, b])
    return g, m


def geo_state(rc):
    import t2grids
    gg = geo.build(rc)
    g = t2grids.t2grid().fromgeo(gg)
    m = Model()
    m.rocks = [r.name for r in g.rocktypelist]
    ids = {}
    for b in g.blocklist:
        ids[b.name] = m.add_block(b.name, b.rocktype.name, b.volume)
    for c in g.connectionlist:
        m.cons.append([ids[c.block[0].name], ids[c.block[1].name]])
    return g, m


# ---------------------------------------------------------------------------------------------- invariant
def invariant(R, g, op, identity_exempt=()):
    tag = op
    names = [b.name for b in g.blocklist]
    ok = R.check(len(set(names)) == len(names), tag + ':block-names-not-unique', repr(names[:8]))
    R.check(set(g.block.keys()) == set(names), tag + ':block-lookup-vs-list',
            'lookup keys %r, list %r' % (sorted(g.block.keys())[:8], sorted(names)[:8]))
    for b in g.blocklist:
        if g.block.get(b.name) is not b:
            R.fail(tag + ':block-lookup-wrong-object', 'block[%r] is not the listed block' % b.name); break
    cnames = [tuple(b.name for b in c.block) for c in g.connectionlist]
    R.check(len(set(cnames)) == len(cnames), tag + ':connection-names-not-unique', repr(cnames[:6]))
    R.check(set(g.connection.keys()) == set(cnames), tag + ':connection-lookup-vs-list',
            'keys only in lookup %r, only in list %r' % (sorted(set(g.connection.keys()) - set(cnames))[:4],
                                                         sorted(set(cnames) - set(g.connection.keys()))[:4]))
    for c, k in zip(g.connectionlist, cnames):
        if g.connection.get(k) is not c:
            R.fail(tag + ':connection-lookup-wrong-object', 'connection[%r] is not the listed connection' % (k,)); break
    for c in g.connectionlist:
        for b in c.block:
            if g.block.get(b.name) is not b:
                R.fail(tag + ':connection-joins-block-not-in-grid', 'connection %r refers to %r' % (c, b.name)); break
    for b in g.blocklist:
        exp = set(k for k in cnames if b.name in k)
        if set(b.connection_name) != exp:
            R.fail(tag + ':block-connection-record', 'block %r records %r, connections mentioning it %r' % (
                b.name, sorted(b.connection_name)[:4], sorted(exp)[:4])); break
    rnames = [r.name for r in g.rocktypelist]
    R.check(len(set(rnames)) == len(rnames) and set(g.rocktype.keys()) == set(rnames), tag + ':rocktype-lookup-vs-list',
            'keys %r list %r' % (sorted(g.rocktype.keys()), rnames))
    for b in g.blocklist:
        if b.rocktype is None or b.rocktype.name not in g.rocktype:
            R.fail(tag + ':block-rocktype-name-not-registered', 'block %r has rock type %r; registered names %r' % (
                b.name, getattr(b.rocktype, 'name', None), sorted(g.rocktype))); break
        # add_rocktype() documents that re-registering a name replaces the registered object: blocks holding the
        # replaced object are exempt from the identity test (by name they are still registered)
        if b.rocktype.name not in identity_exempt and g.rocktype.get(b.rocktype.name) is not b.rocktype:
            R.fail(tag + ':block-rocktype-not-registered', 'block %r has rock type %r, which is not the object registered '
                   'under that name (registered names %r)' % (b.name, getattr(b.rocktype, 'name', None), sorted(g.rocktype))); break


def compare_model(R, g, m, op):
    R.check([b.name for b in g.blocklist] == m.names(), op + ':model:blocks',
            'grid blocks %r, reference %r' % ([b.name for b in g.blocklist][:8], m.names()[:8]))
    got = [tuple(b.name for b in c.block) for c in g.connectionlist]
    R.check(got == m.pairs(), op + ':model:connections', 'grid %r, reference %r' % (got[:6], m.pairs()[:6]))
    R.check([r.name for r in g.rocktypelist] == m.rocks, op + ':model:rocktypes',
            'grid %r reference %r' % ([r.name for r in g.rocktypelist], m.rocks))
    gr = dict((b.name, b.rocktype.name) for b in g.blocklist)
    mr = dict((b[1], b[2]) for b in m.blocks)
    R.check(gr == mr, op + ':model:block-rocktypes', 'rock type of some block differs from the reference')


# ---------------------------------------------------------------------------------------------- operations
def fresh_name(m, k):
    """k-th unused name of the form '  x N' (repair-neutral)."""
    used = set(m.names())
    out = []
    for n in range(1, 100):
        for ch in 'abcdefghijklmnopqrstuvwxyz':
            nm = ' %s%s%2d' % (' ', ch, n) if False else '  %s%2d' % (ch, n)
            if nm not in used:
                out.append(nm)
                if len(out) > k: return nm
    raise HarnessError('no fresh name')


def apply_op(R, g, m, op):
    """Apply one op to the real grid and to the model.  Returns (new grid, kind) - kind None if skipped."""
    import t2grids
    k = op['op']
    nb, nc = len(m.blocks), len(m.cons)
    if k == 'add_block':
        name = op.get('name') or fresh_name(m, op.get('i', 0) % 5)
        if name in m.names() or not m.rocks: return g, None
        rock = op['rock'] if op.get('rock') in m.rocks else m.rocks[op.get('r', 0) % len(m.rocks)]
        g.add_block(t2grids.t2block(name, 5.0, g.rocktype[rock], centre=[0., 0., 0.]))
        m.add_block(name, rock, 5.0)
    elif k == 'delete_block':
        if op.get('name') is not None:
            b = m.byname(op['name'])
            if b is None: return g, None
        else:
            if nb == 0: return g, None
            b = m.blocks[op['i'] % nb]
        g.delete_block(b[1])
        m.cons = [c for c in m.cons if b[0] not in c]
        m.blocks.remove(b)
    elif k == 'add_connection':
        if op.get('a') is not None:
            a, b = m.byname(op['a']), m.byname(op['b'])
            if a is None or b is None: return g, None
        else:
            if nb < 2: return g, None
            a = m.blocks[op['i'] % nb]; b = m.blocks[op['j'] % nb]
        if a is b or [a[0], b[0]] in m.cons: return g, None        # the same ordered pair is a replacement, not an addition
        if [b[0], a[0]] in m.cons: R.label('connection:both-orientations')
        g.add_connection(t2grids.t2connection([g.block[a[1]], g.block[b[1]]], 2, [1.5, 2.5], 4.0, 0.5))
        m.cons.append([a[0], b[0]])
    elif k == 'delete_connection':
        if op.get('a') is not None:
            a, b = m.byname(op['a']), m.byname(op['b'])
            if a is None or b is None or [a[0], b[0]] not in m.cons: return g, None
            c = [a[0], b[0]]
        else:
            if nc == 0: return g, None
            c = m.cons[op['i'] % nc]
        g.delete_connection((m.name_of(c[0]), m.name_of(c[1])))
        m.cons.remove(c)
    elif k == 'add_rocktype':
        name = op.get('name') or 'q%04d' % (op.get('i', 0) % 7)
        if name in m.rocks: return g, None
        g.add_rocktype(t2grids.rocktype(name)); m.rocks.append(name)
    elif k == 'set_rocktype':
        # rock types are assigned by setting the block attribute; 'atm': all blocks flagged as atmosphere blocks
        if not m.rocks or nb == 0: return g, None
        rock = m.rocks[op['r'] % len(m.rocks)]
        if rock in m.redefined: return g, None
        who = [b for b in g.blocklist if b.atmosphere] if op.get('who') == 'atm' else [g.blocklist[op['i'] % nb]]
        if not who: return g, None
        if op.get('who') == 'atm': R.label('set_rocktype:atmosphere-blocks')
        for b in who:
            b.rocktype = g.rocktype[rock]
            m.byname(b.name)[2] = rock
    elif k == 'readd_block':
        # a block object the grid already holds is added again (as `+` and embed() do for shared blocks): nothing changes
        if nb == 0: return g, None
        g.add_block(g.blocklist[op['i'] % nb])
    elif k == 'redefine_rocktype':
        if not m.rocks: return g, None
        name = op['name'] if op.get('name') in m.rocks else m.rocks[op.get('i', 0) % len(m.rocks)]
        if op.get('name') is not None and op['name'] not in m.rocks: return g, None
        g.add_rocktype(t2grids.rocktype(name, porosity=0.25))
        if any(b[2] == name for b in m.blocks): m.redefined.add(name)
    elif k == 'delete_rocktype':
        cand = [r for r in m.rocks if all(b[2] != r for b in m.blocks)]
        if op.get('name') is not None: cand = [r for r in cand if r == op['name']]
        if not cand: return g, None
        r = cand[op.get('i', 0) % len(cand)]
        g.delete_rocktype(r); m.rocks.remove(r)
    elif k == 'rename_rocktype':
        if not m.rocks: return g, None
        old = op['old'] if op.get('old') is not None else m.rocks[op['i'] % len(m.rocks)]
        new = op.get('new') or 'n%04d' % (op.get('j', 0) % 5)
        if op.get('long'):
            # a new name longer than the five characters a data file holds, beginning like a registered name (the grid
            # itself places no limit on the length)
            new = m.rocks[op.get('j', 0) % len(m.rocks)] + '_weathered'; R.label('rename_rocktype:over-long-name')
        if old in m.redefined: return g, None       # blocks still hold the replaced object of that name: renaming is the caller's problem
        if old not in m.rocks or (new in m.rocks and new != old):
            # documented refusal ("if that rocktype does not exist, or the target name has already been used, an exception
            # is raised"): the refused call is not an edit - the grid must be what it was (judged against the unchanged model)
            R.label('rename_rocktype:refused')
            try:
                g.rename_rocktype(old, new)
            except Exception as e:
                if 'already exists' in str(e) or 'not found' in str(e): return g, 'rename_rocktype'
                raise
            R.fail('rename_rocktype:not-refused', 'rename_rocktype(%r, %r) went through although %s' % (
                old, new, 'the source does not exist' if old not in m.rocks else 'the target name is in use'))
            raise Aborted()
        if new == old: return g, None
        g.rename_rocktype(old, new)
        m.rocks[m.rocks.index(old)] = new
        for b in m.blocks:
            if b[2] == old: b[2] = new
    elif k == 'rename_blocks':
        if op.get('map') is not None:
            mp = dict(op['map'])
        else:
            if nb == 0: return g, None
            src = list(dict.fromkeys(m.blocks[i % nb][1] for i in op['src']))
            kind = op.get('kind', 'fresh')
            if kind == 'fresh': tg = [fresh_name(m, 10 + j) for j in range(len(src))]
            elif kind == 'cycle': tg = src[1:] + src[:1]
            elif kind == 'swap': tg = src[:2][::-1] + src[2:]
            elif kind == 'quirk':                         # targets written the way the simulator prints them ('qq1 5' for 'qq105'):
                tg = ['qq%d %d' % (1 + j // 10, j % 10) for j in range(len(src))]       # rename_blocks repairs such names by default
            elif kind == 'twins':                         # names that differ in the first character only (MINC derives names from the rest)
                src = src[:2]; tg = ['Xzz 9', 'Yzz 9'][:len(src)]
            else: tg = src[1:] + [fresh_name(m, 3)]      # shift into a fresh name
            mp = dict(zip(src, tg))
        from refs.incon_ref import quirk_repair
        given = dict(mp)
        mp = dict((quirk_repair(a), quirk_repair(b)) for a, b in mp.items())      # what the default fix_blocknames=True makes of the map
        if mp != given: R.label('rename:names-needing-repair')
        mp = dict((a, b) for a, b in mp.items() if a != b)
        names = m.names()
        unren = set(n for n in names if n not in mp)
        if not mp or any(t in unren for s, t in mp.items() if s in names): return g, None
        if len(set(mp.values())) != len(mp): return g, None
        present = [s for s in mp if s in names]
        if not present: return g, None
        R.label('rename:' + ('overlapping' if set(mp.values()) & set(present) else 'disjoint'))
        g.rename_blocks(dict((a, b) for a, b in given.items() if quirk_repair(a) != quirk_repair(b)))
        for b in m.blocks:
            if b[1] in mp: b[1] = mp[b[1]]
    elif k == 'reorder':
        if nb == 0: return g, None
        perm = op['perm']
        if perm == 'reverse': order = list(range(nb))[::-1]
        elif perm == 'rotate': order = list(range(1, nb)) + [0]
        elif perm == 'identity': order = list(range(nb))
        else:
            order = [p for p in perm if p < nb] + [i for i in range(nb) if i not in perm]
        cp = op.get('cperm', 'identity')
        if isinstance(cp, list):
            corder = [p for p in cp if p < nc] + [i for i in range(nc) if i not in cp]
        else:
            corder = {'identity': list(range(nc)), 'reverse': list(range(nc))[::-1],
                      'rotate': (list(range(1, nc)) + [0]) if nc else []}[cp]
        flip = op.get('flip', 'none')
        fl = set() if flip == 'none' else (set(range(nc)) if flip == 'all' else
                                           (set([0]) if flip == 'first' else set(i % nc for i in flip) if nc else set()))
        if fl: R.label('reorder:with-reversed-connection')
        bn = [m.blocks[i][1] for i in order]
        cn = []
        newcons = []
        for i in corder:
            a, b = m.cons[i]
            if i in fl and [b, a] not in m.cons: a, b = b, a
            cn.append((m.name_of(a), m.name_of(b))); newcons.append([a, b])
        if op.get('unknown') is not None and nc:
            # a pair that exists in neither orientation, somewhere in the list: documented refusal ("Unknown connection name").
            # What the call had done by then stays done (blocks in the new order, pairs listed the other way round before the
            # unknown one turned), and the grid must be consistent in that state
            pos = op['unknown'] % (len(cn) + 1)
            R.label('reorder:refused-at-%s' % ('start' if pos == 0 else 'end' if pos == len(cn) else 'middle'))
            try:
                g.reorder(bn, cn[:pos] + [('?????', '!!!!!')] + cn[pos:])
            except Exception as e:
                if 'Unknown connection name' not in str(e): raise
            else:
                R.fail('reorder:not-refused', 'reorder() accepted a connection name that does not exist'); raise Aborted()
            m.blocks = [m.blocks[i] for i in order]
            for i, pair in zip(corder[:pos], newcons[:pos]): m.cons[i] = pair
            return g, 'reorder'
        g.reorder(bn, cn if nc else None)
        m.blocks = [m.blocks[i] for i in order]
        if nc: m.cons = newcons
    elif k == 'demote_block':
        if nb == 0: return g, None
        idx = [i % nb for i in op['blocks']]         # a name may be listed more than once (e.g. two boundary lists sharing a corner)
        if len(set(idx)) < len(idx): R.label('demote:repeated-name')
        nm = [m.blocks[i][1] for i in idx]
        g.demote_block(nm if len(nm) > 1 else nm[0])
        for n in nm:
            b = m.byname(n); m.blocks.remove(b); m.blocks.append(b)
        if len(set(idx)) < len(idx):
            # with a repeated name only "the named blocks end up last" is documented, not their mutual order: take the
            # grid's order for them if it is an arrangement of the same blocks
            kk = len(m.blocks) - len(set(nm))
            tail = [b.name for b in g.blocklist[kk:]]
            if sorted(tail) == sorted(set(nm)) and len(g.blocklist) == len(m.blocks):
                m.blocks = m.blocks[:kk] + [m.byname(n) for n in tail]
    elif k == 'clean_rocktypes':
        g.clean_rocktypes()
        m.rocks = [r for r in m.rocks if any(b[2] == r for b in m.blocks)]
    elif k == 'minc':
        if nb == 0: return g, None
        sel = list(dict.fromkeys(i % nb for i in op['blocks'])) if op.get('blocks') else list(range(nb))
        nm = [m.blocks[i][1] for i in sel]
        vf = op.get('vf', [0.1, 0.9])
        levels = len(vf) - 1
        proc = [n for n in nm if 0. < m.byname(n)[3] < 1e25]
        newnames = [str(l) + n[len(str(l)):] for n in proc for l in range(1, levels + 1)]
        if len(set(newnames)) != len(newnames) or set(newnames) & set(m.names()):
            # generated matrix block names clash (with each other or with a block of the grid): either the edit is
            # refused (the history ends there: a refusal is not an edit), or it is carried out and then the grid
            # must be as consistent as after any other edit
            R.label('minc:name-clash')
            try:
                g.minc(vf, spacing=op.get('spacing', 50.), num_fracture_planes=op.get('nfp', 1), blocks=nm)
            except Exception as e:
                if 'Duplicate MINC matrix block name' in str(e):
                    R.label('minc:name-clash-refused'); raise Aborted()
                raise
            invariant(R, g, 'minc', m.redefined)
            raise Aborted()
        g.minc(vf, spacing=op.get('spacing', 50.), num_fracture_planes=op.get('nfp', 1), blocks=nm)
        tot = float(sum(vf))
        for n in proc:
            b = m.byname(n)
            last = b[0]
            vol = b[3]
            b[3] = vol * vf[0] / tot
            for l in range(1, levels + 1):
                rn = 'X' + b[2][1:]
                if rn not in m.rocks: m.rocks.append(rn)
                nid = m.add_block(str(l) + n[len(str(l)):], rn, vol * vf[l] / tot)
                m.cons.append([last, nid]); last = nid
            if b[2] not in m.rocks: m.rocks.append(b[2])
    elif k in ('plus', 'embed'):
        n1, n2 = fresh_name(m, 20), fresh_name(m, 21)
        sub = t2grids.t2grid()
        rk = op.get('rock', 'sub')
        sub.add_rocktype(t2grids.rocktype(rk))
        sub.add_block(t2grids.t2block(n1, 0.25, sub.rocktype[rk], centre=[0., 0., 0.]))
        sub.add_block(t2grids.t2block(n2, 0.5, sub.rocktype[rk], centre=[1., 0., 0.]))
        sub.add_connection(t2grids.t2connection([sub.blocklist[0], sub.blocklist[1]], 1, [0.5, 0.5], 1.0, 0.0))
        if k == 'plus':
            g = g + sub
        else:
            hosts = [b for b in m.blocks if b[3] > 0.75]
            if not hosts: return g, None
            h = hosts[op.get('i', 0) % len(hosts)]
            hb, sb = g.block[h[1]], sub.blocklist[0]
            if op.get('standin'):
                # the caller's connection names the two blocks through equal-named stand-in objects (e.g. taken from a copy
                # of the model): embed resolves them by name
                R.label('embed:stand-in-blocks')
                hb = t2grids.t2block(hb.name, hb.volume, hb.rocktype, centre=hb.centre)
                sb = t2grids.t2block(sb.name, sb.volume, sb.rocktype, centre=sb.centre)
            res = g.embed(sub, t2grids.t2connection([hb, sb], 1, [0.1, 0.1], 1.0, 0.0))
            if res is None:
                R.fail('embed:refused', 'embed returned None for a host of volume %r and a 0.75 sub-grid' % h[3]); return g, None
            g = res
            h[3] -= 0.75
        if rk not in m.rocks: m.rocks.append(rk)
        i1 = m.add_block(n1, rk, 0.25); i2 = m.add_block(n2, rk, 0.5)
        m.cons.append([i1, i2])
        if k == 'embed': m.cons.append([h[0], i1])
    else:
        raise HarnessError('unknown op %r' % (op,))
    return g, k


def run_history(R, g, m, ops, judge_from=0):
    kinds = []
    for n, op in enumerate(ops):
        try:
            with R.lib(op['op']):
                g, kind = apply_op(R, g, m, op)
        except Exception as e:
            if type(e).__name__ == 'Aborted': return g, kinds, False
            raise
        if kind is None:
            R.label('skipped:' + op['op']); continue
        kinds.append(kind)
        R.label('op:' + kind)
        if n >= judge_from:
            before = len(R.findings)
            invariant(R, g, kind, m.redefined)
            compare_model(R, g, m, kind)
            if len(R.findings) > before:
                return g, kinds, False       # later operations would only echo this defect
    return g, kinds, True


# ---------------------------------------------------------------------------------------------- alphabets
def partial_injections(names):
    out = []
    for k in range(1, len(names) + 1):
        for src in itertools.combinations(names, k):
            for tg in itertools.permutations(names, k):
                if any(a != b for a, b in zip(src, tg)):
                    out.append([[a, b] for a, b in zip(src, tg) if a != b])
    seen, res = set(), []
    for mp in out:
        key = tuple(map(tuple, mp))
        if key not in seen: seen.add(key); res.append(mp)
    return res


def alphabet(full):
    A = []
    for n in U:
        for r in ROCKS[:2]: A.append({'op': 'add_block', 'name': n, 'rock': r})
        A.append({'op': 'delete_block', 'name': n})
    for a, b in itertools.permutations(U, 2):
        A.append({'op': 'add_connection', 'a': a, 'b': b})
        A.append({'op': 'delete_connection', 'a': a, 'b': b})
    for r in ROCKS:
        A.append({'op': 'add_rocktype', 'name': r}); A.append({'op': 'delete_rocktype', 'name': r})
        A.append({'op': 'redefine_rocktype', 'name': r})
    for a, b in itertools.permutations(ROCKS, 2): A.append({'op': 'rename_rocktype', 'old': a, 'new': b})
    for a, b in itertools.permutations(ROCKS[:2], 2): A.append({'op': 'rename_rocktype', 'old': a, 'new': b + '_weathered'})
    maps = partial_injections(U)
    if not full:
        keep = [[[U[0], U[1]], [U[1], U[0]]], [[U[0], U[1]], [U[1], U[2]], [U[2], U[0]]], [[U[0], U[3]]],
                [[U[1], U[2]], [U[2], U[3]]], [[U[0], U[1]], [U[1], U[3]]], [[U[2], U[3]]]]
        maps = keep
    maps = maps + [[[U[0], 'Xzz 9'], [U[1], 'Yzz 9']], [[U[0], 'qq1 5'], [U[2], 'qq2 7']]]
    for mp in maps: A.append({'op': 'rename_blocks', 'map': mp})
    perms = list(itertools.permutations(range(4))) if full else [(3, 2, 1, 0), (1, 2, 3, 0), (0, 1, 2, 3)]
    for p in perms:
        for cp in (['identity', 'reverse', 'rotate'] if full else ['identity', 'reverse']):
            for fl in ['none', 'first', 'all']:
                A.append({'op': 'reorder', 'perm': list(p), 'cperm': cp, 'flip': fl})
    for u in (0, 1, 2):
        A.append({'op': 'reorder', 'perm': 'reverse', 'cperm': 'identity', 'flip': 'all', 'unknown': u})
    A.append({'op': 'readd_block', 'i': 1})
    for i in range(4): A.append({'op': 'demote_block', 'blocks': [i]})
    A.append({'op': 'demote_block', 'blocks': [0, 2]}); A.append({'op': 'demote_block', 'blocks': [1, 0, 1]})
    A.append({'op': 'clean_rocktypes'})
    A.append({'op': 'minc', 'vf': [0.1, 0.9]}); A.append({'op': 'minc', 'vf': [1, 2, 3], 'blocks': [0, 1]})
    A.append({'op': 'plus'}); A.append({'op': 'plus', 'rock': ROCKS[0]}); A.append({'op': 'embed', 'i': 0}); A.append({'op': 'embed', 'i': 0, 'standin': True})
    return A


def enum_prefixes(length, full_prefix, full_last):
    """cases: every prefix of length-1 operations; each is expanded with every last operation."""
    def g():
        A = alphabet(full_prefix)
        for L in range(0, length):
            for pre in itertools.product(range(len(A)), repeat=L):
                yield {'k': 'enum', 'prefix': [A[i] for i in pre], 'last': 'full' if full_last else 'reduced'}
    return g


# ---------------------------------------------------------------------------------------------- random histories
def op_strategy():
    i = st.integers(0, 10000)
    small = st.lists(st.integers(0, 10000), min_size=1, max_size=4)
    return st.one_of(
        st.builds(lambda a, r: {'op': 'add_block', 'i': a, 'r': r}, i, i),
        st.builds(lambda a: {'op': 'delete_block', 'i': a}, i),
        st.builds(lambda a, b: {'op': 'add_connection', 'i': a, 'j': b}, i, i),
        st.builds(lambda a: {'op': 'delete_connection', 'i': a}, i),
        st.builds(lambda a: {'op': 'add_rocktype', 'i': a}, i),
        st.builds(lambda a: {'op': 'delete_rocktype', 'i': a}, i),
        st.builds(lambda a: {'op': 'redefine_rocktype', 'i': a}, i),
        st.builds(lambda a: {'op': 'readd_block', 'i': a}, i),
        st.builds(lambda a, r, w: {'op': 'set_rocktype', 'i': a, 'r': r, 'who': w}, i, i, st.sampled_from(['one', 'one', 'atm'])),
        st.builds(lambda a, b: {'op': 'rename_rocktype', 'i': a, 'j': b}, i, i),
        st.builds(lambda a, b: {'op': 'rename_rocktype', 'i': a, 'j': b, 'long': True}, i, i),
        st.builds(lambda s, k: {'op': 'rename_blocks', 'src': s, 'kind': k}, small, st.sampled_from(['fresh', 'cycle', 'swap', 'shift'])),
        st.builds(lambda s, k: {'op': 'rename_blocks', 'src': s, 'kind': k}, small, st.sampled_from(['cycle', 'swap', 'shift', 'twins', 'quirk'])),
        st.builds(lambda p, c, f: {'op': 'reorder', 'perm': p, 'cperm': c, 'flip': f},
                  st.one_of(st.sampled_from(['reverse', 'rotate', 'identity']), st.lists(st.integers(0, 40), unique=True, max_size=8)),
                  st.one_of(st.sampled_from(['reverse', 'rotate', 'identity']), st.lists(st.integers(0, 60), unique=True, max_size=8)),
                  st.one_of(st.sampled_from(['none', 'first', 'all']), st.lists(st.integers(0, 300), min_size=1, max_size=5))),
        st.builds(lambda p, f, u: {'op': 'reorder', 'perm': p, 'cperm': 'identity', 'flip': f, 'unknown': u},
                  st.sampled_from(['reverse', 'rotate', 'identity']), st.sampled_from(['first', 'all']), st.integers(0, 50)),
        st.builds(lambda s: {'op': 'demote_block', 'blocks': s}, small),
        st.just({'op': 'clean_rocktypes'}),
        st.builds(lambda s, v, n: {'op': 'minc', 'blocks': s, 'vf': v, 'nfp': n}, small,
                  st.sampled_from([[0.1, 0.9], [1, 2, 3], [0.05, 0.2, 0.3, 0.45]]), st.sampled_from([1, 2, 3])),
        st.just({'op': 'plus'}), st.builds(lambda a, s: {'op': 'embed', 'i': a, 'standin': s}, i, st.booleans()))


OPS = op_strategy()


def random_case():
    @st.composite
    def s(draw):
        rc = draw(geo.geometry(max_nx=4, max_ny=4, max_nz=4, shipped=True, ops=False, with_surfaces=True,
                               max_shipped_cols=25, tiny_ok=True))
        n = draw(st.sampled_from([3, 8, 15, 30, 60]))
        return {'k': 'random', 'rc': rc, 'ops': draw(st.lists(OPS, min_size=n, max_size=n))}
    return s()


def searches(tier):
    q = tier == 'quick'
    S = [Search('enum_len2_full', 'enum', enum_prefixes(2, True, True), shards=16),
         Search('enum_len3_reduced', 'enum', enum_prefixes(3, False, False), shards=16),
         Search('random_histories', 'hyp', random_case, n=640 if q else 16000, shards=16)]
    if not q:
        S.insert(1, Search('enum_len3_full', 'enum', enum_prefixes(3, True, True), shards=16))
        S.insert(3, Search('enum_len4_reduced', 'enum', enum_prefixes(4, False, False), shards=16))
    return S


_ALPHA = {}


def run_case(case, R):
    import mulgrids
    if case['k'] == 'enum':
        full = case['last'] == 'full'
        if full not in _ALPHA: _ALPHA[full] = alphabet(full)
        n = 0
        if case['prefix']:
            # the prefix itself is a case of the shorter enumeration: if it already breaks the grid, that is
            # reported there (under the operation that broke it) and nothing is expanded from the broken state
            g, m = start_state()
            sub = type(R)()
            run_history(sub, g, m, case['prefix'])
            if sub.findings:
                R.label('prefix-already-broken'); R.exclude('prefix-already-broken'); return
        for last in _ALPHA[full]:
            g, m = start_state()
            ops = case['prefix'] + [last]
            g, kinds, ok = run_history(R, g, m, ops, judge_from=len(ops) - 1)
            n += 1
            if not ok and R.findings:
                R.findings[-1] = (R.findings[-1][0], R.findings[-1][1] + ' | history: %r' % (ops,))
        R.count(n)
        ks = set(o['op'] for o in case['prefix'])
        R.nontrivial(len(case['prefix']) >= 1)
        R.label('prefix-length:%d' % len(case['prefix']))
        return
    rc = case['rc']
    try:
        g, m = geo_state(rc)
    except mulgrids.NamingConventionError:
        R.label('build:naming-capacity'); return
    if len(m.blocks) > 260: R.label('large-grid')
    invariant(R, g, 'fromgeo')
    if R.findings: return
    g, kinds, ok = run_history(R, g, m, case['ops'])
    R.nontrivial(len(set(kinds)) >= 2 and bool(set(kinds) & {'rename_blocks', 'reorder', 'delete_block', 'delete_connection'}))
    R.label('history-length:%d' % (10 * (len(kinds) // 10)))


LEVEL_TEXT = ('Model-based testing of edit histories: complete enumeration of all histories of the stated length over a concrete '
              'alphabet on a 4-name universe (length 2 full + length 3 reduced alphabet in quick; length 3 full + length 4 reduced '
              'in thorough) and Hypothesis-generated histories up to 60 operations on grids built from geometries; the structural '
              'invariant and an abstract reference model are evaluated after every operation. Exhaustive only for the enumerated '
              'space; refutes, never proves.')
LEVEL_NOTE = 'Trusted: the abstract model in props/c08.py (ordered names, oriented pairs, rock names) and the invariant evaluator.'
TECHNIQUE = 'stateful / model-based property testing: exhaustive short histories + Hypothesis-generated long histories, invariant after every step'
