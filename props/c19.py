"""C19 - transfers between geometries: block/column/layer mapping, t2incon.transfer_from, t2data.transfer_from."""
import os, math, copy
from hypothesis import strategies as st
from vlib.core import Search, HarnessError, Aborted
from gens import geo

ID = 'C19'
CASE_TIMEOUT = 300
RULE = ('pairs (source, target) of geometry recipes (gens/geo.py: rectangular, BFS pieces of the 7 shipped geometries, hand-built '
        'tri/quad/pentagon meshes; any surfaces incl. on a layer boundary and above the top): the same geometry (same object and '
        'fresh copy), only the atmosphere type / convention changed, a geometry and its refine (all or some columns, bisect '
        'variants) or refine_layers in both directions, shifted copies (x, y, z), different surfaces, two rectangular partitions '
        'of one footprint; 3 x 3 source/target atmosphere types; target jittered so that nearest-centre ties are rare (columns or '
        'layers whose two nearest candidates differ by < 1e-9 relative are not judged, counted). Oracle: brute-force nearest '
        'column centre, nearest underground layer centre, first layer below ground if the block would be above the column '
        'surface, name composed with the source\'s naming rule and required to exist in the source. Initial conditions with 1..8 '
        'variables, distinct per block, some with porosity: every target block carries the state of the block the returned '
        'mapping names; atmosphere per the nine cases; source compared before/after. Models: generators (MASS/HEAT/COM1/DELV, '
        'with and without tables) in surface, bottom and interior blocks, named by category + column, transferred onto a fresh '
        'copy of the same geometry with preserve_generation_totals and rename_generators on/off, with and without '
        'top/bottom-generator lists. Non-trivial = geometries differ (or atmosphere types differ) and at least one block needed the '
        'above-surface correction or a non-identity column/layer choice; for models: at least one generator; distinct = case JSON.'
        ' Also: sources that served in a mapping and were then translated / rotated in place; top / bottom generators named after another column; incon variables as numpy arrays in half of the cases.'
        ' Rounds 7-10: source states held reversed / rotated; layer centres off the mid-point, one exactly 0.0; defaulted atmosphere states edited in place before a second transfer; copies shifted by about one column width; block mapping passed without the column mapping; a source without generators transferred into a used target.')
ASSUMPTIONS = ['"corresponding atmosphere block": single->single; per-column->per-column: the block over the nearest source column; '
               'single source->per-column target: the single source block; per-column source->single target: any atmosphere block of the source',
               'when the source has no atmosphere blocks the value for an atmosphere block is not judged (only that the call returns a total map)',
               'nearest-centre ties (two candidates within 1e-9 relative) are outside the statement and not judged',
               'the source initial conditions list the source geometry\'s blocks in geometry order (atmosphere first), as a TOUGH2 SAVE file does',
               'atmosphere defaults [1.013e5, 20.0] have two variables whatever the number of variables of the source (as documented in the code)',
               'average of atmosphere states: arithmetic mean over the source\'s atmosphere blocks, relative tolerance 1e-12']

ATM_DEFAULT = [1.013e5, 20.0]


# ---------------------------------------------------------------------- generators of cases

@st.composite
def pair_case(draw):
    src = draw(geo.geometry(max_nx=5, max_ny=5, max_nz=5, shipped=True, ops=False, with_surfaces=True,
                            max_shipped_cols=25, tiny_ok=True, block_orders=(None, 'layer_column')))
    kind = src['base']['kind']
    refinable = not (kind == 'shipped' and src['base']['file'] in geo.MANY_SIDED) and not (kind == 'tiny' and src['base']['which'] != 2)
    modes = ['shift', 'shift', 'surfaces', 'surfaces', 'refine_layers', 'coarse_layers', 'atmos', 'self', 'copy']
    if refinable: modes = ['refine', 'refine', 'coarse', 'coarse'] + modes
    if kind == 'rect': modes = ['rect_pair', 'rect_pair'] + modes
    mode = draw(st.sampled_from(modes))
    tgt = copy.deepcopy(src)
    swap = False
    jitter = False
    if mode in ('refine', 'coarse'):
        cols = draw(st.one_of(st.none(), st.lists(st.integers(0, 200), min_size=1, max_size=5)))
        tgt['ops'] = tgt['ops'] + [{'op': 'refine', 'cols': cols, 'bisect': draw(st.sampled_from([False, False, True, 'x', 'y']))}]
        swap = mode == 'coarse'; jitter = True
    elif mode in ('refine_layers', 'coarse_layers'):
        tgt['ops'] = tgt['ops'] + [{'op': 'refine_layers', 'layers': draw(st.lists(st.integers(0, 20), min_size=1, max_size=3)),
                                   'factor': draw(st.sampled_from([2, 3]))}]
        swap = mode == 'coarse_layers'; jitter = True
    elif mode == 'shift':
        tgt['ops'] = tgt['ops'] + [{'op': 'translate', 'shift': [draw(st.sampled_from([0.0, 0.37, -3.3, 17.9, 120.7])),
                                                               draw(st.sampled_from([0.0, -0.41, 5.2, -23.6, 250.3])),
                                                               draw(st.sampled_from([0.0, 0.0, 0.13, -0.7, 2.9, -11.3, 40.1]))]}]
        if kind == 'rect' and draw(st.integers(0, 2)) == 0:
            # a copy moved by (nearly) one column width, or one row depth: every column's nearest source column is its
            # neighbour, although a column of its own name lies only a little further away
            b = src['base']
            f = draw(st.sampled_from([0.9, 1.0, 1.1, -0.9]))
            tgt['ops'][-1]['shift'][:2] = [f * b['dx'][0], 0.0] if draw(st.booleans()) else [0.0, f * b['dy'][0]]
    elif mode == 'surfaces':
        tgt['surfaces'] = draw(geo.surfaces())
    elif mode == 'rect_pair':
        b = src['base']
        def part(total, n, ws):
            s = sum(ws[:n]); return [round(total * w / s, 6) for w in ws[:n]]
        ws = draw(st.lists(st.sampled_from([1.0, 1.0, 1.5, 2.0, 3.7]), min_size=24, max_size=24))
        nx, ny, nz = draw(st.integers(1, 7)), draw(st.integers(1, 7)), draw(st.integers(1, 7))
        tgt['base'] = {'kind': 'rect', 'dx': part(sum(b['dx']), nx, ws), 'dy': part(sum(b['dy']), ny, ws[8:]),
                       'dz': part(sum(b['dz']), nz, ws[16:]), 'origin': list(b['origin'])}
        tgt['surfaces'] = draw(geo.surfaces())
        jitter = True
    if mode not in ('self', 'copy'):
        tgt['atmos'] = draw(st.sampled_from([0, 1, 2]))
        if tgt['base']['kind'] == 'rect' and draw(st.booleans()):
            tgt['convention'] = draw(st.sampled_from([0, 1, 2, 3]))
    if draw(st.integers(0, 3)) == 0:
        which = draw(st.sampled_from([src, tgt, src]))
        which['layer_centres'] = [[draw(st.integers(0, 12)), draw(st.sampled_from([0.1, 0.25, 0.75, 0.9]))] for _ in range(draw(st.integers(1, 3)))]
        if draw(st.booleans()): which['zero_centre'] = which['layer_centres'][0][0]
    if swap: src, tgt = tgt, src
    if jitter and draw(st.integers(0, 4)) > 0:
        # small offset of the target so that its centres are not equidistant from two source centres
        tgt['ops'] = tgt['ops'] + [{'op': 'translate', 'shift': [draw(st.sampled_from([0.013, -0.029, 0.0071])),
                                                               draw(st.sampled_from([0.017, -0.0093, 0.0231])),
                                                               draw(st.sampled_from([0.0011, -0.0037, 0.0053]))]}]
    prior = draw(st.sampled_from([None, None, None, 'translate', 'translate', 'rotate']))
    if prior == 'translate':
        prior = ['translate', [draw(st.sampled_from([0.0, 7.3, -41.0, 260.0])), draw(st.sampled_from([0.0, -6.1, 33.0])),
                               draw(st.sampled_from([0.0, 0.0, -4.5, 13.0]))]]
    elif prior == 'rotate': prior = ['rotate', draw(st.sampled_from([90.0, 33.0, -120.0]))]
    return {'k': 'pair', 'mode': mode, 'src': src, 'tgt': tgt, 'nvar': draw(st.integers(1, 8)),
            'explicit': draw(st.sampled_from([False, False, True, 'mapping-only'])), 'prior': prior,
            'incon_order': draw(st.sampled_from(['geometry', 'geometry', 'reversed', 'rotated'])), 'again': draw(st.integers(0, 2)) == 0}


@st.composite
def model_case(draw):
    rc = draw(geo.geometry(max_nx=4, max_ny=4, max_nz=5, shipped=True, ops=draw(st.booleans()), with_surfaces=True,
                           max_shipped_cols=20, tiny_ok=True, block_orders=(None, 'layer_column')))
    gens = []
    for _ in range(draw(st.integers(1, 8))):
        ntab = draw(st.sampled_from([0, 0, 2, 3, 5]))
        gens.append({'where': draw(st.sampled_from(['top', 'bottom', 'interior', 'interior'])),
                     'col': draw(st.integers(0, 300)), 'lay': draw(st.integers(0, 30)),
                     'type': draw(st.sampled_from(['MASS', 'MASS', 'HEAT', 'COM1', 'DELV'])),
                     'gx': draw(st.sampled_from([0.0, 1.5, -2.25, 1e-3, 37.5, 1.2e6])),
                     'ex': draw(st.sampled_from([0.0, 1.0e6, 83.9e3])),
                     'ntab': ntab, 'enth': draw(st.booleans()), 'namecol': draw(st.sampled_from([0, 0, 0, 1, 7]))})
    return {'k': 'model', 'rc': rc, 'gens': gens, 'preserve': draw(st.booleans()), 'rename': draw(st.booleans()),
            'lists': draw(st.sampled_from(['both', 'both', 'top', 'bottom', 'none']))}


def atmos_grid_cases():
    """all 3 x 3 atmosphere combinations x (same geometry | refined | shifted | other convention) on a small rectangle"""
    out = []
    base = {'kind': 'rect', 'dx': [10.0, 20.0, 30.0], 'dy': [15.0, 25.0], 'dz': [5.0, 10.0, 20.0], 'origin': [0.0, 0.0, 0.0]}
    for sa in (0, 1, 2):
        for ta in (0, 1, 2):
            for var in ('same', 'refine', 'shift', 'conv', 'surf'):
                src = {'base': dict(base), 'convention': 0, 'atmos': sa, 'justify': 'r', 'chars': 'lower', 'spaces': True,
                       'block_order': None, 'ops': [], 'surfaces': [[1, 1, 0.0], [2, 0, 0.5]] if var == 'surf' else []}
                tgt = copy.deepcopy(src); tgt['atmos'] = ta
                if var == 'refine': tgt['ops'] = [{'op': 'refine', 'cols': None, 'bisect': False}]
                if var == 'shift': tgt['ops'] = [{'op': 'translate', 'shift': [3.3, -2.1, 0.7]}]
                if var == 'conv': tgt['convention'] = 2
                if var == 'surf': tgt['surfaces'] = []
                for nvar in (1, 3):
                    out.append({'k': 'pair', 'mode': 'grid:' + var, 'src': src, 'tgt': tgt, 'nvar': nvar, 'explicit': False})
                if var in ('same', 'refine'):
                    out.append({'k': 'pair', 'mode': 'grid:' + var, 'src': src, 'tgt': tgt, 'nvar': 2, 'explicit': False,
                                'prior': ['translate', [13.0, 11.0, 0.0]] if var == 'same' else ['rotate', 90.0]})
    return out


def searches(tier):
    q = tier == 'quick'
    return [Search('atmosphere_grid', 'enum', atmos_grid_cases, shards=6),
            Search('pairs', 'hyp', pair_case, n=3200 if q else 40000, shards=16),
            Search('models', 'hyp', model_case, n=800 if q else 12000, shards=16)]


# ---------------------------------------------------------------------- reference mapping

def natm_of(g):
    return {0: 1, 1: g.num_columns, 2: 0}[g.atmosphere_type]


def enumerate_blocks(g):
    """[(name, layer, column)] of the underground blocks: a column has a block in every layer whose bottom is below its surface"""
    out = []
    for lay in g.layerlist[1:]:
        for col in g.columnlist:
            if col.surface > lay.bottom: out.append((g.block_name(lay.name, col.name), lay, col))
    return out


def reference_mapping(src, tgt):
    """brute-force nearest column / layer; returns (colmap, coltied, laymap, laytied)"""
    import numpy as np
    sc = np.array([[float(c.centre[0]), float(c.centre[1])] for c in src.columnlist])
    colmap, coltied = {}, set()
    for c in tgt.columnlist:
        d = np.hypot(sc[:, 0] - float(c.centre[0]), sc[:, 1] - float(c.centre[1]))
        o = np.argsort(d, kind='stable')
        colmap[c.name] = src.columnlist[int(o[0])]
        if len(o) > 1 and d[o[1]] - d[o[0]] <= 1e-9 * max(d[o[1]], 1e-300): coltied.add(c.name)
    sl = src.layerlist[1:]
    laymap, laytied = {}, set()
    for l in tgt.layerlist[1:]:
        d = [abs(float(s.centre) - float(l.centre)) for s in sl]
        o = sorted(range(len(sl)), key=lambda i: (d[i], i))
        laymap[l.name] = sl[o[0]]
        if len(o) > 1 and d[o[1]] - d[o[0]] <= 1e-9 * max(d[o[1]], 1e-300): laytied.add(l.name)
    return colmap, coltied, laymap, laytied


def first_layer_below_ground(g, col):
    for lay in g.layerlist[1:]:
        if lay.bottom < col.surface: return lay
    return None


def incon_snapshot(inc):
    return [(b.block, tuple(float(v) for v in b.variable), b.porosity, b.permeability, b.nseq, b.nadd) for b in (inc[i] for i in range(inc.num_blocks))]


# ---------------------------------------------------------------------- pair cases

def run_pair(case, R):
    import numpy as np
    import mulgrids, t2incons
    try:
        src = geo.build(case['src'])
        tgt = src if case['mode'] == 'self' else geo.build(case['tgt'])
    except mulgrids.NamingConventionError:
        R.label('build:naming-capacity'); return
    bad = geo.input_defects(src) + ([] if tgt is src else geo.input_defects(tgt))
    if bad:
        for b in set(bad): R.exclude('input:' + b)
        return
    prior = case.get('prior')
    if prior:
        # the source geometry has a past: it served as the source of a mapping, then was moved (in place).  The
        # mappings judged below are those of the geometry as it now is.
        R.label('source:mapped-then-' + prior[0])
        with R.lib('prior-mapping'):
            src.column_mapping(src); src.block_mapping(src, True)
        with R.lib('prior-' + prior[0]):
            if prior[0] == 'translate': src.translate(np.array([float(v) for v in prior[1]]))
            else: src.rotate(float(prior[1]))
    identity = case['mode'] in ('self', 'copy') and not (prior and case['mode'] == 'copy')
    if case['mode'] == 'copy' and geo.extract(src) != geo.extract(tgt):
        identity = False; R.label('copy:rebuild-not-reproducible')
    sa, ta = src.atmosphere_type, tgt.atmosphere_type
    for who in ('src', 'tgt'):
        if case[who].get('layer_centres'): R.label('%s:layer-centres-off-mid-point' % who + (':one-exactly-zero' if case[who].get('zero_centre') is not None else ''))
    R.label('mode:' + case['mode'], 'atmos:%d->%d' % (sa, ta), 'src:' + case['src']['base']['kind'],
            'conv:%s->%s' % (src.convention, tgt.convention), 'nvar:%d' % case['nvar'])
    tblocks = enumerate_blocks(tgt)
    tnatm = natm_of(tgt)
    if [n for n, _l, _c in tblocks] != list(tgt.block_name_list[tnatm:]) and \
            sorted(n for n, _l, _c in tblocks) != sorted(tgt.block_name_list[tnatm:]):
        R.exclude('input:block-list-differs-from-existence-rule'); return
    if len(set(n for n, _l, _c in tblocks)) != len(tblocks):
        R.exclude('input:duplicate-block-names'); return
    src_names = list(src.block_name_list)
    src_set = set(src_names)
    src_before = geo.extract(src)
    # ---------------------------------------------------------------- the three mappings
    mapping = colmapping = None
    try:
        with R.lib('block_mapping'):
            mapping, colmapping = src.block_mapping(tgt, True)
    except Aborted:
        pass
    with R.lib('column_mapping'):
        cm2 = src.column_mapping(tgt)
    with R.lib('layer_mapping'):
        lm = src.layer_mapping(tgt)
    colmap, coltied, laymap, laytied = reference_mapping(src, tgt)
    if coltied: R.exclude('tie:column'); R.label('tie:column')
    if laytied: R.exclude('tie:layer'); R.label('tie:layer')
    # column mapping
    for c in tgt.columnlist:
        if c.name in coltied: continue
        if not R.check(cm2.get(c.name) == colmap[c.name].name, 'column_mapping:not-nearest',
                       lambda: 'target column %r (centre %r) -> %r, nearest source centre is column %r' % (
                           c.name, [float(v) for v in c.centre], cm2.get(c.name), colmap[c.name].name)): break
    R.check(set(c.name for c in tgt.columnlist) <= set(cm2), 'column_mapping:not-total', 'a target column has no entry')
    # layer mapping
    R.check(lm.get(tgt.layerlist[0].name) == src.layerlist[0].name, 'layer_mapping:atmosphere-layer',
            'atmosphere layer %r -> %r expected %r' % (tgt.layerlist[0].name, lm.get(tgt.layerlist[0].name), src.layerlist[0].name))
    for l in tgt.layerlist[1:]:
        if l.name in laytied: continue
        if not R.check(lm.get(l.name) == laymap[l.name].name, 'layer_mapping:not-nearest',
                       lambda: 'target layer %r (centre %r) -> %r, nearest underground source layer is %r (centres %r)' % (
                           l.name, float(l.centre), lm.get(l.name), laymap[l.name].name, [float(s.centre) for s in src.layerlist])): break
    # block mapping
    corrected = moved = 0
    if mapping is not None:
        R.check(set(mapping) == set(tgt.block_name_list), 'block_mapping:not-total',
                lambda: 'missing %r extra %r' % (sorted(set(tgt.block_name_list) - set(mapping))[:4], sorted(set(mapping) - set(tgt.block_name_list))[:4]))
        if colmapping is not None:
            R.check(all(colmapping.get(c.name) == cm2.get(c.name) for c in tgt.columnlist), 'block_mapping:column-mapping-differs',
                    'the column mapping returned with the block mapping differs from column_mapping()')
        for name, lay, col in tblocks:
            got = mapping.get(name)
            if got is None: continue
            if not R.check(got in src_set, 'block_mapping:value-not-in-source',
                           lambda: 'target block %r -> %r, which is not a block of the source' % (name, got)): break
            if col.name in coltied or lay.name in laytied: continue
            scol, slay = colmap[col.name], laymap[lay.name]
            if scol.surface <= slay.bottom:
                slay = first_layer_below_ground(src, scol); corrected += 1
            exp = src.block_name(slay.name, scol.name)
            if exp not in src_set: raise HarnessError('reference block %r does not exist in the source' % exp)
            if scol.name != col.name or slay.name != lay.name: moved += 1
            if not R.check(got == exp, 'block_mapping:above-surface' if scol.surface <= laymap[lay.name].bottom else 'block_mapping:not-nearest',
                           lambda: 'target block %r (column %r, layer %r centre %r) -> %r expected %r (source column %r surface %r; '
                           'nearest layer %r bottom %r)' % (name, col.name, lay.name, float(lay.centre), got, exp, scol.name,
                                                            float(scol.surface), laymap[lay.name].name, float(laymap[lay.name].bottom))): break
        # atmosphere blocks
        src_atm = src_names[:natm_of(src)]
        for name in tgt.block_name_list[:tnatm]:
            got = mapping.get(name)
            if got is None or sa == 2: continue
            if sa == 0: exp_ok = got == src_atm[0]; exp = src_atm[0]
            elif ta == 1:
                tcol = tgt.column_name(name)
                if tcol in coltied: continue
                exp = src.block_name(src.layerlist[0].name, colmap[tcol].name); exp_ok = got == exp
            else:
                # one atmosphere block over the whole target, one per column in the source: "corresponding" = over the source
                # column nearest to where the target is - its centre, by any of the usual definitions (the statement does not
                # pick one): attribute, mean of column centres, middle of the bounding box, area-weighted centroid
                import numpy as np
                cc = np.array([[float(c.centre[0]), float(c.centre[1])] for c in tgt.columnlist])
                ar = np.array([abs(float(c.area)) for c in tgt.columnlist])
                cands = [cc.mean(axis=0), 0.5 * (cc.min(axis=0) + cc.max(axis=0)), (cc * ar[:, None]).sum(axis=0) / ar.sum()]
                try: cands.append(np.array([float(v) for v in tgt.centre]))
                except Exception: pass
                b = tgt.bounds
                cands.append(0.5 * (np.array([float(v) for v in b[0]]) + np.array([float(v) for v in b[1]])))
                sc = np.array([[float(c.centre[0]), float(c.centre[1])] for c in src.columnlist])
                okcols = set()
                for q in cands:
                    dd = np.hypot(sc[:, 0] - q[0], sc[:, 1] - q[1])
                    for k in np.nonzero(dd <= dd.min() * (1 + 1e-9) + 1e-12)[0]: okcols.add(src.columnlist[int(k)].name)
                okblocks = set(src.block_name(src.layerlist[0].name, cn) for cn in okcols)
                exp_ok = got in okblocks
                exp = 'the atmosphere block over a source column nearest the centre of the target (%s)' % sorted(okblocks)[:4]
                if len(okcols) > 1: R.label('atmosphere:target-centre-definitions-disagree')
            if not R.check(exp_ok, 'block_mapping:atmosphere', 'atmosphere block %r -> %r expected %s (atmosphere types %d -> %d)' % (
                    name, got, exp, sa, ta)): break
        if identity:
            R.check(all(mapping.get(n) == n for n in tgt.block_name_list), 'block_mapping:identity',
                    lambda: 'mapping a geometry onto itself: %r' % [(n, mapping.get(n)) for n in tgt.block_name_list if mapping.get(n) != n][:4])
    if corrected: R.label('above-surface-correction')
    R.nontrivial(case['mode'] not in ('self', 'copy') and (corrected > 0 or moved > 0 or sa != ta))
    R.check(geo.extract(src) == src_before, 'source-geometry-altered', 'the mapping functions changed the source geometry')
    # ---------------------------------------------------------------- initial conditions
    nvar = case['nvar']
    inc = t2incons.t2incon()
    # a t2incon is addressed by block name: below the atmosphere blocks (a single one is documented to come first) the
    # states may be held in any order, e.g. bottom-up or as another program listed them
    natm_src = src.num_atmosphere_blocks
    order = list(range(len(src_names)))
    io = case.get('incon_order', 'geometry')
    if io == 'reversed': order = order[:natm_src] + order[natm_src:][::-1]
    elif io == 'rotated': order = order[:natm_src] + order[natm_src:][len(order[natm_src:]) // 2:] + order[natm_src:][:len(order[natm_src:]) // 2]
    R.label('incon:source-order-' + io)
    for i in order:
        n = src_names[i]
        v = [1.0e5 * (k + 1) + 13.0 * i + 0.25 * k for k in range(nvar)]
        b = t2incons.t2blockincon(v, n)
        if i % 3 == 1: b.porosity = 0.01 + 0.001 * (i % 50)
        inc[n] = b
        # the documented setters leave numpy arrays behind (inc.variable = 2-D array; inc[blk].variable = array):
        # the other legal container for the same states
        if case['nvar'] % 2 == 0: inc[n].variable = np.array(v, dtype=float)
    R.label('incon:variables-as-' + ('arrays' if case['nvar'] % 2 == 0 else 'lists'))
    before = incon_snapshot(inc)
    new = t2incons.t2incon()
    use_map = mapping
    explicit = case['explicit'] and mapping is not None
    if mapping is None:
        # block_mapping failed (reported above): hand over the reference mapping so that the transfer itself is still judged
        use_map = dict((n, src.block_name((first_layer_below_ground(src, colmap[c.name]) if colmap[c.name].surface <= laymap[l.name].bottom
                                           else laymap[l.name]).name, colmap[c.name].name)) for n, l, c in tblocks)
        colmapping = dict((c.name, colmap[c.name].name) for c in tgt.columnlist)
        explicit = True
        R.label('incon:reference-mapping-passed')
    only_block_mapping = case['explicit'] == 'mapping-only' and mapping is not None
    with R.lib('incon.transfer_from'):
        if only_block_mapping: new.transfer_from(inc, src, tgt, dict(use_map))       # the column mapping left to the method
        elif explicit: new.transfer_from(inc, src, tgt, dict(use_map), dict(colmapping))
        else: new.transfer_from(inc, src, tgt)
    R.label('incon:block-mapping-only' if only_block_mapping else 'incon:explicit-mapping' if explicit else 'incon:internal-mapping')
    R.check(incon_snapshot(inc) == before, 'incon:source-altered', 'the source initial conditions changed during the transfer')
    got_blocks = list(new.blocklist)
    have = set(got_blocks)
    R.check(sorted(got_blocks) == sorted(tgt.block_name_list), 'incon:block-set',
            lambda: 'missing %r extra %r' % (sorted(set(tgt.block_name_list) - set(got_blocks))[:4], sorted(set(got_blocks) - set(tgt.block_name_list))[:4]))
    for name, _l, _c in tblocks:
        s = use_map.get(name)
        if s is None or s not in src_set or name not in have: continue
        a, b = new[name], inc[s]
        if not R.check([float(v) for v in a.variable] == [float(v) for v in b.variable] and a.porosity == b.porosity,
                       'incon:underground-state', lambda: 'target block %r has %r porosity %r; its mapped source block %r has %r porosity %r' % (
                           name, list(a.variable), a.porosity, s, list(b.variable), b.porosity)): break
    src_atm = src_names[:natm_of(src)]
    tatm = list(tgt.block_name_list[:tnatm])
    R.label('incon-atmosphere:%s' % {(0, 0): 'copied', (1, 0): 'averaged', (2, 0): 'default', (0, 1): 'broadcast', (1, 1): 'by-column',
                                      (2, 1): 'default'}.get((sa, ta), 'none'))
    for name in tatm:
        if name not in have: continue
        got = [float(v) for v in new[name].variable]
        if sa == 2:
            R.check(got == ATM_DEFAULT, 'incon:atmosphere-default', 'atmosphere block %r: %r expected the default %r' % (name, got, ATM_DEFAULT))
        elif sa == 0:
            exp = [float(v) for v in inc[src_atm[0]].variable]
            R.check(got == exp, 'incon:atmosphere-broadcast' if ta == 1 else 'incon:atmosphere-copy',
                    'atmosphere block %r: %r expected the source atmosphere state %r' % (name, got, exp))
        elif ta == 0:
            exp = [sum(float(inc[n].variable[k]) for n in src_atm) / len(src_atm) for k in range(nvar)]
            R.check(len(got) == nvar and all(abs(g - e) <= 1e-12 * abs(e) for g, e in zip(got, exp)), 'incon:atmosphere-average',
                    'atmosphere block %r: %r expected the mean over %d source atmosphere blocks %r' % (name, got, len(src_atm), exp))
        else:
            sc = colmapping.get(tgt.column_name(name)) if colmapping else None
            if sc is None: continue
            exp = [float(v) for v in inc[src.block_name(src.layerlist[0].name, sc)].variable]
            if not R.check(got == exp, 'incon:atmosphere-by-column', 'atmosphere block %r: %r expected the state over source column %r: %r' % (
                    name, got, sc, exp)): break
    # the defaulted atmosphere states of a result belong to that result: altering them in place and transferring again (into
    # a new set, from the untouched source) gives the default states again.  (States copied from source blocks are left
    # alone: the library's copies share their lists with the source, and the statement does not say otherwise.)
    if case.get('again') and not R.findings and sa == 2 and tatm:
        R.label('incon:defaulted-atmosphere-edited-in-place-then-transferred-again')
        first = incon_snapshot(new)
        for n in tatm:
            if n not in have: continue
            v = new[n].variable
            for k in range(len(v)): v[k] = -777.0 - k
        again = t2incons.t2incon()
        with R.lib('incon.transfer_from-again'):
            if explicit: again.transfer_from(inc, src, tgt, dict(use_map), dict(colmapping))
            else: again.transfer_from(inc, src, tgt)
        second = incon_snapshot(again)
        if second != first:
            R.fail('incon:second-transfer-differs', 'after the first result was edited in place, a second transfer from the same source gives other states')
        R.check(incon_snapshot(inc) == before, 'incon:source-altered', 'the source initial conditions changed when the result was edited / transferred again')


# ---------------------------------------------------------------------- model cases

GEN_FIELDS = ('block', 'name', 'type', 'gx', 'ex', 'hg', 'fg', 'ltab', 'itab', 'time', 'rate', 'enthalpy', 'nseq', 'nadd', 'nads')


def gen_tuple(g):
    def f(x):
        if isinstance(x, (list, tuple)) or type(x).__name__ == 'ndarray': return tuple(float(v) for v in x)
        if x is None or isinstance(x, str): return x
        return float(x)
    return tuple(f(getattr(g, k)) for k in GEN_FIELDS)


def run_model(case, R):
    import numpy as np
    import mulgrids, t2grids, t2data
    try:
        g = geo.build(case['rc']); g2 = geo.build(case['rc'])
    except mulgrids.NamingConventionError:
        R.label('build:naming-capacity'); return
    bad = geo.input_defects(g)
    if bad:
        for b in set(bad): R.exclude('input:' + b)
        return
    if geo.extract(g) != geo.extract(g2):
        # refine() names new columns in an order that depends on object addresses: the second build is not identical
        g2 = g; R.label('identical:same-object(rebuild not reproducible)')
    else: R.label('identical:fresh-copy')
    und = g.layerlist[1:]
    n = g.layername_length if hasattr(g, 'layername_length') else 2
    cats = {'top': ('x' * n)[:n - 1] + 't', 'bottom': ('x' * n)[:n - 1] + 'b', 'interior': ('x' * n)[:n - 1] + 'o'}
    src = t2data.t2data()
    with R.lib('fromgeo'):
        src.grid = t2grids.t2grid().fromgeo(g)
    R.label('atmos:%d' % g.atmosphere_type, 'conv:%s' % g.convention, 'preserve:%s' % case['preserve'], 'rename:%s' % case['rename'],
            'lists:' + case['lists'], 'base:' + case['rc']['base']['kind'])
    seen = set()
    for s in case['gens']:
        col = g.columnlist[s['col'] % g.num_columns]
        own = [l for l in und if l.bottom < col.surface]
        if not own: continue
        lay = own[0] if s['where'] == 'top' else own[-1] if s['where'] == 'bottom' else own[s['lay'] % len(own)]
        block = g.block_name(lay.name, col.name)
        # the name usually carries the generator's own column, but nothing requires that (the simulator only uses the block)
        ncol = g.columnlist[(s['col'] + s.get('namecol', 0)) % g.num_columns]
        if ncol is not col: R.label('generator:named-after-another-column')
        name = g.block_name(cats[s['where']], ncol.name)
        if g.layer_name(name) != cats[s['where']] or g.column_name(name) != ncol.name or block not in src.grid.block:
            R.label('generator:name-not-decomposable-skipped'); continue
        if (block, cats[s['where']]) in seen: continue        # (names rebuilt from the block's column must stay distinct)
        seen.add((block, cats[s['where']]))
        kw = dict(name=name, block=block, type=s['type'], gx=s['gx'], ex=s['ex'])
        if s['ntab']:
            nt = s['ntab']
            kw.update(ltab=nt, time=[1.0e6 * i for i in range(nt)], rate=[s['gx'] + 0.5 * i for i in range(nt)])
            if s['enth']: kw.update(itab='E', enthalpy=[1.0e5 + 1.0e3 * i for i in range(nt)])
        src.add_generator(t2data.t2generator(**kw))
        R.label('generator:%s:%s' % (s['where'], 'table' if s['ntab'] else 'constant'))
    R.nontrivial(len(seen) > 0)
    top = [cats['top']] if case['lists'] in ('both', 'top') else []
    bot = [cats['bottom']] if case['lists'] in ('both', 'bottom') else []
    before = [gen_tuple(x) for x in src.generatorlist]
    types = sorted(set(x.type for x in src.generatorlist))
    tot_before = dict((t, [float(v) for v in src.total_generation(t)]) for t in types)
    dst = t2data.t2data()
    with R.lib('data.transfer_from'):
        dst.transfer_from(src, g, g2, top_generator=list(top), bottom_generator=list(bot),
                          rename_generators=case['rename'], preserve_generation_totals=case['preserve'])
    after = [gen_tuple(x) for x in dst.generatorlist]
    R.check([gen_tuple(x) for x in src.generatorlist] == before, 'model:source-generators-altered', 'the source generators changed')
    if R.check(len(after) == len(before), 'model:generator-count', 'generators %d expected %d: %r' % (
            len(after), len(before), [(a[0], a[1]) for a in after][:6])):
        da = dict(((a[0], a[1]), a) for a in after)
        colgen = set(top + bot)
        for b in before:
            # documented naming: column (top / bottom) generators, and all generators when renaming is asked for, are
            # named after the column of their (new) block; the others keep their names
            cat = g.layer_name(b[1])
            if cat in colgen or case['rename']:
                b = (b[0], g2.block_name(cat, g2.column_name(b[0]))) + tuple(b[2:])
            a = da.get((b[0], b[1]))
            if not R.check(a is not None, 'model:generator-missing', lambda: 'generator %r in block %r is not in the transferred model, which has %r' % (
                    b[1], b[0], sorted(da)[:6])): break
            diff = [k for k, x, y in zip(GEN_FIELDS, a, b) if x != y]
            if not R.check(not diff, 'model:generator-' + (diff[0] if diff and diff[0] in ('gx', 'rate', 'time', 'enthalpy') else 'field'),
                           lambda: 'generator %r in block %r: fields %r differ: %r expected %r' % (b[1], b[0], diff, a, b)): break
    R.check([b.name for b in dst.grid.blocklist] == [b.name for b in src.grid.blocklist], 'model:block-list', 'block lists differ')
    for t in types:
        got = [float(v) for v in dst.total_generation(t)]
        R.check(len(got) == len(tot_before[t]) and all(abs(x - y) <= 1e-12 * max(abs(x), abs(y)) for x, y in zip(got, tot_before[t])),
                'model:total-generation', lambda: 'total %s generation per block differs: sum %r expected %r' % (t, sum(got), sum(tot_before[t])))
    # the same target object then receives a model without generators (the natural-state twin of a production model):
    # every generator the target now has is one of the source's - none
    if case.get('then_empty', len(case['gens']) % 2 == 0) and not R.findings and before:
        R.label('model:then-a-source-without-generators-into-the-same-target')
        src.clear_generators()
        with R.lib('data.transfer_from-empty'):
            dst.transfer_from(src, g, g2, top_generator=list(top), bottom_generator=list(bot),
                              rename_generators=case['rename'], preserve_generation_totals=case['preserve'])
        R.check(dst.num_generators == 0 and not dst.generator, 'model:generators-of-an-earlier-transfer-kept',
                'after transferring a model without generators the target still holds %d generators' % dst.num_generators)


def run_case(case, R):
    if case['k'] == 'pair': run_pair(case, R)
    else: run_model(case, R)


LEVEL_TEXT = ('Hypothesis-generated pairs of geometries (recipes: rectangular, shipped pieces, hand-built meshes; refine / '
              'refine_layers / shift / surfaces / re-partition; 3 x 3 atmosphere types) judged against a brute-force nearest-centre '
              'reference with the above-surface rule; initial conditions and generator sets judged through the mapping the library '
              'returns; one small rectangle enumerated over all 9 atmosphere combinations x 5 variants. Refutes only.')
LEVEL_NOTE = 'Trusted: the reference mapping in props/c19.py (brute force over public attributes); geometry recipes as inputs.'
TECHNIQUE = 'property-based testing (Hypothesis) against an independent reference model (brute-force nearest neighbour), plus metamorphic identity checks'
