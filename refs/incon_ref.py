"""Independent reader/writer for TOUGH2 / TOUGHREACT INCON-SAVE files with its own copy of
the column layout (TOUGH2 user guide: ELEME A5 (printed by the simulator as A3,I2), NSEQ I5,
NADD I5, PORX E15.9 [, PER(1..3) 3E15.9 for TOUGHREACT]; X1..X4 4E20.13 per line;
'+++' then KCYC, ITER, NM (3I5; TOUGHREACT 2I6,I3), TSTART, SUMTIM (2E15.9)).
No code shared with t2incons.py / fixed_format_file.py."""
from refs import ffmt


def a3i2_print(name):
    """How the simulator prints a 5-character name it holds as (A3,I2)."""
    if len(name) == 5 and name[4] in '0123456789' and name[3] in '0123456789 ':
        return name[:3] + '%2d' % int(name[3:5])
    return name


def quirk_repair(name):
    """The repair a reader applies to a printed (A3,I2) name whose third character is a digit:
    the blank in column 4 was a zero."""
    if len(name) == 5 and name[2].isdigit() and name[4].isdigit() and name[3] == ' ':
        return name[:3] + '0' + name[4]
    return name


def read(path, nvar=None):
    """Returns dict(header, blocks=[dict(name, nseq, nadd, por, perm, vars)], timing, toughreact)."""
    with open(path) as fh:
        lines = fh.read().split('\n')
    out = {'header': lines[0] if lines else '', 'blocks': [], 'timing': None, 'toughreact': False}
    i = 1
    while i < len(lines):
        ln = lines[i]
        if ln.strip() == '':
            break
        if ln.startswith('+++'):
            t = lines[i + 1] if i + 1 < len(lines) else ''
            if t.strip():
                if out['toughreact']:
                    out['timing'] = {'kcyc': ffmt.integer(t, 0, 6), 'iter': ffmt.integer(t, 6, 12),
                                     'nm': ffmt.integer(t, 12, 15), 'tstart': ffmt.real(t, 15, 30),
                                     'sumtim': ffmt.real(t, 30, 45)}
                else:
                    out['timing'] = {'kcyc': ffmt.integer(t, 0, 5), 'iter': ffmt.integer(t, 5, 10),
                                     'nm': ffmt.integer(t, 10, 15), 'tstart': ffmt.real(t, 15, 30),
                                     'sumtim': ffmt.real(t, 30, 45)}
            break
        b = {'name': ffmt.cols(ln, 0, 5), 'nseq': ffmt.integer(ln, 5, 10), 'nadd': ffmt.integer(ln, 10, 15),
             'por': ffmt.real(ln, 15, 30)}
        k = [ffmt.real(ln, 30, 45), ffmt.real(ln, 45, 60), ffmt.real(ln, 60, 75)]
        b['perm'] = None if any(x is None for x in k) else k
        if b['perm'] is not None: out['toughreact'] = True
        vals = []
        i += 1
        while True:
            vl = lines[i] if i < len(lines) else ''
            row = [ffmt.real(vl, 20 * j, 20 * j + 20) for j in range(4)]
            while row and row[-1] is None: row.pop()
            vals += row
            i += 1
            if nvar is None or len(vals) >= nvar or i >= len(lines): break
        b['vars'] = vals
        out['blocks'].append(b)
    return out


def write(path, blocks, timing=None, toughreact=False, style='E', simulator_names=True):
    """Writes what a Fortran simulator would write.  Returns the list of values represented
    (per block: vars, por, perm) so the caller knows what the printed digits mean."""
    rep = []
    L = []
    if timing is None:
        L.append('INCON')
    else:
        L.append('INCON -- INITIAL CONDITIONS FOR%5d ELEMENTS AT TIME %s' % (
            len(blocks), ffmt.fort_e(timing['sumtim'], 13, 6, style)[0]))
    for b in blocks:
        nm = a3i2_print(b['name']) if simulator_names else b['name']
        ptxt, pval = ffmt.fort_e(b['por'], 15, 8 if b['por'] is None or b['por'] >= 0 else 8, style)
        ln = ffmt.fort_a(nm, 5) + ffmt.fort_i(b['nseq'], 5) + ffmt.fort_i(b['nadd'], 5) + ptxt
        kval = None
        if toughreact and b.get('perm') is not None:
            kval = []
            for k in b['perm']:
                t, v = ffmt.fort_e(k, 15, 8, style)
                ln += t; kval.append(v)
        L.append(ln)
        vs, vval = b['vars'], []
        for j in range(0, len(vs), 4):
            row = ''
            for v in vs[j:j + 4]:
                t, x = ffmt.fort_e(v, 20, 13, style)
                row += t; vval.append(x)
            L.append(row)
        rep.append({'vars': vval, 'por': pval, 'perm': kval})
    if timing is None:
        L.append(''); L.append('')
    else:
        L.append('+++')
        if toughreact:
            t = '%6d%6d%3d' % (timing['kcyc'], timing['iter'], timing['nm'])
        else:
            t = '%5d%5d%5d' % (timing['kcyc'], timing['iter'], timing['nm'])
        t += ffmt.fort_e(timing['tstart'], 15, 8, style)[0] + ffmt.fort_e(timing['sumtim'], 15, 8, style)[0]
        L.append(t)
    with open(path, 'w') as fh:
        fh.write('\n'.join(L) + '\n')
    return rep
