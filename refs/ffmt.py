"""Fortran-style formatted output (Ew.d, Fw.d, Iw, Aw) and fixed-column slicing,
written independently of fixed_format_file.py.  What a *Fortran* WRITE produces:
right-justified fields, 0.ddddE+ee mantissas, the exponent letter dropped for
3-digit exponents, '*' fill on overflow."""
from refs import fnum


def fort_e(v, w, d, letter='E', lead_zero=True):
    """Ew.d edit descriptor.  Returns (text, value_represented)."""
    if v is None:
        return ' ' * w, None
    neg = (v < 0) or (v == 0 and str(v).startswith('-'))
    a = abs(v)
    if a == 0:
        digits, ex = '0' * d, 0
    else:
        s = '%.*e' % (d - 1, a)
        m, _, e = s.partition('e')
        digits = m.replace('.', '')
        ex = int(e) + 1
    if abs(ex) < 100:
        es = '%s%s%02d' % (letter, '+' if ex >= 0 else '-', abs(ex))
    else:
        es = '%s%03d' % ('+' if ex >= 0 else '-', abs(ex))
    body = ('0.' if lead_zero else '.') + digits + es
    txt = ('-' if neg else '') + body
    if len(txt) > w and lead_zero:
        txt = ('-' if neg else '') + '.' + digits + es
    if len(txt) > w:
        return '*' * w, None
    val = float('%s0.%se%d' % ('-' if neg else '', digits, ex))
    return txt.rjust(w), val


def fort_f(v, w, d):
    if v is None:
        return ' ' * w, None
    txt = '%.*f' % (d, v)
    if len(txt) > w and txt.startswith('0.'): txt = txt[1:]
    if len(txt) > w and txt.startswith('-0.'): txt = '-' + txt[2:]
    if len(txt) > w:
        return '*' * w, None
    return txt.rjust(w), float(txt)


def fort_i(n, w):
    if n is None:
        return ' ' * w
    txt = '%d' % n
    if len(txt) > w: return '*' * w
    return txt.rjust(w)


def fort_a(s, w, left=True):
    """Aw: character data; Fortran right-justifies when the variable is shorter than w,
    but TOUGH2 names are exactly w long, so justification is the caller's choice."""
    if s is None: s = ''
    s = s[:w]
    return s.ljust(w) if left else s.rjust(w)


def cols(line, a, b):
    """Columns a+1..b (0-based slice [a:b]) of a line, blank padded."""
    line = line.rstrip('\n').rstrip('\r')
    if len(line) < b: line = line.ljust(b)
    return line[a:b]


def real(line, a, b):
    return fnum.read_real(cols(line, a, b), None)


def integer(line, a, b):
    return fnum.read_int(cols(line, a, b), None)


def py_e_expected(v, w, d):
    """Value a library field 'w.de' may hold after writing v: full precision if
    '%w.de' fits, else the largest precision that fits (the documented precision loss)."""
    if v is None: return None
    for k in range(d, -1, -1):
        s = '%.*e' % (k, v)
        if len(s) <= w: return float(s)
    return None
