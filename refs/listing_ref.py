"""Independent scanner of TOUGH2-family listing files (reference for C05/C06).

Shares no code with t2listing.py.  The scanner works on the *printed page*:

* result sets are found from the simulator's time banner
  (AUTOUGH2: a triple of EEEEE/ESHORT... banner lines around 'OUTPUT AFTER n TIME STEPS t SECONDS';
  TOUGH2, TOUGH2-MP, TOUGH3, TOUGHREACT, TOUGH+: 'OUTPUT DATA AFTER' followed by the line under 'TOTAL TIME');
* a table starts at a header line  <1-2 key headings> INDEX|IND. <column headings>; a repeated identical
  heading (page break / other processor) continues the same table; it ends at the first non-blank line
  that is neither a row, nor that heading;
* a row is   keys . integer-or-**** . numbers ;  every number is a token with an END COLUMN; because Fortran
  right-justifies fixed-width fields the end column identifies the table column.  The set of end columns is
  collected over all rows of the table at all times.  Run-together fields ('10.101304E+060.100001E+02') are
  split with the fixed exponent width of E-format output, and a row's cell is ALSO obtained by slicing the
  line between consecutive end columns; both derivations must agree.

Whenever the scanner is not self-consistent on a table (more end columns than headings, headings not above
their columns, a token crossing a column boundary, slice value != token value, rows whose keys do not sit in
the same columns, ...) the table is marked inconclusive with a reason instead of guessing.
"""
import re, os
from refs import fnum


class Tok(object):
    __slots__ = ('line', 'start', 'end', 'text', 'value', 'col')

    def __init__(self, line, start, end, text, value):
        self.line, self.start, self.end, self.text, self.value = line, start, end, text, value
        self.col = None

    def __repr__(self):
        return 'Tok(l%d %d:%d %r)' % (self.line, self.start, self.end, self.text)


class Row(object):
    __slots__ = ('line', 'key', 'index', 'index_text', 'pre_end', 'ints', 'toks', 'cells', 'keyends')

    def __init__(self):
        self.cells = None


class Table(object):
    def __init__(self, name, nkeys, colnames, header_line, header_text):
        self.name = name
        self.nkeys = nkeys
        self.colnames = colnames
        self.header_line = header_line
        self.header_text = header_text
        self.rows = []
        self.status = 'ok'
        self.reason = ''
        self.layout = None         # shared Layout object (same table at all times)

    def fail(self, reason):
        if self.status == 'ok':
            self.status, self.reason = 'inconclusive', reason

    # The table as a reader exposes it.  AUTOUGH2: one row per printed line, in printed order.
    # TOUGH2 family: one row per distinct printed index, ordered by index, because the parallel
    # version prints border rows once per processor and in any order; every printing of a row is
    # returned (they may differ in the last digits), the last one first.
    def view(self):
        if self.family == 'AUTOUGH2':
            return [[r] for r in self.rows]
        order = {}
        for r in self.rows:
            order.setdefault(r.index, []).insert(0, r)
        return [order[i] for i in sorted(order)]

    def duplicates(self):
        seen, dup = {}, []
        for r in self.rows:
            if r.index in seen: dup.append((seen[r.index], r))
            seen[r.index] = r
        return dup


class Layout(object):
    """Column layout shared by all printings of one table of a file."""

    def __init__(self):
        self.ends = set()      # end columns (exclusive) of real tokens
        self.keyends = None
        self.tables = []
        self.n_int = 0


class Block(object):
    def __init__(self, kind, line):
        self.kind = kind        # 'full' | 'short'
        self.line = line        # banner line number
        self.time = None
        self.step = None
        self.tables = []        # in file order

    def table(self, name):
        for t in self.tables:
            if t.name == name: return t
        return None


class Scan(object):
    def __init__(self, path):
        self.path = path
        self.simulator = None
        self.lines = []
        self.eols = []
        self.blocks = []

    @property
    def full(self):
        return [b for b in self.blocks if b.kind == 'full']


# ----------------------------------------------------------------------------------------------
# numbers

_SPLIT = re.compile(r'[-+]?(?:\d+\.\d*|\.\d+)(?:[EeDd][-+]?\d\d|[-+]\d\d\d)?')
_INTTOK = re.compile(r'^(?:\d+|\*+)$')


def split_blob(text):
    """Split a blank-free run of characters into reals; None if it does not tile exactly."""
    if text.count('.') == 1:
        try:
            fnum.read_real(text)
            return [(0, len(text))]
        except fnum.NotNumber:
            return None
    out, pos = [], 0
    for m in _SPLIT.finditer(text):
        if m.start() != pos: return None
        out.append((m.start(), m.end()))
        pos = m.end()
    if pos != len(text) or not out: return None
    return out


def parse_row(text, lineno, nkeys, n_int, keyends=None):
    """text: one line without its line end.  Returns Row or None.  With `keyends` (the end columns of
    the key fields found in the first row of the table) keys are sliced from those fixed columns, which
    also separates an index printed without a blank after the name ('al1010' = name 'al10', index 10)."""
    p = text.find('.')
    if p < 0: return None
    # start of the first real: digits before the point, then an optional sign
    i = p
    while i > 0 and text[i - 1].isdigit(): i -= 1
    ndig = p - i
    # exponent form?  (digits after the point followed by E/D or a signed exponent)
    j = p + 1
    while j < len(text) and text[j].isdigit(): j += 1
    expform = j < len(text) and (text[j] in 'EeDd' or (text[j] in '+-' and j + 1 < len(text) and text[j + 1].isdigit()))
    if expform and ndig > 1:
        i = p - 1                       # E-format mantissa has one leading digit: the rest is the index
    elif i > 0 and text[i - 1] in '+-':
        i -= 1
    vstart = i
    pre = text[:vstart]
    need = 1 + n_int
    r = Row()
    r.line = lineno
    if keyends is not None:
        if keyends[-1] > len(pre): return None
        pieces = [(keyends[-1] + m.start(), keyends[-1] + m.end()) for m in re.finditer(r'\S+', pre[keyends[-1]:])]
        if len(pieces) != need: return None
        ints = pieces
    else:
        # integers between the keys and the first real: index [+ integer columns]
        pieces = [(m.start(), m.end()) for m in re.finditer(r'\S+', pre)]
        if len(pieces) < need: return None
        ints = pieces[-need:]
    for a, b in ints:
        if not _INTTOK.match(pre[a:b]): return None
    ia, ib = ints[0]
    r.index_text = pre[ia:ib]
    r.pre_end = ints[-1][1]
    r.ints = [Tok(lineno, a, b, pre[a:b], float(int(pre[a:b]))) for a, b in ints[1:]]
    keys, ends = [], []
    if keyends is not None:
        for e in keyends:
            if e - 5 < 0: return None
            k = pre[e - 5:e]
            if not k.strip() or not k[-1].isdigit(): return None
            keys.append(k); ends.append(e)
        e = keyends[0] - 5
        for a, b in zip(keyends[:-1], keyends[1:]):
            if pre[a:b - 5].strip(): return None
    else:
        keyarea = pre[:ia]
        # keys: 5 characters ending in a digit, taken from the right
        e = len(keyarea)
        for k in range(nkeys):
            while e > 0 and not keyarea[e - 1].isdigit(): e -= 1
            if e < 1: return None
            s = e - 5
            if s < 0: return None
            keys.append(keyarea[s:e]); ends.append(e)
            e = s
        keys.reverse(); ends.reverse()
    # left of the first name: blanks, or a Fortran carriage-control character in column 1
    left = pre[:e]
    if left.strip() and not (e >= 1 and left[1:].strip() == '' and left[0] in '10+'): return None
    r.keyends = tuple(ends)
    r.key = keys[0] if nkeys == 1 else tuple(keys)
    if r.index_text.startswith('*'): r.index = None
    else: r.index = int(r.index_text)
    # values
    toks = []
    for m in re.finditer(r'\S+', text[vstart:]):
        a0 = vstart + m.start()
        parts = split_blob(m.group())
        if parts is None: return None
        for a, b in parts:
            t = text[a0 + a:a0 + b]
            try:
                v = fnum.read_real(t)
            except fnum.NotNumber:
                return None
            toks.append(Tok(lineno, a0 + a, a0 + b, t, v))
    if not toks: return None
    r.toks = toks
    return r


def repair_name(name):
    """(A3,I2) printing leaves a blank in the 4th column when the number is below 10."""
    def one(n):
        if len(n) == 5 and n[3] == ' ' and n[2].isdigit() and n[4].isdigit():
            return n[:3] + '0' + n[4]
        return n
    if isinstance(name, tuple): return tuple(one(n) for n in name)
    return one(name)


# ----------------------------------------------------------------------------------------------
# headers

def header_info(text, family):
    """(nkeys, colnames, word spans per column) if the line is a table heading, else None."""
    words = [(m.group(), m.start(), m.end()) for m in re.finditer(r'\S+', text)]
    w = [x[0] for x in words]
    k = None
    for cand in ('INDEX', 'IND.'):
        if cand in w[1:3]:
            k = w.index(cand); break
    if k is None or k not in (1, 2): return None
    if not w[0].upper().startswith('ELEM'): return None
    if k == 2 and not (w[1].upper().startswith('ELEM') or w[1].upper() == 'SOURCE'): return None
    cols, spans = [], []
    for s, a, b in words[k + 1:]:
        join = False
        if cols:
            if family == 'AUTOUGH2': join = not s[0].isupper() and not s[0].isdigit()
            elif family == 'TOUGH+': join = s in ('Flow', 'Veloc')
            else: join = s == 'RATE'
        if join:
            cols[-1] += ' ' + s; spans[-1] = (spans[-1][0], b)
        else:
            cols.append(s); spans.append((a, b))
    if not cols: return None
    return k, cols, spans, tuple(w[:k])


def table_kind(keyheads, cols):
    if len(keyheads) == 1:
        return 'primary' if cols[0] == 'X1' else 'element'
    if keyheads[1].upper() == 'SOURCE': return 'generation'
    return 'connection'


# ----------------------------------------------------------------------------------------------

def read_lines(path):
    with open(path, 'rb') as f:
        data = f.read()
    raw = data.split(b'\n')
    if raw and raw[-1] == b'': raw.pop()
    lines, eols = [], []
    for b in raw:
        if b.endswith(b'\r'):
            lines.append(b[:-1].decode('latin-1')); eols.append('\r\n')
        else:
            lines.append(b.decode('latin-1')); eols.append('\n')
    return lines, eols


def detect(lines):
    for l in lines:
        if l[1:6] in ('EEEEE', 'ESHOR') and l[1:30].strip('ESHORT') == '':
            return 'AUTOUGH2'
        s = l.lstrip()
        if s.startswith('OUTPUT DATA AFTER'): return 'TOUGH2'
        if s.startswith('Output data after'): return 'TOUGH+'
    return None


def _isblank(l):
    return not l.strip()


def scan_tables(S, block, lo, hi, family):
    """find the tables printed in lines[lo:hi] and append them to block.tables"""
    lines = S.lines
    i = lo
    nelem = 0
    while i < hi:
        h = header_info(lines[i], family)
        if h is None:
            i += 1; continue
        nkeys, cols, spans, keyheads = h
        n_int = 1 if cols[0] == 'I' else 0
        kind = table_kind(keyheads, cols)
        # first row within the next few lines
        j = i + 1
        first = None
        while j < hi and j <= i + 6:
            r = parse_row(lines[j], j, nkeys, n_int)
            if r is not None: first = j; break
            j += 1
        if first is None:
            i += 1; continue
        name = kind
        if kind == 'element' and family == 'TOUGH+':
            name = 'element' if nelem == 0 else 'element%d' % nelem
            nelem += 1
        t = Table(name, nkeys, cols, i, lines[i])
        t.family = family
        t.spans = spans
        t.n_int = n_int
        hwords = lines[i].split()
        j = first
        while j < hi:
            l = lines[j]
            if _isblank(l):
                j += 1; continue
            r = None
            if t.rows: r = parse_row(l, j, nkeys, n_int, t.rows[0].keyends)
            if r is None: r = parse_row(l, j, nkeys, n_int)
            if r is not None:
                t.rows.append(r); j += 1; continue
            if l.split() == hwords:
                # repeated heading: skip its units lines up to the next row
                k = j + 1
                nxt = None
                while k < hi and k <= j + 6:
                    if parse_row(lines[k], k, nkeys, n_int) is not None: nxt = k; break
                    k += 1
                if nxt is None: break
                j = nxt; continue
            break
        t.end_line = j
        block.tables.append(t)
        i = j
    return


def scan(path):
    S = Scan(path)
    S.lines, S.eols = read_lines(path)
    lines = S.lines
    S.simulator = detect(lines)
    if S.simulator is None: return S
    if S.simulator == 'AUTOUGH2': _scan_autough2(S)
    else: _scan_tough2(S)
    _layouts(S)
    return S


def _scan_tough2(S):
    lines = S.lines
    fam = S.simulator
    starts = [i for i, l in enumerate(lines) if l.lstrip().lower().startswith('output data after')]
    for n, i in enumerate(starts):
        hi = starts[n + 1] if n + 1 < len(starts) else len(lines)
        b = Block('full', i)
        # time and step: the line under the TOTAL TIME heading
        j = i
        while j < hi and 'total time' not in lines[j].lower(): j += 1
        if j + 1 >= hi:
            continue
        w = lines[j + 1].split()
        try:
            b.time = fnum.read_real(w[0]); b.step = int(w[1])
        except (fnum.NotNumber, ValueError, IndexError):
            b.time = None
        scan_tables(S, b, j + 2, hi, fam)
        S.blocks.append(b)


_AUT = {'EEEEE': ('element', 'full'), 'CCCCC': ('connection', 'full'), 'GGGGG': ('generation', 'full'),
        'ESHORT': ('element', 'short'), 'CSHORT': ('connection', 'short'), 'GSHORT': ('generation', 'short')}


def _banner(l):
    if len(l) < 40: return None
    for kw in ('ESHORT', 'CSHORT', 'GSHORT'):
        if l[1:7] == kw and l[7:].strip(kw[0]) == '': return kw
    for kw in ('EEEEE', 'CCCCC', 'GGGGG'):
        if l[1:6] == kw and l[1:].strip(kw[0]) == '': return kw
    return None


def _scan_autough2(S):
    lines = S.lines
    ban = [(i, _banner(l)) for i, l in enumerate(lines)]
    ban = [(i, k) for i, k in ban if k]
    # banners come in triples: open (before the time header), mid (before the table), close
    n = 0
    first_short = None
    cur = None
    while n + 2 < len(ban) + 0 and n + 2 <= len(ban) - 1:
        (i0, k0), (i1, k1), (i2, k2) = ban[n], ban[n + 1], ban[n + 2]
        if not (k0 == k1 == k2):
            n += 1; continue
        tname, kind = _AUT[k0]
        # time header between open and mid
        time = step = None
        for l in lines[i0 + 1:i1]:
            m = re.match(r'\s*OUTPUT AFTER\s*(\S+)\s+TIME STEPS\s+(\S+)\s+SECONDS', l)
            if m:
                try: step = int(m.group(1))
                except ValueError: step = None
                time = fnum.read_real(m.group(2))
        if time is None:
            n += 1; continue
        newblock = False
        if kind == 'full':
            newblock = (tname == 'element')
        else:
            if first_short is None: first_short = k0
            newblock = (k0 == first_short)
        if newblock or cur is None or cur.kind != kind:
            cur = Block(kind, i0)
            cur.time, cur.step = time, step
            S.blocks.append(cur)
        before = len(cur.tables)
        scan_tables(S, cur, i1 + 1, i2, 'AUTOUGH2')
        for t in cur.tables[before:]:
            t.name = tname
            t.short = (kind == 'short')
        n += 3


# ----------------------------------------------------------------------------------------------
# column layout and cells

def _layouts(S):
    groups = {}
    for b in S.blocks:
        for t in b.tables:
            groups.setdefault((b.kind, t.name, tuple(t.colnames)), []).append(t)
    S.layouts = []
    for key, tabs in sorted(groups.items(), key=lambda kv: kv[1][0].header_line):
        L = Layout()
        L.tables = tabs
        L.kind, L.name = key[0], key[1]
        S.layouts.append(L)
        for t in tabs: t.layout = L
        _layout(S, L)


def _layout(S, L):
    tabs = L.tables
    t0 = tabs[0]
    ncols = len(t0.colnames)
    n_int = t0.n_int
    L.n_int = n_int

    def fail(reason):
        for t in tabs: t.fail(reason)

    ends = set()
    keyends = set()
    pre_ends = set()
    for t in tabs:
        if not t.rows:
            t.fail('no rows'); continue
        for r in t.rows:
            keyends.add(r.keyends)
            for k in r.toks: ends.add(k.end)
            pre_ends.add(r.pre_end)
    L.ends = E = sorted(ends)
    if len(keyends) != 1:
        return fail('keys are not in the same columns in every row: %s' % sorted(keyends)[:3])
    L.keyends = list(keyends)[0]
    if len(E) + n_int > ncols:
        return fail('%d distinct token end columns + %d integer columns for %d headings' % (len(E), n_int, ncols))
    L.trailing_blank = ncols - n_int - len(E)
    # the index (or last integer column) must end left of the first real field in every row
    if max(pre_ends) > E[0] - 1:
        return fail('index field overlaps the first value field')
    # index / integer columns end in one column unless the index is glued to the first value
    L.pre_end = max(pre_ends)
    # headings must stand above their columns
    t_spans = t0.spans
    lo = L.pre_end
    fields = []
    for e in E:
        fields.append((lo, e)); lo = e
    L.fields = fields
    for jn, (a, b) in enumerate(fields):
        ha, hb = t_spans[n_int + jn]
        # heading j must overlap field j or at least lie nearer to it than to its neighbours
        if hb <= a - 3 or ha >= b + 3:
            return fail('heading %r (columns %d-%d) is not above data field %d (columns %d-%d)' % (
                t0.colnames[n_int + jn], ha, hb, jn, a, b))
    # cells
    col_of = dict((e, jn) for jn, e in enumerate(E))
    for t in tabs:
        if t.status != 'ok': continue
        for r in t.rows:
            cells = [0.0] * ncols
            for q, k in enumerate(r.ints): cells[q] = k.value; k.col = q
            text = S.lines[r.line]
            used = set()
            for k in r.toks:
                jn = col_of[k.end]
                a, b = fields[jn]
                if jn == 0: a = r.pre_end
                if k.start < a:
                    t.fail('line %d: token %r crosses into the previous field' % (r.line + 1, k.text)); break
                if jn in used:
                    t.fail('line %d: two tokens in one field' % (r.line + 1)); break
                used.add(jn)
                k.col = n_int + jn
                cells[n_int + jn] = k.value
            if t.status != 'ok': break
            # second derivation: slice the line between consecutive end columns
            for jn, (a, b) in enumerate(fields):
                if jn == 0: a = r.pre_end
                piece = text[a:b]
                try:
                    v = fnum.read_real(piece, blank=0.0)
                except fnum.NotNumber:
                    t.fail('line %d: slice %r of field %d is not a number' % (r.line + 1, piece, jn)); break
                w = cells[n_int + jn]
                if not (v == w):
                    t.fail('line %d: slice %r gives %r, token gives %r' % (r.line + 1, piece, v, w)); break
            if t.status != 'ok': break
            if text[E[-1]:].strip():
                t.fail('line %d: text after the last field' % (r.line + 1)); break
            r.cells = cells
        if t.status == 'ok':
            # indices: distinct unless the same line is printed twice; overflow (****) continues the count
            last = 0
            for r in t.rows:
                if r.index is None: r.index = last + 1
                last = r.index
