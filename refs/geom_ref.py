"""Independent plane geometry (no code shared with geometry.py): exact-rational shoelace area,
centroid, winding-number point location with distance to the boundary, segment/polygon clipping,
perpendicular distances."""
from fractions import Fraction
import math


def area_exact(poly):
    """Signed area (positive = counter-clockwise) in exact rational arithmetic of the float
    coordinates, returned as float."""
    n = len(poly)
    s = Fraction(0)
    for i in range(n):
        x0, y0 = Fraction(float(poly[i][0])), Fraction(float(poly[i][1]))
        x1, y1 = Fraction(float(poly[(i + 1) % n][0])), Fraction(float(poly[(i + 1) % n][1]))
        s += x0 * y1 - x1 * y0
    return float(s / 2)


def centroid(poly):
    """Area centroid, computed relative to the first vertex to avoid cancellation."""
    n = len(poly)
    ox, oy = float(poly[0][0]), float(poly[0][1])
    a = cx = cy = 0.0
    for i in range(n):
        x0, y0 = float(poly[i][0]) - ox, float(poly[i][1]) - oy
        x1, y1 = float(poly[(i + 1) % n][0]) - ox, float(poly[(i + 1) % n][1]) - oy
        c = x0 * y1 - x1 * y0
        a += c; cx += (x0 + x1) * c; cy += (y0 + y1) * c
    if a == 0: return [ox, oy]
    return [ox + cx / (3 * a), oy + cy / (3 * a)]


def seg_point_dist(p, a, b):
    ax, ay, bx, by, px, py = float(a[0]), float(a[1]), float(b[0]), float(b[1]), float(p[0]), float(p[1])
    dx, dy = bx - ax, by - ay
    L2 = dx * dx + dy * dy
    t = 0.0 if L2 == 0 else max(0.0, min(1.0, ((px - ax) * dx + (py - ay) * dy) / L2))
    return math.hypot(px - (ax + t * dx), py - (ay + t * dy))


def boundary_dist(p, poly):
    n = len(poly)
    return min(seg_point_dist(p, poly[i], poly[(i + 1) % n]) for i in range(n))


def winding(p, poly):
    """Winding number of the polygon around p (0 = outside)."""
    px, py = float(p[0]), float(p[1])
    wn = 0
    n = len(poly)
    for i in range(n):
        x0, y0 = float(poly[i][0]), float(poly[i][1])
        x1, y1 = float(poly[(i + 1) % n][0]), float(poly[(i + 1) % n][1])
        cross = (x1 - x0) * (py - y0) - (px - x0) * (y1 - y0)
        if y0 <= py:
            if y1 > py and cross > 0: wn += 1
        else:
            if y1 <= py and cross < 0: wn -= 1
    return wn


def contains(p, poly):
    return winding(p, poly) != 0


def perp_dist_to_line(p, a, b):
    """Perpendicular distance from p to the infinite line through a, b."""
    ax, ay, bx, by, px, py = float(a[0]), float(a[1]), float(b[0]), float(b[1]), float(p[0]), float(p[1])
    dx, dy = bx - ax, by - ay
    L = math.hypot(dx, dy)
    return abs(dx * (py - ay) - dy * (px - ax)) / L


def dist(a, b):
    return math.hypot(float(a[0]) - float(b[0]), float(a[1]) - float(b[1]))


def clip_segment_convex_or_not(a, b, poly):
    """Parameter intervals [t0,t1] (0..1 along a->b) of the part of segment ab inside the simple
    polygon poly, by sorting all edge crossings and testing interval midpoints."""
    ax, ay, bx, by = float(a[0]), float(a[1]), float(b[0]), float(b[1])
    dx, dy = bx - ax, by - ay
    ts = [0.0, 1.0]
    n = len(poly)
    for i in range(n):
        x0, y0 = float(poly[i][0]), float(poly[i][1])
        x1, y1 = float(poly[(i + 1) % n][0]), float(poly[(i + 1) % n][1])
        ex, ey = x1 - x0, y1 - y0
        den = dx * ey - dy * ex
        if den == 0: continue
        t = ((x0 - ax) * ey - (y0 - ay) * ex) / den
        u = ((x0 - ax) * dy - (y0 - ay) * dx) / den
        if 0.0 <= t <= 1.0 and -1e-12 <= u <= 1.0 + 1e-12: ts.append(t)
    ts = sorted(set(ts))
    out = []
    for t0, t1 in zip(ts[:-1], ts[1:]):
        if t1 - t0 <= 0: continue
        tm = 0.5 * (t0 + t1)
        if contains((ax + tm * dx, ay + tm * dy), poly):
            if out and abs(out[-1][1] - t0) < 1e-15: out[-1][1] = t1
            else: out.append([t0, t1])
    return out
