"""Independent plane geometry (no code shared with geometry.py): exact-rational shoelace area,
centroid, winding-number point location with distance to the boundary, segment/polygon clipping,
perpendicular distances."""
from fractions import Fraction
import math


def area_exact(poly):
    """Signed area (positive = counter-clockwise) in exact rational arithmetic of the float
    coordinates, returned as float."""
    n = len(poly)
    s = Fraction(0)
    for i in range(n):
        x0, y0 = Fraction(float(poly[i][0])), Fraction(float(poly[i][1]))
        x1, y1 = Fraction(float(poly[(i + 1) % n][0])), Fraction(float(poly[(i + 1) % n][1]))
        s += x0 * y1 - x1 * y0
    return float(s / 2)


def centroid(poly):
    """Area centroid, computed relative to the first vertex to avoid cancellation."""
    n = len(poly)
    ox, oy = float(poly[0][0]), float(poly[0][1])
    a = cx = cy = 0.0
    for i in range(n):
        x0, y0 = float(poly[i][0]) - ox, float(poly[i][1]) - oy
        x1, y1 = float(poly[(i + 1) % n][0]) - ox, float(poly[(i + 1) % n][1]) - oy
        c = x0 * y1 - x1 * y0
        a += c; cx += (x0 + x1) * c; cy += (y0 + y1) * c
    if a == 0: return [ox, oy]
    return [ox + cx / (3 * a), oy + cy / (3 * a)]


def seg_point_dist(p, a, b):
    ax, ay, bx, by, px, py = float(a[0]), float(a[1]), float(b[0]), float(b[1]), float(p[0]), float(p[1])
    dx, dy = bx - ax, by - ay
    L2 = dx * dx + dy * dy
    t = 0.0 if L2 == 0 else max(0.0, min(1.0, ((px - ax) * dx + (py - ay) * dy) / L2))
    return math.hypot(px - (ax + t * dx), py - (ay + t * dy))


def boundary_dist(p, poly):
    n = len(poly)
    return min(seg_point_dist(p, poly[i], poly[(i + 1) % n]) for i in range(n))


def winding(p, poly):
    """Winding number of the polygon around p (0 = outside)."""
    px, py = float(p[0]), float(p[1])
    wn = 0
    n = len(poly)
    for i in range(n):
        x0, y0 = float(poly[i][0]), float(poly[i][1])
        x1, y1 = float(poly[(i + 1) % n][0]), float(poly[(i + 1) % n][1])
        cross = (x1 - x0) * (py - y0) - (px - x0) * (y1 - y0)
        if y0 <= py:
            if y1 > py and cross > 0: wn += 1
        else:
            if y1 <= py and cross < 0: wn -= 1
    return wn


def contains(p, poly):
    return winding(p, poly) != 0


def perp_dist_to_line(p, a, b):
    """Perpendicular distance from p to the infinite line through a, b."""
    ax, ay, bx, by, px, py = float(a[0]), float(a[1]), float(b[0]), float(b[1]), float(p[0]), float(p[1])
    dx, dy = bx - ax, by - ay
    L = math.hypot(dx, dy)
    return abs(dx * (py - ay) - dy * (px - ax)) / L


def dist(a, b):
    return math.hypot(float(a[0]) - float(b[0]), float(a[1]) - float(b[1]))


def clip_segment_convex_or_not(a, b, poly):
    """Parameter intervals [t0,t1] (0..1 along a->b) of the part of segment ab inside the simple
    polygon poly, by sorting all edge crossings and testing interval midpoints."""
    ax, ay, bx, by = float(a[0]), float(a[1]), float(b[0]), float(b[1])
    dx, dy = bx - ax, by - ay
    ts = [0.0, 1.0]
    n = len(poly)
    for i in range(n):
        x0, y0 = float(poly[i][0]), float(poly[i][1])
        x1, y1 = float(poly[(i + 1) % n][0]), float(poly[(i + 1) % n][1])
        ex, ey = x1 - x0, y1 - y0
        den = dx * ey - dy * ex
        if den == 0: continue
        t = ((x0 - ax) * ey - (y0 - ay) * ex) / den
        u = ((x0 - ax) * dy - (y0 - ay) * dx) / den
        if 0.0 <= t <= 1.0 and -1e-12 <= u <= 1.0 + 1e-12: ts.append(t)
    ts = sorted(set(ts))
    out = []
    for t0, t1 in zip(ts[:-1], ts[1:]):
        if t1 - t0 <= 0: continue
        tm = 0.5 * (t0 + t1)
        if contains((ax + tm * dx, ay + tm * dy), poly):
            if out and abs(out[-1][1] - t0) < 1e-15: out[-1][1] = t1
            else: out.append([t0, t1])
    return out


# ---------------------------------------------------------------------- additions for C11 / C12
# (mesh-level helpers: point location over many polygons, conformity, convexity, clipping by parameter)

def bbox(poly):
    xs = [float(p[0]) for p in poly]; ys = [float(p[1]) for p in poly]
    return (min(xs), min(ys), max(xs), max(ys))


def diameter(poly):
    b = bbox(poly)
    return math.hypot(b[2] - b[0], b[3] - b[1])


class Mesh(object):
    """A list of polygons (lists of (x, y)) with bounding boxes, for brute-force point location.
    The bounding boxes are used only to skip polygons that cannot contain / come near the point
    (padded by `pad`); containment itself is always decided by the winding number."""

    def __init__(self, polys):
        import numpy as np
        self.polys = [[(float(p[0]), float(p[1])) for p in poly] for poly in polys]
        bb = [bbox(p) for p in self.polys] or [(0., 0., 0., 0.)]
        self.bb = np.array(bb, dtype=float).reshape(-1, 4)

    def candidates(self, p, pad=0.0):
        import numpy as np
        if not self.polys: return []
        x, y = float(p[0]), float(p[1])
        m = (self.bb[:, 0] - pad <= x) & (x <= self.bb[:, 2] + pad) & (self.bb[:, 1] - pad <= y) & (y <= self.bb[:, 3] + pad)
        return [int(i) for i in np.nonzero(m)[0]]

    def containing(self, p):
        """indices of all polygons whose winding number around p is non-zero"""
        return [i for i in self.candidates(p) if winding(p, self.polys[i]) != 0]

    def edge_dist(self, p, pad):
        """distance from p to the nearest polygon edge, or None if it is larger than pad"""
        best = None
        for i in self.candidates(p, pad):
            d = boundary_dist(p, self.polys[i])
            if d <= pad and (best is None or d < best): best = d
        return best


def is_convex(poly, tol=0.0):
    """True if every turn of the (counter-clockwise) polygon is to the left or straight
    (cross product >= -tol * |e1| * |e2|)."""
    n = len(poly)
    for i in range(n):
        ax, ay = float(poly[i][0]), float(poly[i][1])
        bx, by = float(poly[(i + 1) % n][0]), float(poly[(i + 1) % n][1])
        cx, cy = float(poly[(i + 2) % n][0]), float(poly[(i + 2) % n][1])
        cr = (bx - ax) * (cy - by) - (by - ay) * (cx - bx)
        if cr < -tol * math.hypot(bx - ax, by - ay) * math.hypot(cx - bx, cy - by): return False
    return True


def turn_angles(poly):
    """interior angle (radians) at every vertex of a counter-clockwise polygon, by atan2 of cross and dot
    products of the adjacent sides"""
    n = len(poly)
    out = []
    for i in range(n):
        ax, ay = float(poly[i - 1][0]), float(poly[i - 1][1])
        bx, by = float(poly[i][0]), float(poly[i][1])
        cx, cy = float(poly[(i + 1) % n][0]), float(poly[(i + 1) % n][1])
        ux, uy, vx, vy = bx - ax, by - ay, cx - bx, cy - by
        ext = math.atan2(ux * vy - uy * vx, ux * vx + uy * vy)      # exterior (turning) angle, left positive
        out.append(math.pi - ext)
    return out


def convex_combination(poly, weights):
    """sum w_i p_i / sum w_i with positive weights: strictly inside a convex polygon"""
    s = float(sum(weights))
    x = sum(float(w) * float(p[0]) for w, p in zip(weights, poly)) / s
    y = sum(float(w) * float(p[1]) for w, p in zip(weights, poly)) / s
    return (x, y)


def hanging_nodes(points, edges, rel=1e-6):
    """All (point index, edge index) pairs where the point lies in the open interior of the edge:
    perpendicular distance <= rel * length and projection parameter in (rel, 1 - rel).
    points: list of (x, y); edges: list of ((x0, y0), (x1, y1), i0, i1) with i0, i1 the indices of the
    end points in `points` (never reported for their own edge).  Vectorised with numpy (O(P*E))."""
    import numpy as np
    if not points or not edges: return []
    P = np.array([[float(p[0]), float(p[1])] for p in points])
    out = []
    for k, (a, b, i0, i1) in enumerate(edges):
        ax, ay, bx, by = float(a[0]), float(a[1]), float(b[0]), float(b[1])
        dx, dy = bx - ax, by - ay
        L2 = dx * dx + dy * dy
        if L2 == 0: continue
        L = math.sqrt(L2)
        t = ((P[:, 0] - ax) * dx + (P[:, 1] - ay) * dy) / L2
        dist = np.abs((P[:, 0] - ax) * dy - (P[:, 1] - ay) * dx) / L
        m = (t > rel) & (t < 1 - rel) & (dist <= rel * L)
        for j in np.nonzero(m)[0]:
            j = int(j)
            if j != i0 and j != i1: out.append((j, k))
    return out


def point_to_line_param(p, a, b):
    """(t, perpendicular distance) of p relative to the line a + t (b - a)"""
    ax, ay, bx, by, px, py = float(a[0]), float(a[1]), float(b[0]), float(b[1]), float(p[0]), float(p[1])
    dx, dy = bx - ax, by - ay
    L2 = dx * dx + dy * dy
    t = ((px - ax) * dx + (py - ay) * dy) / L2
    return t, abs((px - ax) * dy - (py - ay) * dx) / math.sqrt(L2)


def min_crossing_sine(a, b, poly):
    """smallest |sin| of the angle between segment ab and any polygon edge it crosses (1.0 if none);
    also the smallest distance from the infinite line's crossing to an end of that edge is not considered."""
    ax, ay, bx, by = float(a[0]), float(a[1]), float(b[0]), float(b[1])
    dx, dy = bx - ax, by - ay
    Ld = math.hypot(dx, dy)
    best = 1.0
    n = len(poly)
    for i in range(n):
        x0, y0 = float(poly[i][0]), float(poly[i][1])
        x1, y1 = float(poly[(i + 1) % n][0]), float(poly[(i + 1) % n][1])
        ex, ey = x1 - x0, y1 - y0
        Le = math.hypot(ex, ey)
        if Le == 0 or Ld == 0: continue
        den = dx * ey - dy * ex
        s = abs(den) / (Ld * Le)
        if den == 0:
            # parallel: relevant only if the edge lies on the line
            if abs((x0 - ax) * dy - (y0 - ay) * dx) / Ld <= 1e-9 * max(Ld, Le): best = 0.0
            continue
        t = ((x0 - ax) * ey - (y0 - ay) * ex) / den
        u = ((x0 - ax) * dy - (y0 - ay) * dx) / den
        if -1e-9 <= t <= 1 + 1e-9 and -1e-9 <= u <= 1 + 1e-9: best = min(best, s)
    return best
