"""Independent reader / Fortran-style writer for TOUGH2 and AUTOUGH2 data files, with its own copy of
the record layouts (TOUGH2 user's guide input formats; AUTOUGH2 differences: SIMUL, DIFF0 in PARAM.1,
EOS name in MULTI, LINEQ, SHORT).  No code shared with t2data.py / fixed_format_file.py.

A *model* is a plain dict:
  title, simulator (AUTOUGH2 only), sections (ordered keyword list), rocks, param, momop, start, nover,
  rpcap, lineq, solver, multi, times, selec, diffu, blocks, connections, meshmaker, generators,
  short, foft, coft, goft, incon, indom
Each record is a dict of field name -> value (None = blank).  Reals written by write() are returned
to the caller as the values represented by the printed digits (see Rep).
"""
import math
from refs import ffmt

# (name, first column (0-based), last column (exclusive), type)   types: a = text, i = integer, e = real, f = real F
L = {
    'rocks1': [('name', 0, 5, 'a'), ('nad', 5, 10, 'i'), ('density', 10, 20, 'e'), ('porosity', 20, 30, 'e'),
               ('k1', 30, 40, 'e'), ('k2', 40, 50, 'e'), ('k3', 50, 60, 'e'), ('conductivity', 60, 70, 'e'),
               ('specific_heat', 70, 80, 'e')],
    'rocks2': [('compressibility', 0, 10, 'e'), ('expansivity', 10, 20, 'e'), ('dry_conductivity', 20, 30, 'e'),
               ('tortuosity', 30, 40, 'e'), ('klinkenberg', 40, 50, 'e'), ('xkd3', 50, 60, 'e'), ('xkd4', 60, 70, 'e')],
    'rp': [('type', 0, 5, 'i')] + [('p%d' % k, 10 + 10 * k, 20 + 10 * k, 'e') for k in range(7)],
    'param1_t2': [('max_iterations', 0, 2, 'i'), ('print_level', 2, 4, 'i'), ('max_timesteps', 4, 8, 'i'),
                  ('max_duration', 8, 12, 'i'), ('print_interval', 12, 16, 'i'), ('mop', 16, 40, 'a'),
                  ('texp', 40, 50, 'e'), ('be', 50, 60, 'e')],
    'param1_au': [('max_iterations', 0, 2, 'i'), ('print_level', 2, 4, 'i'), ('max_timesteps', 4, 8, 'i'),
                  ('max_duration', 8, 12, 'i'), ('print_interval', 12, 16, 'i'), ('mop', 16, 40, 'a'),
                  ('diff0', 40, 50, 'e'), ('texp', 50, 60, 'e'), ('be', 60, 70, 'e')],
    'param2': [('tstart', 0, 10, 'e'), ('tstop', 10, 20, 'e'), ('const_timestep', 20, 30, 'e'),
               ('max_timestep', 30, 40, 'e'), ('print_block', 40, 45, 'a'), ('gravity', 50, 60, 'e'),
               ('timestep_reduction', 60, 70, 'e'), ('scale', 70, 80, 'e')],
    'param3': [('relative_error', 0, 10, 'e'), ('absolute_error', 10, 20, 'e'), ('pivot', 20, 30, 'e'),
               ('upstream_weight', 30, 40, 'e'), ('newton_weight', 40, 50, 'e'), ('derivative_increment', 50, 60, 'e')],
    'multi_t2': [('num_components', 0, 5, 'i'), ('num_equations', 5, 10, 'i'), ('num_phases', 10, 15, 'i'),
                 ('num_secondary_parameters', 15, 20, 'i'), ('num_inc', 20, 25, 'i')],
    'multi_au': [('num_components', 0, 5, 'i'), ('num_equations', 5, 10, 'i'), ('num_phases', 10, 15, 'i'),
                 ('num_secondary_parameters', 15, 20, 'i'), ('eos', 20, 24, 'a')],
    'lineq': [('type', 0, 2, 'i'), ('epsilon', 2, 12, 'e'), ('max_iterations', 12, 16, 'i'), ('gauss', 16, 17, 'i'),
              ('num_orthog', 17, 21, 'i')],
    'solver': [('type', 0, 1, 'i'), ('z_precond', 3, 5, 'a'), ('o_precond', 8, 10, 'a'),
               ('relative_max_iterations', 10, 20, 'e'), ('closure', 20, 30, 'e')],
    'times1': [('num_times_specified', 0, 5, 'i'), ('num_times', 5, 10, 'i'), ('max_timestep', 10, 20, 'e'),
               ('time_increment', 20, 30, 'e')],
    'eleme': [('name', 0, 5, 'a'), ('nseq', 5, 10, 'i'), ('nadd', 10, 15, 'i'), ('rocktype', 15, 20, 'a'),
              ('volume', 20, 30, 'e'), ('ahtx', 30, 40, 'e'), ('pmx', 40, 50, 'e'), ('x', 50, 60, 'e'), ('y', 60, 70, 'e'),
              ('z', 70, 80, 'e')],
    'conne': [('block1', 0, 5, 'a'), ('block2', 5, 10, 'a'), ('nseq', 10, 15, 'i'), ('nad1', 15, 20, 'i'),
              ('nad2', 20, 25, 'i'), ('direction', 25, 30, 'i'), ('distance1', 30, 40, 'e'), ('distance2', 40, 50, 'e'),
              ('area', 50, 60, 'e'), ('dircos', 60, 70, 'f'), ('sigma', 70, 80, 'e')],
    'gener': [('block', 0, 5, 'a'), ('name', 5, 10, 'a'), ('nseq', 10, 15, 'i'), ('nadd', 15, 20, 'i'),
              ('nads', 20, 25, 'i'), ('ltab', 25, 30, 'i'), ('type', 35, 39, 'a'), ('itab', 39, 40, 'a'),
              ('gx', 40, 50, 'e'), ('ex', 50, 60, 'e'), ('hg', 60, 70, 'e'), ('fg', 70, 80, 'e')],
    'incon1': [('block', 0, 5, 'a'), ('nseq', 5, 10, 'i'), ('nadd', 10, 15, 'i'), ('porosity', 15, 30, 'e')],
}
XP = {   # AUTOUGH2 extra-precision companion file: same records with 15-column reals
    'rocks1': [('name', 0, 5, 'a'), ('nad', 5, 10, 'i')] + [(n, 10 + 15 * k, 25 + 15 * k, 'e') for k, n in enumerate(
        ['density', 'porosity', 'k1', 'k2', 'k3', 'conductivity', 'specific_heat'])],
    'rocks2': [(n, 15 * k, 15 * k + 15, 'e') for k, n in enumerate(
        ['compressibility', 'expansivity', 'dry_conductivity', 'tortuosity', 'klinkenberg', 'xkd3', 'xkd4'])],
    'rp': [('type', 0, 5, 'i')] + [('p%d' % k, 10 + 15 * k, 25 + 15 * k, 'e') for k in range(7)],
    'eleme': [('name', 0, 5, 'a'), ('nseq', 5, 10, 'i'), ('nadd', 10, 15, 'i'), ('rocktype', 15, 20, 'a')] +
             [(n, 20 + 15 * k, 35 + 15 * k, 'e') for k, n in enumerate(['volume', 'ahtx', 'pmx', 'x', 'y', 'z'])],
    'conne': [('block1', 0, 5, 'a'), ('block2', 5, 10, 'a'), ('nseq', 10, 15, 'i'), ('nad1', 15, 20, 'i'),
              ('nad2', 20, 25, 'i'), ('direction', 25, 30, 'i'), ('distance1', 30, 45, 'e'), ('distance2', 45, 60, 'e'),
              ('area', 60, 75, 'e'), ('dircos', 75, 90, 'f'), ('sigma', 90, 105, 'e')],
    'gener': [('block', 0, 5, 'a'), ('name', 5, 10, 'a'), ('nseq', 10, 15, 'i'), ('nadd', 15, 20, 'i'),
              ('nads', 20, 25, 'i'), ('ltab', 25, 30, 'i'), ('type', 35, 39, 'a'), ('itab', 39, 40, 'a'),
              ('gx', 40, 55, 'e'), ('ex', 55, 70, 'e'), ('hg', 70, 85, 'e'), ('fg', 85, 100, 'e')],
}
KEYWORDS = ['SIMUL', 'ROCKS', 'PARAM', 'MOMOP', 'START', 'NOVER', 'RPCAP', 'LINEQ', 'SOLVR', 'MULTI', 'TIMES', 'SELEC',
            'DIFFU', 'ELEME', 'CONNE', 'MESHM', 'GENER', 'SHORT', 'FOFT', 'COFT', 'GOFT', 'INCON', 'INDOM']


def rec(line, layout):
    out = {}
    for name, a, b, t in layout:
        if t == 'a': out[name] = ffmt.cols(line, a, b)
        elif t == 'i': out[name] = ffmt.integer(line, a, b)
        else: out[name] = ffmt.real(line, a, b)
    return out


def reals(line, n, w):
    return [ffmt.real(line, k * w, k * w + w) for k in range(n)]


def trim(v):
    v = list(v)
    while v and v[-1] is None: v.pop()
    return v


class Reader(object):
    def __init__(self, path):
        with open(path) as fh:
            self.lines = fh.read().split('\n')
        self.i = 0

    def next(self):
        if self.i >= len(self.lines): return None
        s = self.lines[self.i]; self.i += 1
        return s

    def peek(self):
        return self.lines[self.i] if self.i < len(self.lines) else None


def read_mesh_file(path):
    """MESH text file: ELEME and CONNE sections only"""
    R = Reader(path)
    m = {'blocks': [], 'connections': []}
    while True:
        ln = R.next()
        if ln is None: break
        kw = ln[:5].strip()
        if kw == 'ELEME': m['blocks'] = read_table(R, L['eleme'])
        elif kw == 'CONNE': m['connections'] = read_table(R, L['conne'], stop='+++')
    return m


def read(path, autough2=None, xp_sections=(), layouts=None, no_title=False, gen_width=14):
    """Parses a data file into a model.  autough2: None = decide from the presence of SIMUL."""
    R = Reader(path)
    m = {'title': '' if no_title else (R.next() or '').rstrip(), 'sections': [], 'end': None}
    au = autough2
    lay = dict(L)
    if layouts: lay.update(layouts)
    while True:
        ln = R.next()
        if ln is None: break
        kw = ln[:5].strip()
        if kw in ('ENDCY', 'ENDFI'):
            m['end'] = kw; break
        if kw not in KEYWORDS: continue
        m['sections'].append(kw)
        if kw == 'SIMUL':
            m['simulator'] = (R.next() or '').rstrip(); au = True if au is None else au
        elif kw == 'ROCKS':
            m['rocks'] = read_rocks(R, lay)
        elif kw == 'PARAM':
            m['param'] = read_param(R, bool(au), lay)
        elif kw == 'MOMOP':
            m['momop'] = ffmt.cols(R.next() or '', 0, 21)
        elif kw == 'START': m['start'] = True
        elif kw == 'NOVER': m['nover'] = True
        elif kw == 'RPCAP':
            a = rec(R.next() or '', lay['rp']); b = rec(R.next() or '', lay['rp'])
            m['rpcap'] = {'rp_type': a['type'], 'rp': [a['p%d' % k] for k in range(7)],
                          'cp_type': b['type'], 'cp': [b['p%d' % k] for k in range(7)]}
        elif kw == 'LINEQ': m['lineq'] = rec(R.next() or '', lay['lineq'])
        elif kw == 'SOLVR': m['solver'] = rec(R.next() or '', lay['solver'])
        elif kw == 'MULTI': m['multi'] = rec(R.next() or '', lay['multi_au' if au else 'multi_t2'])
        elif kw == 'TIMES':
            t = rec(R.next() or '', lay['times1'])
            n = t['num_times_specified'] or 0
            ts = []
            for _ in range(int(math.ceil(n / 8.))): ts += reals(R.next() or '', 8, 10)
            t['time'] = [x for x in ts if x is not None]
            m['times'] = t
        elif kw == 'SELEC':
            ln1 = R.next() or ''
            ints = [ffmt.integer(ln1, 5 * k, 5 * k + 5) for k in range(16)]
            fl = []
            for _ in range(ints[0] or 0): fl += reals(R.next() or '', 8, 10)
            m['selec'] = {'integer': ints, 'float': fl}
        elif kw == 'DIFFU':
            nk = (m.get('multi') or {}).get('num_components') or 0
            nph = (m.get('multi') or {}).get('num_phases') or 0
            m['diffu'] = [reals(R.next() or '', 8, 10)[:nph] for _ in range(nk)]
        elif kw == 'ELEME':
            m['blocks'] = read_table(R, lay['eleme'])
        elif kw == 'CONNE':
            m['connections'] = read_table(R, lay['conne'], stop='+++')
        elif kw == 'MESHM':
            m['meshmaker'] = read_meshmaker(R)
        elif kw == 'GENER':
            m['generators'] = read_generators(R, lay['gener'], gen_width)
        elif kw == 'SHORT':
            m['short'] = read_short(R, ln)
        elif kw in ('FOFT', 'GOFT'):
            out = []
            while True:
                s = R.next()
                if s is None or s.strip() == '': break
                out.append(ffmt.cols(s, 0, 5))
            m[kw.lower()] = out
        elif kw == 'COFT':
            out = []
            while True:
                s = R.next()
                if s is None or s.strip() == '': break
                out.append([ffmt.cols(s, 0, 5), ffmt.cols(s, 5, 10)])
            m['coft'] = out
        elif kw == 'INCON':
            out = []
            while True:
                s = R.next()
                if s is None or s.strip() == '': break
                r = rec(s, lay['incon1'])
                r['vars'] = trim(reals(R.next() or '', 4, 20))
                out.append(r)
            m['incon'] = out
        elif kw == 'INDOM':
            out = []
            while True:
                s = R.next()
                if s is None or s.strip() == '': break
                out.append({'rock': ffmt.cols(s, 0, 5), 'vars': trim(reals(R.next() or '', 4, 20))})
            m['indom'] = out
    return m


def read_table(R, layout, stop=None):
    out = []
    while True:
        s = R.next()
        if s is None or s.strip() == '' or (stop and s.startswith(stop)): break
        out.append(rec(s, layout))
    return out


def read_rocks(R, lay):
    out = []
    while True:
        s = R.next()
        if s is None or s.strip() == '': break
        r = rec(s, lay['rocks1'])
        nad = r['nad'] or 0
        if nad >= 1:
            r.update(rec(R.next() or '', lay['rocks2']))
        if nad >= 2:
            a = rec(R.next() or '', lay['rp']); b = rec(R.next() or '', lay['rp'])
            r['rp_type'], r['rp'] = a['type'], [a['p%d' % k] for k in range(7)]
            r['cp_type'], r['cp'] = b['type'], [b['p%d' % k] for k in range(7)]
        out.append(r)
    return out


def read_param(R, au, lay):
    p = rec(R.next() or '', lay['param1_au' if au else 'param1_t2'])
    p.update(rec(R.next() or '', lay['param2']))
    p['timestep'] = []
    dt = p.get('const_timestep')
    if dt is not None and dt < 0:
        for _ in range(int(-dt)):
            p['timestep'] += [x for x in reals(R.next() or '', 8, 10) if x is not None]
    p.update(rec(R.next() or '', lay['param3']))
    inc = trim(reals(R.next() or '', 4, 20))
    while True:
        s = R.peek()
        if s is None or s.strip() == '':
            if s is not None: R.next()
            break
        if any(s.startswith(k) for k in KEYWORDS + ['ENDCY', 'ENDFI', 'MESHM']): break
        inc += trim(reals(R.next(), 4, 20))
    p['default_incons'] = inc
    return p


def read_generators(R, layout, tw):
    out = []
    while True:
        s = R.next()
        if s is None or s.strip() == '': break
        g = rec(s, layout)
        g['time'], g['rate'], g['enthalpy'] = [], [], []
        lt = g['ltab']
        if lt and g['type'] != 'DELV' and abs(lt) > 1:
            n = abs(lt); nl = int(math.ceil(n / 4.))
            for key in ('time', 'rate') + (('enthalpy',) if g['itab'].strip() else ()):
                v = []
                for _ in range(nl): v += reals(R.next() or '', 4, tw)
                g[key] = [x for x in v if x is not None]
        out.append(g)
    return out


def read_short(R, header):
    sh = {'frequency': ffmt.integer(header, 5, 7)}
    cur = None
    while True:
        s = R.next()
        if s is None or s.strip() == '': break
        k = s[:5]
        if k in ('ELEME', 'CONNE', 'GENER'):
            cur = {'ELEME': 'block', 'CONNE': 'connection', 'GENER': 'generator'}[k]; sh[cur] = []
        elif cur == 'block': sh[cur].append(ffmt.cols(s, 0, 5))
        elif cur is not None: sh[cur].append([ffmt.cols(s, 0, 5), ffmt.cols(s, 5, 10)])
    return sh


def read_meshmaker(R):
    out = []
    while True:
        s = R.next()
        if s is None or s.strip() == '': break
        k = s[:5].strip()
        if k == 'RZ2D':
            sub = []
            while True:
                t = (R.next() or '')[:5].strip()
                if t == 'RADII':
                    n = ffmt.integer(R.next() or '', 0, 5) or 0
                    v = []
                    for _ in range(int(math.ceil(n / 8.))): v += reals(R.next() or '', 8, 10)
                    sub.append(['radii', {'radii': [x for x in v if x is not None]}])
                elif t == 'EQUID':
                    l = R.next() or ''
                    sub.append(['equid', {'nequ': ffmt.integer(l, 0, 5), 'dr': ffmt.real(l, 10, 20)}])
                elif t == 'LOGAR':
                    l = R.next() or ''
                    sub.append(['logar', {'nlog': ffmt.integer(l, 0, 5), 'rlog': ffmt.real(l, 10, 20), 'dr': ffmt.real(l, 20, 30)}])
                elif t == 'LAYER':
                    n = ffmt.integer(R.next() or '', 0, 5) or 0
                    v = []
                    for _ in range(int(math.ceil(n / 8.))): v += reals(R.next() or '', 8, 10)
                    sub.append(['layer', {'layer': v[:n]}]); break
                else: break
            out.append(['rz2d', sub])
        elif k == 'XYZ':
            deg = ffmt.real(R.next() or '', 0, 10)
            subs = []
            while True:
                l = R.next()
                if l is None or l.strip() == '': break
                d = {'ntype': ffmt.cols(l, 0, 2), 'no': ffmt.integer(l, 5, 10), 'del': ffmt.real(l, 10, 20)}
                if d['del'] == 0:
                    v = []
                    for _ in range(int(math.ceil((d['no'] or 0) / 8.))): v += reals(R.next() or '', 8, 10)
                    d['deli'] = v[:d['no']]
                subs.append(d)
            out.append(['xyz', {'deg': deg, 'dirs': subs}])
        elif k == 'MINC':
            l = R.next() or ''
            d = {'type': ffmt.cols(l, 5, 10), 'dual': ffmt.cols(l, 15, 20)}
            l = R.next() or ''
            d['num_continua'] = ffmt.integer(l, 0, 3); nvol = ffmt.integer(l, 3, 6) or 0
            d['where'] = ffmt.cols(l, 6, 10)
            d['spacing'] = [ffmt.real(l, 10 + 10 * k2, 20 + 10 * k2) for k2 in range(7)]
            v = []
            for _ in range(int(math.ceil(nvol / 8.))): v += reals(R.next() or '', 8, 10)
            d['vol'] = v[:nvol]
            out.append(['minc', d])
    return out


# ---------------------------------------------------------------------------------------------- writer
class Rep(object):
    """records which value each printed real represents"""
    pass


def wrec(vals, layout, style='E', width=None):
    """Fortran-style record; returns (text, dict of represented values)."""
    total = width or max(b for _n, _a, b, _t in layout)
    buf = [' '] * total
    rep = {}
    for name, a, b, t in layout:
        v = vals.get(name)
        w = b - a
        if t == 'a':
            s = ffmt.fort_a('' if v is None else v, w); rep[name] = s
        elif t == 'i':
            s = ffmt.fort_i(v, w); rep[name] = v
        elif t == 'f':
            s, x = ffmt.fort_f(v, w, min(7, w - 3)); rep[name] = x
        else:
            d = w - 6 if (v is None or v >= 0) else w - 7
            if v is not None and v != 0 and (abs(v) >= 1e99 or abs(v) < 1e-98): d = min(d, w - 7 if v > 0 else w - 8)
            s, x = ffmt.fort_e(v, w, max(1, d), style); rep[name] = x
        buf[a:b] = list(s)
    return ''.join(buf).rstrip(), rep


def wreals(vals, w, per, style='E', dmax=None):
    """list of reals, `per` per line, Fortran E format; returns (lines, represented values)."""
    lines, rep = [], []
    for i in range(0, len(vals), per):
        s = ''
        for v in vals[i:i + per]:
            d = w - 6 if (v is None or v >= 0) else w - 7
            if v is not None and v != 0 and (abs(v) >= 1e99 or abs(v) < 1e-98): d -= 1
            if dmax: d = min(d, dmax)
            t, x = ffmt.fort_e(v, w, max(1, d), style)
            s += t; rep.append(x)
        lines.append(s.rstrip())
    return lines, rep


def write(path, m, style='E', au=None, xp=False, sections=None):
    """Writes the model as a Fortran program would (E/D exponents, 0.ddd mantissas, letter dropped for
    3-digit exponents).  `sections`: keyword order (default m['sections']).  xp=True writes the
    extra-precision layouts (companion file): only the sections given."""
    if au is None: au = bool(m.get('simulator'))
    lay = XP if xp else L
    tw = 15 if xp else 14
    out = []
    if not xp: out.append(m.get('title', ''))
    for kw in (sections if sections is not None else m['sections']):
        if kw == 'SIMUL':
            out += ['SIMUL', m['simulator']]
        elif kw == 'ROCKS':
            out.append('ROCKS')
            for r in m['rocks']:
                out.append(wrec(r, lay['rocks1'], style)[0])
                nad = r.get('nad') or 0
                if nad >= 1: out.append(wrec(r, lay['rocks2'], style)[0])
                if nad >= 2:
                    for t, key in (('rp_type', 'rp'), ('cp_type', 'cp')):
                        d = {'type': r[t]}
                        d.update(('p%d' % k, v) for k, v in enumerate(r[key]))
                        out.append(wrec(d, lay['rp'], style)[0])
            out.append('')
        elif kw == 'PARAM':
            p = m['param']
            out.append('PARAM')
            out.append(wrec(p, L['param1_au' if au else 'param1_t2'], style)[0])
            out.append(wrec(p, L['param2'], style)[0])
            dt = p.get('const_timestep')
            if dt is not None and dt < 0:
                ts = list(p['timestep'])
                n = int(-dt)
                for k in range(n):
                    out += wreals(ts[8 * k: 8 * k + 8], 10, 8, style)[0] or ['']
            out.append(wrec(p, L['param3'], style)[0])
            inc = p.get('default_incons') or []
            if inc: out += wreals(inc, 20, 4, style, 13)[0]
            else: out.append('')
        elif kw == 'MOMOP': out += ['MOMOP', m['momop']]
        elif kw == 'START': out.append('START')
        elif kw == 'NOVER': out.append('NOVER')
        elif kw == 'RPCAP':
            out.append('RPCAP')
            for t, key in (('rp_type', 'rp'), ('cp_type', 'cp')):
                d = {'type': m['rpcap'][t]}
                d.update(('p%d' % k, v) for k, v in enumerate(m['rpcap'][key]))
                out.append(wrec(d, lay['rp'], style)[0])
        elif kw == 'LINEQ': out += ['LINEQ', wrec(m['lineq'], L['lineq'], style)[0]]
        elif kw == 'SOLVR': out += ['SOLVR', wrec(m['solver'], L['solver'], style)[0]]
        elif kw == 'MULTI': out += ['MULTI', wrec(m['multi'], L['multi_au' if au else 'multi_t2'], style)[0]]
        elif kw == 'TIMES':
            out += ['TIMES', wrec(m['times'], L['times1'], style)[0]]
            out += wreals(m['times']['time'], 10, 8, style)[0]
        elif kw == 'SELEC':
            out.append('SELEC')
            out.append(''.join(ffmt.fort_i(v, 5) for v in m['selec']['integer']).rstrip())
            fl = m['selec']['float']
            for k in range(m['selec']['integer'][0] or 0):
                out += wreals(fl[8 * k: 8 * k + 8], 10, 8, style)[0] or ['']
        elif kw == 'DIFFU':
            out.append('DIFFU')
            for row in m['diffu']: out += wreals(row, 10, 8, style)[0] or ['']
        elif kw == 'ELEME':
            out.append('ELEME')
            for b in m['blocks']: out.append(wrec(b, lay['eleme'], style)[0])
            out.append('')
        elif kw == 'CONNE':
            out.append('CONNE')
            for c in m['connections']: out.append(wrec(c, lay['conne'], style)[0])
            out.append('')
        elif kw == 'MESHM':
            out.append('MESHMAKER')
            for typ, d in m['meshmaker']:
                if typ == 'rz2d':
                    out.append('RZ2D')
                    for st, sd in d:
                        out.append(st.upper())
                        if st == 'radii':
                            out.append(ffmt.fort_i(len(sd['radii']), 5)); out += wreals(sd['radii'], 10, 8, style)[0]
                        elif st == 'equid':
                            out.append(ffmt.fort_i(sd['nequ'], 5) + ' ' * 5 + wreals([sd['dr']], 10, 8, style)[0][0])
                        elif st == 'logar':
                            out.append(ffmt.fort_i(sd['nlog'], 5) + ' ' * 5 + wreals([sd['rlog'], sd['dr']], 10, 8, style)[0][0])
                        elif st == 'layer':
                            out.append(ffmt.fort_i(len(sd['layer']), 5)); out += wreals(sd['layer'], 10, 8, style)[0]
                elif typ == 'xyz':
                    out.append('XYZ')
                    out.append(wreals([d['deg']], 10, 8, style)[0][0])
                    for dd in d['dirs']:
                        out.append(ffmt.fort_a(dd['ntype'], 2) + ' ' * 3 + ffmt.fort_i(dd['no'], 5) +
                                   (wreals([dd['del']], 10, 8, style)[0][0] if dd['del'] is not None else ''))
                        if dd['del'] == 0: out += wreals(dd['deli'], 10, 8, style)[0]
                    out.append('')
                else:
                    out.append('MINC')
                    out.append('PART ' + ffmt.fort_a(d['type'], 5) + ' ' * 5 + ffmt.fort_a(d['dual'], 5))
                    out.append(ffmt.fort_i(d['num_continua'], 3) + ffmt.fort_i(len(d['vol']), 3) + ffmt.fort_a(d['where'], 4) +
                               ''.join(wreals(d['spacing'], 10, 8, style)[0]))
                    out += wreals(d['vol'], 10, 8, style)[0]
            out.append('')
        elif kw == 'GENER':
            out.append('GENER')
            for g in m['generators']:
                out.append(wrec(g, lay['gener'], style)[0])
                lt = g.get('ltab')
                if lt and g['type'] != 'DELV' and abs(lt) > 1:
                    for key in ('time', 'rate') + (('enthalpy',) if g['enthalpy'] else ()):
                        out += wreals(g[key], tw, 4, style)[0]
            out.append('')
        elif kw == 'SHORT':
            sh = m['short']
            out.append('SHORT' + (ffmt.fort_i(sh['frequency'], 2) if sh.get('frequency') else ''))
            for key, head in (('block', 'ELEME'), ('connection', 'CONNE'), ('generator', 'GENER')):
                if key in sh:
                    out.append(head)
                    for it in sh[key]: out.append(it if key == 'block' else it[0] + it[1])
            out.append('')
        elif kw in ('FOFT', 'GOFT'):
            out.append(kw); out += list(m[kw.lower()]); out.append('')
        elif kw == 'COFT':
            out.append('COFT'); out += [a + b for a, b in m['coft']]; out.append('')
        elif kw == 'INCON':
            out.append('INCON')
            for r in m['incon']:
                out.append(wrec(r, L['incon1'], style)[0])
                out += wreals(r['vars'], 20, 4, style, 13)[0] or ['']
            out.append('')
        elif kw == 'INDOM':
            out.append('INDOM')
            for r in m['indom']:
                out.append(r['rock'])
                out += wreals(r['vars'], 20, 4, style, 13)[0] or ['']
            out.append('')
    if not xp: out.append(m.get('end') or 'ENDCY')
    with open(path, 'w') as fh:
        fh.write('\n'.join(out) + '\n')
