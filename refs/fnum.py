"""Independent reference for reading numbers the way a Fortran formatted READ
does (BN blank handling), used as oracle for C16 and by the reference file
readers.  Shares no code with fixed_format_file.py."""
import re, math

_REAL = re.compile(r'^([+-]?)(\d+\.?\d*|\.\d+)(?:[eEdD]([+-]?\d+)|([+-]\d+))?$')
_INT = re.compile(r'^[+-]?\d+$')

# characters that can occur in something the readers may legitimately turn
# into a number: Fortran numerals, plus what Python's float() accepts
NUMERIC_ALPHABET = set('0123456789+-.eEdD _') | set('infatyINFATY')


class NotNumber(Exception):
    pass


def classify_real(s):
    """Returns one of
       ('python', v)   float(s) accepts the text as it stands
       ('blank',)      only blanks
       ('nan',)        contains a character that cannot occur in a number
       ('fortran', v)  blank-stripped text is a Fortran real; v is its value
       ('other',)      anything else: only "returns a float, does not raise"
    """
    try:
        return ('python', float(s))
    except ValueError:
        pass
    if s.strip(' ') == '':
        return ('blank',)
    if any((c not in NUMERIC_ALPHABET) and not c.isspace() for c in s):
        return ('nan',)
    if any(c.isspace() and c != ' ' for c in s):
        return ('other',)
    t = s.replace(' ', '')
    m = _REAL.match(t)
    if bool(m) != dfa_real(t):
        raise AssertionError('reference recognisers disagree on %r' % t)
    if m:
        sign, mant, e1, e2 = m.groups()
        ex = e1 if e1 is not None else (e2 if e2 is not None else '0')
        return ('fortran', float('%s%se%s' % (sign, mant, ex)))
    return ('other',)


def classify_int(s):
    try:
        return ('python', int(s))
    except ValueError:
        pass
    if s.strip(' ') == '':
        return ('blank',)
    if any((c not in NUMERIC_ALPHABET) and not c.isspace() for c in s):
        return ('none',)
    if any(c.isspace() and c != ' ' for c in s):
        return ('other',)
    t = s.replace(' ', '')
    if _INT.match(t):
        return ('fortran', int(t))
    return ('other',)


def read_real(s, blank=None):
    """Reference reader for file oracles: value, `blank` for blank, NotNumber otherwise."""
    k = classify_real(s)
    if k[0] in ('python', 'fortran'): return k[1]
    if k[0] == 'blank': return blank
    raise NotNumber(s)


def read_int(s, blank=None):
    k = classify_int(s)
    if k[0] in ('python', 'fortran'): return k[1]
    if k[0] == 'blank': return blank
    raise NotNumber(s)


def same_float(a, b):
    if isinstance(a, float) and isinstance(b, float):
        if math.isnan(a) or math.isnan(b): return math.isnan(a) and math.isnan(b)
        return a == b and math.copysign(1, a) == math.copysign(1, b)
    return False


def dfa_real(t):
    """Hand-written recogniser for the same grammar as _REAL (blank-free text);
    written as explicit branches so a coverage-guided fuzzer gets a gradient
    towards Fortran numerals.  Returns True/False."""
    i, n = 0, len(t)
    if i < n and (t[i] == '+' or t[i] == '-'):
        i += 1
    nd = 0
    while i < n and '0' <= t[i] <= '9':
        i += 1; nd += 1
    if i < n and t[i] == '.':
        i += 1
        nf = 0
        while i < n and '0' <= t[i] <= '9':
            i += 1; nf += 1
        if nd == 0 and nf == 0:
            return False
    elif nd == 0:
        return False
    if i == n:
        return True
    c = t[i]
    if c == 'e' or c == 'E' or c == 'd' or c == 'D':
        i += 1
        if i < n and (t[i] == '+' or t[i] == '-'):
            i += 1
    elif c == '+' or c == '-':
        i += 1
    else:
        return False
    ne = 0
    while i < n and '0' <= t[i] <= '9':
        i += 1; ne += 1
    if ne == 0:
        return False
    return i == n
