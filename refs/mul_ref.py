"""Independent reader/writer for MULgraph geometry files ('GENER' type) with its own copy of the
column layout, taken from doc/source/mulformat.rst and cross-checked against the seven shipped
geometry files (the doc's column numbers for the GRID sub-header are off by one against every
shipped file - 'aaa1 4 580739.801848228.18' - so the layout evidenced by the files is used:
name 1-3, centre flag 4, number of vertices 5-6, centre x 7-16, centre y 17-26).
Values are returned exactly as printed in the file (file units, no feet conversion)."""
from refs import ffmt

HEADER = [('type', 0, 5, 's'), ('convention', 5, 6, 'i'), ('atmosphere_type', 6, 7, 'i'),
          ('atmosphere_volume', 7, 17, 'r'), ('atmosphere_connection', 17, 27, 'r'), ('unit', 27, 32, 's'),
          ('gdcx', 32, 42, 'r'), ('gdcy', 42, 52, 'r'), ('cntype', 52, 53, 'i'),
          ('permeability_angle', 53, 63, 'r'), ('block_order', 63, 65, 'i')]


def _get(line, a, b, t):
    if t == 's': return ffmt.cols(line, a, b)
    if t == 'i': return ffmt.integer(line, a, b)
    return ffmt.real(line, a, b)


def read(path):
    with open(path, newline=None) as fh:
        lines = fh.read().split('\n')
    out = {'header': {}, 'nodes': [], 'columns': [], 'connections': [], 'layers': [], 'surface': [], 'wells': [],
           'sections': []}
    for name, a, b, t in HEADER:
        out['header'][name] = _get(lines[0], a, b, t)
    i = 1
    while i < len(lines):
        kw = lines[i].strip()[:5].rstrip()
        if kw == '': break
        out['sections'].append(kw)
        i += 1
        while i < len(lines) and lines[i].strip() != '':
            ln = lines[i]
            if kw == 'VERTI':
                out['nodes'].append([ffmt.cols(ln, 0, 3), ffmt.real(ln, 3, 13), ffmt.real(ln, 13, 23)])
            elif kw == 'GRID':
                col = {'name': ffmt.cols(ln, 0, 3), 'centre_specified': ffmt.integer(ln, 3, 4),
                       'num_nodes': ffmt.integer(ln, 4, 6), 'cx': ffmt.real(ln, 6, 16), 'cy': ffmt.real(ln, 16, 26),
                       'nodes': []}
                for _ in range(col['num_nodes']):
                    i += 1
                    col['nodes'].append(ffmt.cols(lines[i], 0, 3))
                out['columns'].append(col)
            elif kw == 'CONNE':
                out['connections'].append([ffmt.cols(ln, 0, 3), ffmt.cols(ln, 3, 6)])
            elif kw == 'LAYER':
                out['layers'].append([ffmt.cols(ln, 0, 3), ffmt.real(ln, 3, 13), ffmt.real(ln, 13, 23)])
            elif kw in ('SURFA', 'SURF'):
                out['surface'].append([ffmt.cols(ln, 0, 3), ffmt.real(ln, 3, 13)])
            elif kw == 'WELLS':
                out['wells'].append([ffmt.cols(ln, 0, 5), ffmt.real(ln, 5, 15), ffmt.real(ln, 15, 25),
                                     ffmt.real(ln, 25, 35)])
            else:
                raise ValueError('unknown section %r' % kw)
            i += 1
        i += 1
    return out


def write(path, m):
    """m: dict(header, nodes[[name,x,y]], columns[{name, centre_specified, centre, nodes}], connections, layers
    [{name,bottom,centre}], surface [[name,z]], wells [{name,pos}]) in FILE units.  Fortran-style F10.2 fields.
    Names are written right-justified in their 3 columns, as the format documentation recommends."""
    h = m['header']
    def F(v, w=10, d=2): return ffmt.fort_f(v, w, d)[0]
    def E(v):
        return ' ' * 10 if v is None else ('%10.2E' % v)
    L = ['GENER' + ffmt.fort_i(h['convention'], 1) + ffmt.fort_i(h['atmosphere_type'], 1) +
         E(h.get('atmosphere_volume')) + E(h.get('atmosphere_connection')) + ffmt.fort_a(h.get('unit', ''), 5) +
         F(h.get('gdcx')) + F(h.get('gdcy')) + ' ' + F(h.get('permeability_angle')) +
         ffmt.fort_i(h.get('block_order'), 2)]
    L.append('VERTICES')
    for n, x, y in m['nodes']: L.append(n.rjust(3) + F(x) + F(y))
    L.append('')
    L.append('GRID')
    for c in m['columns']:
        s = c['name'].rjust(3) + ffmt.fort_i(c['centre_specified'], 1) + ffmt.fort_i(len(c['nodes']), 2)
        if c['centre_specified']: s += F(c['centre'][0]) + F(c['centre'][1])
        L.append(s)
        for n in c['nodes']: L.append(n.rjust(3))
    L.append('')
    L.append('CONNECTIONS')
    for a, b in m['connections']: L.append(a.rjust(3) + b.rjust(3))
    L.append('')
    L.append('LAYERS')
    for l in m['layers']: L.append(l['name'].rjust(3) + F(l['bottom']) + F(l['centre']))
    L.append('')
    if m.get('surface'):
        L.append('SURFA')
        for n, z in m['surface']: L.append(n.rjust(3) + F(z))
        L.append('')
    if m.get('wells'):
        L.append('WELLS')
        for w in m['wells']:
            for p in w['pos']: L.append(ffmt.fort_a(w['name'], 5) + F(p[0], 10, 1) + F(p[1], 10, 1) + F(p[2], 10, 1))
        L.append('')
    L.append('')
    with open(path, 'w') as fh:
        fh.write('\n'.join(L))
