"""Independent IAPWS-IF97 reference (regions 1, 2, 3, saturation line, B23 boundary) and the
IAPWS 2008 viscosity correlation without critical enhancement.

Independence from /repo/IAPWS97.py:
  * the coefficient tables below are this module's own copy, laid out as in the published
    release (one row per term: I, J, n), not as three parallel arrays;
  * every power is evaluated directly with ``**`` (no multiplication chains, no shared code),
    every sum with math.fsum;
  * the dimensionless potentials (gamma, phi) and ALL their first and second derivatives are
    formed, so the published verification tables can be checked for v, h, u, s, cp and w -
    entropy needs the potential itself and cp/w the second derivatives, none of which the
    library evaluates.  selftest() compares with IF97 Tables 5, 15, 33, 35, 36, the B23 test
    values and the viscosity release's Table 4, and raises HarnessError on any disagreement
    (the runner turns that into exit 2, never into a VIOLATION).

Units: T in kelvin, p in Pa, rho in kg/m3, energies in J/kg, s and cp in J/(kg K), w in m/s.
"""
import math
from vlib.core import HarnessError

R = 461.526            # J/(kg K)
TC = 647.096           # K
PC = 22.064e6          # Pa
RHOC = 322.0           # kg/m3
T0 = 273.15

# ---------------------------------------------------------------------------------------------
# Region 1 (IF97 Table 2): I, J, n
_R1 = (
    (0, -2, 0.14632971213167e0), (0, -1, -0.84548187169114e0), (0, 0, -0.37563603672040e1),
    (0, 1, 0.33855169168385e1), (0, 2, -0.95791963387872e0), (0, 3, 0.15772038513228e0),
    (0, 4, -0.16616417199501e-1), (0, 5, 0.81214629983568e-3),
    (1, -9, 0.28319080123804e-3), (1, -7, -0.60706301565874e-3), (1, -1, -0.18990068218419e-1),
    (1, 0, -0.32529748770505e-1), (1, 1, -0.21841717175414e-1), (1, 3, -0.52838357969930e-4),
    (2, -3, -0.47184321073267e-3), (2, 0, -0.30001780793026e-3), (2, 1, 0.47661393906987e-4),
    (2, 3, -0.44141845330846e-5), (2, 17, -0.72694996297594e-15),
    (3, -4, -0.31679644845054e-4), (3, 0, -0.28270797985312e-5), (3, 6, -0.85205128120103e-9),
    (4, -5, -0.22425281908000e-5), (4, -2, -0.65171222895601e-6), (4, 10, -0.14341729937924e-12),
    (5, -8, -0.40516996860117e-6),
    (8, -11, -0.12734301741641e-8), (8, -6, -0.17424871230634e-9),
    (21, -29, -0.68762131295531e-18), (23, -31, 0.14478307828521e-19),
    (29, -38, 0.26335781662795e-22), (30, -39, -0.11947622640071e-22),
    (31, -40, 0.18228094581404e-23), (32, -41, -0.93537087292458e-25),
)
P1STAR, T1STAR = 16.53e6, 1386.0

# Region 2 ideal-gas part (IF97 Table 10): J0, n0
_R2_0 = (
    (0, -0.96927686500217e1), (1, 0.10086655968018e2), (-5, -0.56087911283020e-2),
    (-4, 0.71452738081455e-1), (-3, -0.40710498223928e0), (-2, 0.14240819171444e1),
    (-1, -0.43839511319450e1), (2, -0.28408632460772e0), (3, 0.21268463753307e-1),
)
# Region 2 residual part (IF97 Table 11): I, J, n
_R2_R = (
    (1, 0, -0.17731742473213e-2), (1, 1, -0.17834862292358e-1), (1, 2, -0.45996013696365e-1),
    (1, 3, -0.57581259083432e-1), (1, 6, -0.50325278727930e-1),
    (2, 1, -0.33032641670203e-4), (2, 2, -0.18948987516315e-3), (2, 4, -0.39392777243355e-2),
    (2, 7, -0.43797295650573e-1), (2, 36, -0.26674547914087e-4),
    (3, 0, 0.20481737692309e-7), (3, 1, 0.43870667284435e-6), (3, 3, -0.32277677238570e-4),
    (3, 6, -0.15033924542148e-2), (3, 35, -0.40668253562649e-1),
    (4, 1, -0.78847309559367e-9), (4, 2, 0.12790717852285e-7), (4, 3, 0.48225372718507e-6),
    (5, 7, 0.22922076337661e-5),
    (6, 3, -0.16714766451061e-10), (6, 16, -0.21171472321355e-2), (6, 35, -0.23895741934104e2),
    (7, 0, -0.59059564324270e-17), (7, 11, -0.12621808899101e-5), (7, 25, -0.38946842435739e-1),
    (8, 8, 0.11256211360459e-10), (8, 36, -0.82311340897998e1),
    (9, 13, 0.19809712802088e-7),
    (10, 4, 0.10406965210174e-18), (10, 10, -0.10234747095929e-12), (10, 14, -0.10018179379511e-8),
    (16, 29, -0.80882908646985e-10), (16, 50, 0.10693031879409e0),
    (18, 57, -0.33662250574171e0),
    (20, 20, 0.89185845355421e-24), (20, 35, 0.30629316876232e-12), (20, 48, -0.42002467698208e-5),
    (21, 21, -0.59056029685639e-25),
    (22, 53, 0.37826947613457e-5),
    (23, 39, -0.12768608934681e-14),
    (24, 26, 0.73087610595061e-28), (24, 40, 0.55414715350778e-16), (24, 58, -0.94369707241210e-6),
)
P2STAR, T2STAR = 1.0e6, 540.0

# Region 3 (IF97 Table 30): first coefficient multiplies ln(delta); then I, J, n
_R3_LN = 0.10658070028513e1
_R3 = (
    (0, 0, -0.15732845290239e2), (0, 1, 0.20944396974307e2), (0, 2, -0.76867707878716e1),
    (0, 7, 0.26185947787954e1), (0, 10, -0.28080781148620e1), (0, 12, 0.12053369696517e1),
    (0, 23, -0.84566812812502e-2),
    (1, 2, -0.12654315477714e1), (1, 6, -0.11524407806681e1), (1, 15, 0.88521043984318e0),
    (1, 17, -0.64207765181607e0),
    (2, 0, 0.38493460186671e0), (2, 2, -0.85214708824206e0), (2, 6, 0.48972281541877e1),
    (2, 7, -0.30502617256965e1), (2, 22, 0.39420536879154e-1), (2, 26, 0.12558408424308e0),
    (3, 0, -0.27999329698710e0), (3, 2, 0.13899799569460e1), (3, 4, -0.20189915023570e1),
    (3, 16, -0.82147637173963e-2), (3, 26, -0.47596035734923e0),
    (4, 0, 0.43984074473500e-1), (4, 2, -0.44476435428739e0), (4, 4, 0.90572070719733e0),
    (4, 26, 0.70522450087967e0),
    (5, 1, 0.10770512626332e0), (5, 3, -0.32913623258954e0), (5, 26, -0.50871062041158e0),
    (6, 0, -0.22175400873096e-1), (6, 2, 0.94260751665092e-1), (6, 26, 0.16436278447961e0),
    (7, 2, -0.13503372241348e-1),
    (8, 26, -0.14834345352472e-1),
    (9, 2, 0.57922953628084e-3), (9, 26, 0.32308904703711e-2),
    (10, 0, 0.80964802996215e-4), (10, 1, -0.16557679795037e-3),
    (11, 26, -0.44923899061815e-4),
)

# Region 4 (IF97 Table 34)
_N4 = (None, 0.11670521452767e4, -0.72421316703206e6, -0.17073846940092e2, 0.12020824702470e5,
       -0.32325550322333e7, 0.14915108613530e2, -0.48232657361591e4, 0.40511340542057e6,
       -0.23855557567849e0, 0.65017534844798e3)

# B23 (IF97 Table 1)
_N23 = (None, 0.34805185628969e3, -0.11671859879975e1, 0.10192970039326e-2, 0.57254459862746e3,
        0.13918839778870e2)

# Viscosity 2008: H_i (Table 1) and H_ij (Table 2) as a matrix [i][j], i = 0..5, j = 0..6
_VH0 = (1.67752, 2.20462, 0.6366564, -0.241605)
_VH1 = (
    (5.20094e-1, 2.22531e-1, -2.81378e-1, 1.61913e-1, -3.25372e-2, 0.0, 0.0),
    (8.50895e-2, 9.99115e-1, -9.06851e-1, 2.57399e-1, 0.0, 0.0, 0.0),
    (-1.08374, 1.88797, -7.72479e-1, 0.0, 0.0, 0.0, 0.0),
    (-2.89555e-1, 1.26613, -4.89837e-1, 0.0, 6.98452e-2, 0.0, -4.35673e-3),
    (0.0, 0.0, -2.57040e-1, 0.0, 0.0, 8.72102e-3, 0.0),
    (0.0, 1.20573e-1, 0.0, 0.0, 0.0, 0.0, -5.93264e-4),
)

_fsum = math.fsum


# ---------------------------------------------------------------------------------------------
def _props_g(T, p, pstar, g, gp, gt, gpp, gtt, gpt, pi, tau):
    """v, h, u, s, cp, w from a dimensionless Gibbs potential gamma(pi, tau)."""
    RT = R * T
    v = RT * pi * gp / p
    h = RT * tau * gt
    u = RT * (tau * gt - pi * gp)
    s = R * (tau * gt - g)
    cp = -R * tau * tau * gtt
    den = (gp - tau * gpt) ** 2 / (tau * tau * gtt) - gpp
    w2 = RT * gp * gp / den
    return {'v': v, 'h': h, 'u': u, 's': s, 'cp': cp, 'w': math.sqrt(w2) if w2 > 0 else float('nan'),
            'rho': 1.0 / v}


def r1(T, p):
    """Region 1 (liquid) at T [K], p [Pa]."""
    pi, tau = p / P1STAR, T1STAR / T
    a, b = 7.1 - pi, tau - 1.222
    g = _fsum(n * a ** I * b ** J for I, J, n in _R1)
    gp = _fsum(-n * I * a ** (I - 1) * b ** J for I, J, n in _R1)
    gpp = _fsum(n * I * (I - 1) * a ** (I - 2) * b ** J for I, J, n in _R1)
    gt = _fsum(n * a ** I * J * b ** (J - 1) for I, J, n in _R1)
    gtt = _fsum(n * a ** I * J * (J - 1) * b ** (J - 2) for I, J, n in _R1)
    gpt = _fsum(-n * I * a ** (I - 1) * J * b ** (J - 1) for I, J, n in _R1)
    return _props_g(T, p, P1STAR, g, gp, gt, gpp, gtt, gpt, pi, tau)


def r2(T, p):
    """Region 2 (steam) at T [K], p [Pa]."""
    pi, tau = p / P2STAR, T2STAR / T
    b = tau - 0.5
    g0 = math.log(pi) + _fsum(n * tau ** J for J, n in _R2_0)
    g0t = _fsum(n * J * tau ** (J - 1) for J, n in _R2_0)
    g0tt = _fsum(n * J * (J - 1) * tau ** (J - 2) for J, n in _R2_0)
    gr = _fsum(n * pi ** I * b ** J for I, J, n in _R2_R)
    grp = _fsum(n * I * pi ** (I - 1) * b ** J for I, J, n in _R2_R)
    grpp = _fsum(n * I * (I - 1) * pi ** (I - 2) * b ** J for I, J, n in _R2_R)
    grt = _fsum(n * pi ** I * J * b ** (J - 1) for I, J, n in _R2_R)
    grtt = _fsum(n * pi ** I * J * (J - 1) * b ** (J - 2) for I, J, n in _R2_R)
    grpt = _fsum(n * I * pi ** (I - 1) * J * b ** (J - 1) for I, J, n in _R2_R)
    return _props_g(T, p, P2STAR, g0 + gr, 1.0 / pi + grp, g0t + grt, -1.0 / (pi * pi) + grpp,
                    g0tt + grtt, grpt, pi, tau)


def r3(rho, T):
    """Region 3 (Helmholtz) at rho [kg/m3], T [K]."""
    d, tau = rho / RHOC, TC / T
    f = _R3_LN * math.log(d) + _fsum(n * d ** I * tau ** J for I, J, n in _R3)
    fd = _R3_LN / d + _fsum(n * I * d ** (I - 1) * tau ** J for I, J, n in _R3)
    fdd = -_R3_LN / (d * d) + _fsum(n * I * (I - 1) * d ** (I - 2) * tau ** J for I, J, n in _R3)
    ft = _fsum(n * d ** I * J * tau ** (J - 1) for I, J, n in _R3)
    ftt = _fsum(n * d ** I * J * (J - 1) * tau ** (J - 2) for I, J, n in _R3)
    fdt = _fsum(n * I * d ** (I - 1) * J * tau ** (J - 1) for I, J, n in _R3)
    RT = R * T
    p = rho * RT * d * fd
    u = RT * tau * ft
    h = RT * (tau * ft + d * fd)
    s = R * (tau * ft - f)
    cv = -R * tau * tau * ftt
    cp = R * (-tau * tau * ftt + (d * fd - d * tau * fdt) ** 2 / (2 * d * fd + d * d * fdd))
    w2 = RT * (2 * d * fd + d * d * fdd - (d * fd - d * tau * fdt) ** 2 / (tau * tau * ftt))
    dpdrho = RT * (2 * d * fd + d * d * fdd)
    return {'p': p, 'u': u, 'h': h, 's': s, 'cv': cv, 'cp': cp,
            'w': math.sqrt(w2) if w2 > 0 else float('nan'), 'dpdrho': dpdrho, 'v': 1.0 / rho, 'rho': rho}


def p3(rho, T):
    d, tau = rho / RHOC, TC / T
    fd = _R3_LN / d + _fsum(n * I * d ** (I - 1) * tau ** J for I, J, n in _R3)
    return rho * R * T * d * fd


def psat(T):
    """Saturation pressure [Pa] at T [K] (IF97 eq. 30), 273.15 <= T <= 647.096."""
    n = _N4
    th = T + n[9] / (T - n[10])
    A = th ** 2 + n[1] * th + n[2]
    B = n[3] * th ** 2 + n[4] * th + n[5]
    C = n[6] * th ** 2 + n[7] * th + n[8]
    return 1.0e6 * (2.0 * C / (-B + math.sqrt(B ** 2 - 4.0 * A * C))) ** 4


def singular_saturation_states():
    """(T0 [K], p0 [Pa]): where the leading coefficients of the two saturation quadratics vanish inside the range
    (A(theta(T0)) = 0 near 175.17 degC; E(beta(p0)) = 0 near 0.726 MPa)."""
    n = _N4
    th0 = 0.5 * (-n[1] + math.sqrt(n[1] ** 2 - 4.0 * n[2]))
    T0 = 0.5 * ((th0 + n[10]) - math.sqrt((th0 + n[10]) ** 2 - 4.0 * (th0 * n[10] + n[9])))
    be0 = 0.5 * (-n[3] - math.sqrt(n[3] ** 2 - 4.0 * n[6]))
    return T0, 1.0e6 * be0 ** 4


def tsat(p):
    """Saturation temperature [K] at p [Pa] (IF97 eq. 31)."""
    n = _N4
    be = (p / 1.0e6) ** 0.25
    E = be ** 2 + n[3] * be + n[6]
    F = n[1] * be ** 2 + n[4] * be + n[7]
    G = n[2] * be ** 2 + n[5] * be + n[8]
    D = 2.0 * G / (-F - math.sqrt(F ** 2 - 4.0 * E * G))
    return 0.5 * (n[10] + D - math.sqrt((n[10] + D) ** 2 - 4.0 * (n[9] + n[10] * D)))


def b23p(T):
    n = _N23
    return 1.0e6 * (n[1] + n[2] * T + n[3] * T ** 2)


def b23t(p):
    n = _N23
    return n[4] + math.sqrt((p / 1.0e6 - n[5]) / n[3])


def visc(rho, T):
    """Dynamic viscosity [Pa s], IAPWS 2008 without the critical enhancement (mu2 = 1)."""
    Tb, rb = T / TC, rho / RHOC
    mu0 = 100.0 * math.sqrt(Tb) / _fsum(h / Tb ** i for i, h in enumerate(_VH0))
    x, y = 1.0 / Tb - 1.0, rb - 1.0
    s = _fsum(x ** i * _VH1[i][j] * y ** j for i in range(6) for j in range(7) if _VH1[i][j] != 0.0)
    return 1.0e-6 * mu0 * math.exp(rb * s)


# ---------------------------------------------------------------------------------------------
# IF97 region definition (section 3 of the release; T in K, p in Pa)
T13 = 623.15            # region 1 / 3 boundary
T23MAX = 863.15         # upper end of the B23 curve
TMAX = 1073.15
PMAX = 100.0e6


def region(T, p, rtol=1e-9):
    """Set of acceptable region numbers at (T, p): one element away from the boundaries,
    two when the state is within rtol (relative, in p or in T) of a boundary.  Empty set =
    outside 273.16 K..1073.15 K / 0 < p <= 100 MPa."""
    if not (T0 + 0.01 <= T <= TMAX and 0.0 < p <= PMAX):
        return set()
    out = set()

    def side(T, tol):
        if T <= T13:
            ps = psat(T)
            if abs(p - ps) <= tol * ps: return {1, 2}
            return {1} if p > ps else {2}
        if T <= T23MAX:
            pb = b23p(T)
            if abs(p - pb) <= tol * pb: return {2, 3}
            return {3} if p > pb else {2}
        return {2}
    out |= side(T, rtol)
    for Tb in (T13, T23MAX):
        if abs(T - Tb) <= rtol * Tb:
            # either side of the isotherm; the boundary curves move by up to 2e-8 (relative, in p)
            # over that temperature shift, so the pressure tolerance is widened accordingly
            out |= side(Tb * (1 - 2 * rtol), 50 * rtol) | side(Tb * (1 + 2 * rtol), 50 * rtol)
    return out


def _bisect(fun, lo, hi, flo, fhi, n=200):
    for _ in range(n):
        mid = 0.5 * (lo + hi)
        if mid == lo or mid == hi: break
        fm = fun(mid)
        if (fm > 0) == (fhi > 0): hi, fhi = mid, fm
        else: lo, flo = mid, fm
    return 0.5 * (lo + hi)


# region-3 density solver (brackets by the spinodals, so it also works close to the critical
# point, where the three roots of p3(rho, T) = p are closer than any fixed scan step)
def dpdrho3(rho, T):
    d, tau = rho / RHOC, TC / T
    fd = _R3_LN / d + _fsum(n * I * d ** (I - 1) * tau ** J for I, J, n in _R3)
    fdd = -_R3_LN / (d * d) + _fsum(n * I * (I - 1) * d ** (I - 2) * tau ** J for I, J, n in _R3)
    return R * T * (2 * d * fd + d * d * fdd)


_RLO, _RHI = 60.0, 800.0
_spin_cache = {}


def spinodals3(T):
    """(rho_spinodal_vapour, rho_spinodal_liquid) of the region-3 equation at T, or None when
    p3(., T) is increasing on the whole of 60..800 kg/m3 (T above the equation's own critical
    temperature)."""
    if T in _spin_cache: return _spin_cache[T]
    out = None
    if T < TC + 0.5:
        # minimum of dp/drho: coarse scan 200..450, then two refinements
        a, b = 200.0, 450.0
        for _ in range(4):
            xs = [a + (b - a) * k / 40 for k in range(41)]
            ys = [dpdrho3(x, T) for x in xs]
            k = min(range(41), key=lambda i: ys[i])
            a, b = xs[max(k - 1, 0)], xs[min(k + 1, 40)]
        xm = 0.5 * (a + b)
        if dpdrho3(xm, T) < 0.0:
            g = lambda x: dpdrho3(x, T)
            sv = _bisect(lambda x: -g(x), _RLO, xm, -g(_RLO), -g(xm))
            sl = _bisect(g, xm, _RHI, g(xm), g(_RHI))
            out = (sv, sl)
    if len(_spin_cache) > 20000: _spin_cache.clear()
    _spin_cache[T] = out
    return out


def rho3(T, p, branch=None):
    """Density [kg/m3] of the region-3 state at (T, p) on the requested branch: 'v' = the root
    below the vapour spinodal, 'l' = the root above the liquid spinodal; default below Tc:
    'l' if p >= psat(T) else 'v'; at or above Tc the equation is monotone (one root).  None if that branch has no root in 60..800 kg/m3."""
    sp = spinodals3(T)
    if branch is None:
        if T < TC: branch = 'l' if p >= psat(T) else 'v'
        elif sp is not None: branch = 'v' if p <= p3(sp[0], T) else 'l'   # residual loop of the equation at Tc
    f = lambda x: p3(x, T) - p
    if sp is None: lo, hi = _RLO, _RHI
    elif branch == 'v': lo, hi = _RLO, sp[0]
    else: lo, hi = sp[1], _RHI
    flo, fhi = f(lo), f(hi)
    if flo == 0.0: return lo
    if fhi == 0.0: return hi
    if (flo > 0) == (fhi > 0): return None
    return _bisect(f, lo, hi, flo, fhi)


def sat_rho3(T):
    """(rho_vapour, rho_liquid) of region 3 at p = psat(T), 623.15 K <= T < Tc."""
    ps = psat(T)
    return rho3(T, ps, 'v'), rho3(T, ps, 'l')


# ---------------------------------------------------------------------------------------------
# Published verification values (units of the tables: MPa, K, m3/kg, kJ/kg, kJ/(kg K), m/s)
_T5 = (   # region 1: T, p | v, h, u, s, cp, w
    (300.0, 3.0, 0.100215168e-2, 0.115331273e3, 0.112324818e3, 0.392294792e0, 0.417301218e1, 0.150773921e4),
    (300.0, 80.0, 0.971180894e-3, 0.184142828e3, 0.106448356e3, 0.368563852e0, 0.401008987e1, 0.163469054e4),
    (500.0, 3.0, 0.120241800e-2, 0.975542239e3, 0.971934985e3, 0.258041912e1, 0.465580682e1, 0.124071337e4),
)
_T15 = (  # region 2
    (300.0, 0.0035, 0.394913866e2, 0.254991145e4, 0.241169160e4, 0.852238967e1, 0.191300162e1, 0.427920172e3),
    (700.0, 0.0035, 0.923015898e2, 0.333568375e4, 0.301262819e4, 0.101749996e2, 0.208141274e1, 0.644289068e3),
    (700.0, 30.0, 0.542946619e-2, 0.263149474e4, 0.246861076e4, 0.517540298e1, 0.103505092e2, 0.480386523e3),
)
_T33 = (  # region 3: T, rho | p, h, u, s, cp, w
    (650.0, 500.0, 0.255837018e2, 0.186343019e4, 0.181226279e4, 0.405427273e1, 0.138935717e2, 0.502005554e3),
    (650.0, 200.0, 0.222930643e2, 0.237512401e4, 0.226365868e4, 0.485438792e1, 0.446579342e2, 0.383444594e3),
    (750.0, 500.0, 0.783095639e2, 0.225868845e4, 0.210206932e4, 0.446971906e1, 0.634165359e1, 0.760696041e3),
)
_T35 = ((300.0, 0.353658941e-2), (500.0, 0.263889776e1), (600.0, 0.123443146e2))
_T36 = ((0.1, 0.372755919e3), (1.0, 0.453035632e3), (10.0, 0.584149488e3))
_B23 = (623.15, 0.165291643e2)
_VISC = (  # T [K], rho | mu [1e-6 Pa s]  (IAPWS 2008 release, Table 4)
    (298.15, 998.0, 889.735100), (298.15, 1200.0, 1437.649467), (373.15, 1000.0, 307.883622),
    (433.15, 1.0, 14.538324), (433.15, 1000.0, 217.685358), (873.15, 1.0, 32.619287),
    (873.15, 100.0, 35.802262), (873.15, 600.0, 77.430195), (1173.15, 1.0, 44.217245),
    (1173.15, 100.0, 47.640433), (1173.15, 400.0, 64.154608),
)

# the published states in the library's units (t degC, p Pa / rho, t degC): "trivial" cases
PUBLISHED_TP = {(round(T - T0, 9), round(p * 1e6, 6)) for T, p, *_ in _T5 + _T15}
PUBLISHED_RT = {(round(rho, 9), round(T - T0, 9)) for T, rho, *_ in _T33}
PUBLISHED_SAT_T = {round(T - T0, 9) for T, _ in _T35}
PUBLISHED_SAT_P = {round(p * 1e6, 6) for p, _ in _T36}


def _agree(x, ref, digits=9):
    """x reproduces a value printed with `digits` significant digits (half a unit in the last
    printed place, plus one more unit for values the tables themselves rounded from a slightly
    different arithmetic)."""
    if ref == 0: return abs(x) < 1e-12
    e = math.floor(math.log10(abs(ref)))
    return abs(x - ref) <= 1.0 * 10.0 ** (e - digits + 1)


_selftest_done = False


def selftest():
    """Raise HarnessError unless every published verification value is reproduced."""
    global _selftest_done
    if _selftest_done: return
    bad = []

    def chk(name, x, ref, digits=9):
        if not _agree(x, ref, digits): bad.append('%s: got %.12g, published %.9g' % (name, x, ref))
    for T, p, v, h, u, s, cp, w in _T5:
        o = r1(T, p * 1e6)
        for k, ref, sc in (('v', v, 1.0), ('h', h, 1e3), ('u', u, 1e3), ('s', s, 1e3), ('cp', cp, 1e3), ('w', w, 1.0)):
            chk('r1(%g K,%g MPa).%s' % (T, p, k), o[k] / sc, ref)
    for T, p, v, h, u, s, cp, w in _T15:
        o = r2(T, p * 1e6)
        for k, ref, sc in (('v', v, 1.0), ('h', h, 1e3), ('u', u, 1e3), ('s', s, 1e3), ('cp', cp, 1e3), ('w', w, 1.0)):
            chk('r2(%g K,%g MPa).%s' % (T, p, k), o[k] / sc, ref)
    for T, rho, p, h, u, s, cp, w in _T33:
        o = r3(rho, T)
        for k, ref, sc in (('p', p, 1e6), ('h', h, 1e3), ('u', u, 1e3), ('s', s, 1e3), ('cp', cp, 1e3), ('w', w, 1.0)):
            chk('r3(%g,%g K).%s' % (rho, T, k), o[k] / sc, ref)
        chk('p3(%g,%g K)' % (rho, T), p3(rho, T) / 1e6, p)
        r = rho3(T, o['p'])
        if r is None or abs(r - rho) > 1e-7 * rho: bad.append('rho3(%g K, p3(%g)) = %r' % (T, rho, r))
    for T, p in _T35: chk('psat(%g K)' % T, psat(T) / 1e6, p)
    for p, T in _T36: chk('tsat(%g MPa)' % p, tsat(p * 1e6), T)
    chk('b23p(623.15 K)', b23p(_B23[0]) / 1e6, _B23[1])
    chk('b23t(16.5291643 MPa)', b23t(_B23[1] * 1e6), _B23[0])
    for T, rho, mu in _VISC:
        chk('visc(%g K,%g)' % (T, rho), visc(rho, T) * 1e6, mu, digits=len(('%.6f' % mu).replace('.', '')))
    # internal consistency of the reference itself: h = u + p v, saturation inverse, B23 inverse,
    # region-3 pressure derivative against a difference quotient
    for T, p in ((300.0, 3e6), (500.0, 3e6), (620.0, 60e6)):
        o = r1(T, p)
        if abs(o['h'] - o['u'] - p * o['v']) > 1e-9 * abs(o['h']): bad.append('r1 h-u-pv at %g,%g' % (T, p))
    for T in (273.16, 300.0, 500.0, 640.0, TC):
        if abs(tsat(psat(T)) - T) > 1e-8: bad.append('tsat(psat(%g)) = %.12g' % (T, tsat(psat(T))))
    for T in (623.15, 700.0, 863.15):
        if abs(b23t(b23p(T)) - T) > 1e-8: bad.append('b23t(b23p(%g))' % T)
    for rho, T in ((500.0, 650.0), (200.0, 650.0), (600.0, 630.0)):
        hh = 1e-4 * rho
        fdq = (p3(rho + hh, T) - p3(rho - hh, T)) / (2 * hh)
        if abs(fdq - r3(rho, T)['dpdrho']) > 1e-5 * abs(fdq): bad.append('dpdrho at %g,%g' % (rho, T))
    if bad:
        raise HarnessError('if97_ref self-test failed (reference is wrong, not the library):\n  ' + '\n  '.join(bad))
    _selftest_done = True

