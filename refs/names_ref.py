"""Independent reference model for block / column / layer / node names (property C17).

Nothing here imports or copies code from the repository under test.

(a) The simulator's treatment of a five-character block name
-----------------------------------------------------------
TOUGH2 carries an element name through the edit descriptor ``(A3,I2)``: the
first three characters are text, the last two an integer.  On output an ``I2``
field holds the decimal digits of the integer *right-justified* and blank
padded, so the integer 1 is printed ``' 1'``, never ``'01'``:

    'AB 01' -> A3 'AB ', I2 1  -> 'AB  1'
    'AA101' -> A3 'AA1', I2 1  -> 'AA1 1'
    'AA123' -> A3 'AA1', I2 23 -> 'AA123'
    'AA100' -> A3 'AA1', I2 0  -> 'AA1 0'

``a3i2_print`` is defined only where the reading of the last two characters
is unambiguous: two digits, or a blank followed by a digit.  ``'1 '`` (1 under
BLANK='NULL', 10 under BLANK='ZERO') and ``'  '`` are ambiguous, a letter is
not an integer at all: for those the model returns ``None`` (no prediction).

The repair (``fix``) is what the documentation promises: the blank in the
fourth column is replaced by a zero when the third and fifth characters are
digits; names whose third character is not a digit, or whose fourth character
is not a blank, are never altered.  For the remaining class (third a digit,
fourth blank, fifth not a digit) the documentation makes no promise:
``repair_rule`` returns ``None`` there.

(b) Letter numbering
--------------------
With blanks allowed, names over an alphabet of k letters are the bijective
base-k numerals (1 -> first letter, k -> last letter, k+1 -> first,first ...),
so exactly k + k^2 + ... + k^L positive integers have a name of at most L
characters.  With blanks disallowed the first letter is the digit zero and the
name is the ordinary base-k numeral padded to L characters: integers
0 .. k^L - 1.  Numeric fields of L digits hold 0 .. 10^L - 1.
These give *capacities*; the checks never compare exact names against them.
"""

DIGITS = '0123456789'


def a3i2_class(name):
    """'int2' two digits, 'int1' blank+digit, 'ambiguous' (digit+blank, two blanks),
    'text' (anything containing a non-digit, non-blank character)."""
    if len(name) != 5:
        raise ValueError('block names have five characters: %r' % (name,))
    t, u = name[3], name[4]
    if t in DIGITS and u in DIGITS: return 'int2'
    if t == ' ' and u in DIGITS: return 'int1'
    if (t in DIGITS or t == ' ') and u == ' ': return 'ambiguous'
    return 'text'       # a character that is neither digit nor blank: not an integer


def a3i2_print(name):
    """The name as the simulator prints it, or None where the model makes no prediction
    (ambiguous or non-integer last two characters)."""
    cls = a3i2_class(name)
    if cls == 'int2':
        value = DIGITS.index(name[3]) * 10 + DIGITS.index(name[4])
        units = DIGITS[value % 10]
        tens = DIGITS[value // 10] if value >= 10 else ' '
        return name[0] + name[1] + name[2] + tens + units
    if cls == 'int1':
        return name
    return None


def repair_rule(name):
    """Documented result of repairing the blank-in-fourth-column quirk, or None where
    the documentation makes no promise."""
    if len(name) != 5:
        raise ValueError('block names have five characters: %r' % (name,))
    third_digit = name[2] in DIGITS
    if not third_digit: return name          # "only done if the third character is also a digit"
    if name[3] != ' ': return name           # nothing to pad
    if name[4] in DIGITS:
        return name[:3] + '0' + name[4]
    return None


def letters_capacity(nchars, length, spaces):
    """Largest integer that has a name of at most `length` characters."""
    if spaces:
        return sum(nchars ** k for k in range(1, length + 1))
    return nchars ** length - 1


def digits_capacity(length):
    return 10 ** length - 1


def ordered_unique(s):
    out = []
    for c in s:
        if c not in out: out.append(c)
    return ''.join(out)


def letter_index(name, chars, spaces):
    """The integer whose name (ignoring justification) is `name`, or None when `name`
    is not in the name space.  Only used to *choose* interesting sizes."""
    s = name.strip(' ') if spaces else name
    if not s or any(c not in chars for c in s): return None
    k = len(chars)
    v = 0
    for c in s:
        v = v * k + chars.index(c) + (1 if spaces else 0)
    return v


# layout of the conventions, from the documentation table (doc/source/mulformat.rst):
#   0: 3 characters column + 2 digits layer      1: 3 characters layer + 2 digits column
#   2: 2 characters layer + 3 digits column      3: 3 characters column + 2 characters layer
COLUMN_FIELD = {0: ('letters', 3), 1: ('digits', 2), 2: ('digits', 3), 3: ('letters', 3)}
LAYER_FIELD = {0: ('digits', 2), 1: ('letters', 3), 2: ('letters', 2), 3: ('letters', 2)}
COLUMN_SLICE = {0: (0, 3), 1: (3, 5), 2: (2, 5), 3: (0, 3)}
LAYER_SLICE = {0: (3, 5), 1: (0, 3), 2: (0, 2), 3: (3, 5)}


def field(conv, kind):
    return (LAYER_FIELD if kind == 'layer' else COLUMN_FIELD)[conv]


def capacity(conv, kind, nchars, spaces):
    typ, length = field(conv, kind)
    if typ == 'digits': return digits_capacity(length)
    return letters_capacity(nchars, length, spaces)
