"""Geometry recipes: small JSON descriptions from which a mulgrid is rebuilt deterministically
through the library's public API, plus an extractor that walks a mulgrid back into plain data.

recipe = {
  'base': {'kind': 'rect', 'dx': [...], 'dy': [...], 'dz': [...], 'origin': [x, y, z]}
        | {'kind': 'shipped', 'file': 'g3.dat', 'seed': i, 'ncols': n}   # n columns around column i (BFS)
        | {'kind': 'tiny', 'which': 0..2}                                 # hand-built mixed tri/quad/pentagon meshes
        | {'kind': 'hang', 'dx', 'dy', 'dz', 'origin', 'k': [[k00, k01..], ..]}  # rectangular cells, cell (row j, col i) cut into
                                          #   k x k sub-cells; coarser neighbours get the hanging nodes -> 5..16-sided columns
        | {'kind': 'ngon', 'corners': n, 'hang': [h0..], 'radii': [r0..], 'dz'}  # convex n-gon with h_i straight nodes on side i,
                                          #   surrounded by a ring of quadrilaterals
  'convention', 'atmos', 'justify', 'chars', 'spaces', 'block_order',
  'ops': [{'op': 'refine', 'cols': [...], 'bisect': False|True|'x'|'y'}, {'op': 'rotate', 'angle': a},
          {'op': 'translate', 'shift': [x, y, z]}, {'op': 'refine_layers', 'layers': [...], 'factor': k},
          {'op': 'delete', 'cols': [...]}, {'op': 'decompose'[, 'cols': [...]]}, {'op': 'split', 'col': i, 'node': j}, {'op': 'triangulate', 'col': i}],
          {'op': 'relayer', 'dz': [...], 'top': offset}   # copy_layers_from a layer structure starting `offset` above the present top
          a refine op may give {'region': {'shape': ..., 'seed': i, ...}} instead of 'cols' (see region_columns) and
          'edge_pick': [i, ...] choosing bisect_edge_columns among the columns of the transition region (transition_candidates)
  'surfaces': [[col, layer, frac], ...]   # column index (mod n), underground layer index (mod n), position in the layer:
                                          #   frac == 0 -> exactly on the layer's bottom boundary; 0<frac<1 inside; frac>=1 -> above
                                          #   the top of the model by (frac-1) layer thicknesses (layer forced to the top one)
  'sunk': [[col, depth]],                 # columns whose surface is `depth` below the bottom of the model (no blocks)
  'layer_centres': [[layer, frac]], 'zero_centre': layer,   # layer centres off the mid-point; geometry shifted so that one is exactly 0.0
  'centres': [[col, fx, fy]],             # specified column centres (offset from centroid, fraction of bounding box)
  'wells': [{'name': 'W   1', 'pts': [[fx, fy, fz], ...]}],
  'header': {'unit': ''|'FEET ', 'perm_angle': a, 'atmos_volume': v, 'atmos_connection': d}
  'det': True        # resolve column indices against ordered_columns() (by position) instead of columnlist order, which after
                     # a refine() depends on memory addresses
}
"""
import os, string
from hypothesis import strategies as st
from vlib import core

CHARS = {'lower': string.ascii_lowercase, 'upper': string.ascii_uppercase, 'xyz': 'xyz', 'abcde': 'abcde'}
SHIPPED = ['g1.dat', 'g2.dat', 'g3.dat', 'g4.dat', 'g5.dat', 'g6.dat', 'g7.dat']
MANY_SIDED = ('g1.dat', 'g3.dat')     # contain 5- and 6-sided columns
_shipped_cache = {}


def shipped_path(fn):
    return os.path.join(core.REPO, 'tests', 'mulgrid', fn)


def node_capacity(conv, nchars=26, spaces=True):
    if conv == 1: return 99
    if conv == 2: return 999
    if spaces: return nchars + nchars ** 2 + nchars ** 3
    return nchars ** 3


def layer_capacity(conv, nchars=26, spaces=True):
    if conv == 0: return 99
    n = 3 if conv == 1 else 2
    if spaces: return sum(nchars ** k for k in range(1, n + 1))
    return nchars ** n


def tiny(which):
    """Hand-built small mixed meshes (triangle + quadrilateral + pentagon sharing edges)."""
    import mulgrids, numpy as np
    from mulgrids import mulgrid, node, column, connection
    g = mulgrid(convention=0, atmos_type=2)
    if which == 0:
        pts = {'  a': (0, 0), '  b': (10, 0), '  c': (20, 0), '  d': (0, 10), '  e': (10, 10), '  f': (22, 9),
               '  g': (5, 18), '  h': (16, 19)}
        cols = {'  a': ['  a', '  d', '  e', '  b'], '  b': ['  b', '  e', '  f', '  c'],
                '  c': ['  d', '  g', '  e'], '  d': ['  e', '  g', '  h', '  f']}
        cons = [('  a', '  b'), ('  a', '  c'), ('  c', '  d'), ('  b', '  d')]
    elif which == 1:
        pts = {'  a': (0, 0), '  b': (12, 0), '  c': (16, 9), '  d': (6, 15), '  e': (-4, 9), '  f': (24, 0),
               '  g': (26, 12), '  h': (12, 24)}
        cols = {'  a': ['  a', '  e', '  d', '  c', '  b'], '  b': ['  b', '  c', '  g', '  f'],
                '  c': ['  c', '  d', '  h', '  g']}
        cons = [('  a', '  b'), ('  a', '  c'), ('  b', '  c')]
    else:
        pts = {'  a': (0, 0), '  b': (10, 0), '  c': (5, 8), '  d': (15, 8), '  e': (20, 0), '  f': (10, 16)}
        cols = {'  a': ['  a', '  c', '  b'], '  b': ['  b', '  c', '  d'], '  c': ['  b', '  d', '  e'],
                '  d': ['  c', '  f', '  d']}
        cons = [('  a', '  b'), ('  b', '  c'), ('  b', '  d')]
    for n, p in pts.items(): g.add_node(node(n, np.array(p, dtype=float)))
    for c, ns in cols.items(): g.add_column(column(c, [g.node[n] for n in ns]))
    for a, b in cons: g.add_connection(connection([g.column[a], g.column[b]]))
    g.add_layers([4., 6., 10.], 0.)
    g.set_default_surface(); g.identify_neighbours()
    g.setup_block_name_index(); g.setup_block_connection_name_index()
    return g


def ordered_columns(g):
    """columns sorted by position (centroid, then number of nodes, then name).  mulgrid.refine() creates its columns in the
    iteration order of a set of objects, i.e. in an order that depends on memory addresses; recipes with rc['det'] = True resolve
    every column index against this ordering, so that the same recipe always selects the same columns."""
    return sorted(g.columnlist, key=position_key)


def position_key(c):
    from refs import geom_ref
    cx, cy = geom_ref.centroid([(float(n.pos[0]), float(n.pos[1])) for n in c.node])
    return (cx, cy, c.num_nodes, c.name)


def column_at(g, i, rc=None):
    """column number i (modulo the number of columns) of the recipe's column ordering"""
    if rc is not None and rc.get('det'):
        return ordered_columns(g)[i % g.num_columns]
    return g.columnlist[i % g.num_columns]


def columns_at(g, idx, rc=None):
    lst = ordered_columns(g) if (rc is not None and rc.get('det')) else g.columnlist
    return [lst[i % len(lst)] for i in idx]


def bfs_columns(g, seed, n, rc=None):
    start = column_at(g, seed, rc)
    nbkey = position_key if (rc is not None and rc.get('det')) else (lambda x: x.name)
    seen, order, frontier = {start.name}, [start], [start]
    while frontier and len(order) < n:
        nxt = []
        for c in frontier:
            for nb in sorted(c.neighbour, key=nbkey):
                if nb.name not in seen and len(order) < n:
                    seen.add(nb.name); order.append(nb); nxt.append(nb)
        frontier = nxt
    return order



def _finish_mesh(g, b, rc, nodes, cols):
    """nodes: list of (key, (x, y)); cols: list of lists of keys.  Names are numbered in order with the
    recipe's convention / characters, connections join every pair of columns with a common side."""
    import numpy as np
    from mulgrids import node, column, connection
    justify = rc.get('justify', 'r')
    justfn = [str.rjust, str.ljust][justify == 'l']
    chars = CHARS[rc.get('chars', 'lower')]
    spaces = rc.get('spaces', True)
    byname = {}
    for i, (key, pos) in enumerate(nodes):
        name = g.node_name_from_number(i + 1, justfn, chars, spaces)
        g.add_node(node(name, np.array(pos, dtype=float)))
        byname[key] = g.node[name]
    sides = {}
    for i, keys in enumerate(cols):
        name = g.column_name_from_number(i + 1, justfn, chars, spaces)
        g.add_column(column(name, [byname[k] for k in keys]))
        col = g.column[name]
        n = col.num_nodes
        for a in range(n):
            sides.setdefault(frozenset((col.node[a].name, col.node[(a + 1) % n].name)), []).append(col)
    for key in sorted(sides, key=lambda k: sorted(k)):
        cs = sides[key]
        if len(cs) == 2: g.add_connection(connection([cs[0], cs[1]]))
    org = b.get('origin', [0., 0., 0.])
    g.add_layers(list(b['dz']), org[2], justify, chars, spaces)
    g.set_default_surface(); g.identify_neighbours()
    g.setup_block_name_index(); g.setup_block_connection_name_index()
    return g


def hang_mesh(b, rc):
    """Rectangular cells dx x dy; cell (row j, column i) is cut into k[j][i] x k[j][i] equal sub-cells.  A sub-cell
    whose neighbour is cut finer carries the neighbour's nodes on its side (straight angles): columns with 4..16 sides."""
    import mulgrids
    from fractions import Fraction as F
    g = mulgrids.mulgrid(type='GENER', convention=rc.get('convention', 0), atmos_type=rc.get('atmos', 2),
                         block_order=rc.get('block_order'))
    dx, dy, k = list(b['dx']), list(b['dy']), b['k']
    org = b.get('origin', [0., 0., 0.])
    X, Y = [float(org[0])], [float(org[1])]
    for d in dx: X.append(X[-1] + d)
    for d in dy: Y.append(Y[-1] + d)

    def coord(u, V, dv):
        i0 = int(u) if u < len(dv) else len(dv) - 1
        fr = u - i0
        if fr == 0: return V[i0]
        if fr == 1: return V[i0 + 1]
        return V[i0] + dv[i0] * float(fr)
    cells = []
    keys = set()
    for j in range(len(dy)):
        for i in range(len(dx)):
            kk = int(k[j % len(k)][i % len(k[j % len(k)])])
            for bb in range(kk):
                for aa in range(kk):
                    u0, u1, v0, v1 = F(i) + F(aa, kk), F(i) + F(aa + 1, kk), F(j) + F(bb, kk), F(j) + F(bb + 1, kk)
                    cells.append((u0, u1, v0, v1))
                    keys.update([(u0, v0), (u1, v0), (u1, v1), (u0, v1)])
    order = sorted(keys, key=lambda q: (q[1], q[0]))
    nodes = [(q, (coord(q[0], X, dx), coord(q[1], Y, dy))) for q in order]
    cols = []
    for u0, u1, v0, v1 in cells:
        bottom = sorted([q for q in keys if q[1] == v0 and u0 <= q[0] < u1])
        right = sorted([q for q in keys if q[0] == u1 and v0 <= q[1] < v1], key=lambda q: q[1])
        top = sorted([q for q in keys if q[1] == v1 and u0 < q[0] <= u1], reverse=True)
        left = sorted([q for q in keys if q[0] == u0 and v0 < q[1] <= v1], key=lambda q: -q[1])
        cols.append(bottom + right + top + left)
    return _finish_mesh(g, b, rc, nodes, cols)


def ngon_mesh(b, rc):
    """Convex polygon with b['corners'] corners on radii b['radii'] (x 100 m) at equal angles, b['hang'][i] extra nodes
    spaced evenly on side i (straight angles), surrounded by one ring of quadrilaterals (one per sub-side)."""
    import mulgrids, math
    g = mulgrids.mulgrid(type='GENER', convention=rc.get('convention', 0), atmos_type=rc.get('atmos', 2),
                         block_order=rc.get('block_order'))
    n = int(b['corners'])
    org = b.get('origin', [0., 0., 0.])
    rad = [100.0 * float(b.get('radii', [1.0])[i % len(b.get('radii', [1.0]))]) for i in range(n)]
    ph = float(b.get('phase', 0.0))
    corner = [(org[0] + rad[i] * math.cos(ph + 2 * math.pi * i / n), org[1] + rad[i] * math.sin(ph + 2 * math.pi * i / n))
              for i in range(n)]
    inner = []
    for i in range(n):
        h = int(b.get('hang', [0])[i % len(b.get('hang', [0]))])
        a, c = corner[i], corner[(i + 1) % n]
        for m in range(h + 1):
            t = m / float(h + 1)
            inner.append((a[0] + t * (c[0] - a[0]), a[1] + t * (c[1] - a[1])))
    N = len(inner)
    sc = float(b.get('ring', 1.8))
    outer = [(org[0] + sc * (p[0] - org[0]), org[1] + sc * (p[1] - org[1])) for p in inner]
    nodes = [(('i', m), inner[m]) for m in range(N)] + [(('o', m), outer[m]) for m in range(N)]
    cols = [[('i', m) for m in range(N)]]
    for m in range(N):
        m1 = (m + 1) % N
        cols.append([('i', m1), ('i', m), ('o', m), ('o', m1)])
    return _finish_mesh(g, b, rc, nodes, cols)


# ---------------------------------------------------------------------- column selections (refinement regions)

def column_sides(col):
    n = col.num_nodes
    return [frozenset((col.node[a].name, col.node[(a + 1) % n].name)) for a in range(n)]


def side_owners(g):
    own = {}
    for c in g.columnlist:
        for s in column_sides(c): own.setdefault(s, []).append(c)
    return own


def region_columns(g, spec, rc=None):
    """Columns of a refinement region described by shape (resolved geometrically, so it works on any mesh):
    single | strip (band through the seed column along axis) | L (two half bands) | ring (columns sharing a node with the
    seed, without the seed: a region with a hole) | blob (breadth-first ball of `size` columns) | boundary (columns with a
    side on the boundary of the domain, optionally only those on the `axis` low/high side) | checker (every other column by
    breadth-first parity) | random (indices `pick`) | all.  Returned in columnlist order."""
    n = g.num_columns
    shape = spec.get('shape', 'single')
    seed = column_at(g, spec.get('seed', 0), rc)
    sel = set()
    if shape == 'single':
        sel = {seed.name}
    elif shape in ('strip', 'L'):
        bb = seed.bounding_box
        ax = 0 if spec.get('axis', 'x') == 'x' else 1
        oth = 1 - ax

        def band(a, half):
            out = set()
            for c in g.columnlist:
                if bb[0][1 - a] <= c.centre[1 - a] <= bb[1][1 - a]:
                    if not half or c.centre[a] >= seed.centre[a]: out.add(c.name)
            return out
        sel = band(ax, False) if shape == 'strip' else (band(ax, True) | band(oth, True))
    elif shape == 'ring':
        for nd in seed.node:
            for c in nd.column: sel.add(c.name)
        sel.discard(seed.name)
        if not sel: sel = {seed.name}
    elif shape == 'blob':
        sel = set(c.name for c in bfs_columns(g, spec.get('seed', 0), max(1, spec.get('size', 4)), rc))
    elif shape == 'boundary':
        own = side_owners(g)
        bcols = [c for c in g.columnlist if any(len(own[s]) == 1 for s in column_sides(c))]
        side = spec.get('side')
        if side:
            bd = g.bounds
            ax = 0 if side[0] == 'x' else 1
            lim = bd[0][ax] if side[1] == '0' else bd[1][ax]
            bcols = [c for c in bcols if any(nd.pos[ax] == lim for nd in c.node)] or bcols
        sel = set(c.name for c in bcols)
    elif shape == 'checker':
        par = {seed.name: 0}
        frontier = [seed]
        while frontier:
            nxt = []
            for c in frontier:
                for nb in sorted(c.neighbour, key=position_key if (rc is not None and rc.get('det')) else (lambda x: x.name)):
                    if nb.name not in par:
                        par[nb.name] = 1 - par[c.name]; nxt.append(nb)
            frontier = nxt
        sel = set(nm for nm, p in par.items() if p == 0)
    elif shape == 'random':
        sel = set(c.name for c in columns_at(g, spec.get('pick', [0]), rc))
    elif shape == 'all':
        sel = set(c.name for c in g.columnlist)
    else:
        raise ValueError('unknown region shape %r' % (shape,))
    return [c for c in g.columnlist if c.name in sel]


def decompose_targets(g, op, rc=None):
    """columns named by a decompose op: 'cols' indices, or with 'convex_only' every column with more than 4 sides that is
    convex to within the library's own notion of a straight angle (2e-3 as a sine)"""
    from refs import geom_ref
    if op.get('cols'):
        cols = list(dict((c.name, c) for c in columns_at(g, op['cols'], rc)).values())
    else:
        cols = list(g.columnlist)
    if op.get('convex_only'):
        cols = [c for c in cols if c.num_nodes > 4 and
                geom_ref.is_convex([(float(n.pos[0]), float(n.pos[1])) for n in c.node], 2e-3)]
    return cols


def transition_candidates(g, cols, bisect, rc=None):
    """Columns just outside the refinement region that share a side which the refinement will divide (the documented
    domain of bisect_edge_columns).  For the bisecting modes the divided sides are those named by the library's own
    public column.bisection_sides() - used here to construct a valid argument, not as an oracle."""
    inside = set(c.name for c in cols) if cols else set(c.name for c in g.columnlist)
    own = side_owners(g)
    out = {}
    for c in (cols or g.columnlist):
        sides = column_sides(c)
        if bisect:
            idx = c.bisection_sides(None if bisect is True else bisect)
            if idx is None: continue
            sides = [sides[int(i)] for i in idx]
        for s in sides:
            for o in own[s]:
                if o.name not in inside: out[o.name] = o
    return [c for c in (ordered_columns(g) if (rc is not None and rc.get('det')) else g.columnlist) if c.name in out]


def build(rc):
    """recipe -> mulgrid (fresh objects every call)."""
    import mulgrids, numpy as np
    b = rc['base']
    if b['kind'] == 'rect':
        g = mulgrids.mulgrid().rectangular(
            list(b['dx']), list(b['dy']), list(b['dz']), convention=rc.get('convention', 0),
            atmos_type=rc.get('atmos', 2), origin=list(b.get('origin', [0., 0., 0.])),
            justify=rc.get('justify', 'r'), chars=CHARS[rc.get('chars', 'lower')],
            spaces=rc.get('spaces', True), block_order=rc.get('block_order'))
    elif b['kind'] == 'shipped':
        g = mulgrids.mulgrid(shipped_path(b['file']))
        if b.get('ncols') and b['ncols'] < g.num_columns:
            g.reduce(bfs_columns(g, b.get('seed', 0), b['ncols']))
        if 'atmos' in rc: g.atmosphere_type = rc['atmos']
        if rc.get('block_order') is not None: g.block_order = rc['block_order']
    elif b['kind'] in ('hang', 'ngon'):
        g = hang_mesh(b, rc) if b['kind'] == 'hang' else ngon_mesh(b, rc)
    else:
        g = tiny(b['which'])
        if 'atmos' in rc: g.atmosphere_type = rc['atmos']
        if rc.get('block_order') is not None: g.block_order = rc['block_order']
    for op in rc.get('ops', []):
        apply_op(g, op, rc)
    und = g.layerlist[1:]
    for ci, li, fr in rc.get('surfaces', []):
        col = column_at(g, ci, rc)
        if fr >= 1.0:
            lay = und[0]
            z = lay.top + (fr - 1.0) * (lay.top - lay.bottom) + 0.25
        else:
            lay = und[li % len(und)]
            z = lay.bottom if fr == 0 else lay.bottom + fr * (lay.top - lay.bottom)
        if z <= und[-1].bottom: z = und[-1].centre      # never at or below the bottom of the model
        col.surface = float(z)
        g.set_column_num_layers(col)
    for ci, depth in rc.get('sunk', []):
        # a column whose surface lies below the bottom of the model: it has no blocks at all (legal; files carry it)
        col = column_at(g, ci, rc)
        col.surface = float(und[-1].bottom - depth)
        g.set_column_num_layers(col)
    for ci, fx, fy in rc.get('centres', []):
        col = column_at(g, ci, rc)
        bb = col.bounding_box
        c = col.centroid + np.array([fx * (bb[1][0] - bb[0][0]), fy * (bb[1][1] - bb[0][1])]) * 0.2
        col.centre = c; col.centre_specified = 1
    if rc.get('wells'):
        bd = g.bounds
        ztop, zbot = g.layerlist[0].bottom, g.layerlist[-1].bottom
        for w in rc['wells']:
            pts = [np.array([bd[0][0] + fx * (bd[1][0] - bd[0][0]), bd[0][1] + fy * (bd[1][1] - bd[0][1]),
                             ztop + fz * (zbot - ztop)]) for fx, fy, fz in w['pts']]
            g.add_well(mulgrids.well(w['name'], pts))
    if rc.get('layer_centres'):
        # layer centres are data of their own (the LAYERS records carry them): off the mid-point, and - after a vertical
        # shift by minus that centre - one of them exactly 0.0
        import numpy as np
        und2 = g.layerlist[1:]
        for li, fr in rc['layer_centres']:
            lay = und2[li % len(und2)]
            lay.centre = lay.bottom + fr * (lay.top - lay.bottom)
        if rc.get('zero_centre') is not None:
            lay = und2[rc['zero_centre'] % len(und2)]
            g.translate(np.array([0., 0., -float(lay.centre)]), wells=True)
    h = rc.get('header', {})
    if 'unit' in h: g.unit_type = h['unit']
    if 'perm_angle' in h: g.permeability_angle = h['perm_angle']
    if 'atmos_volume' in h: g.atmosphere_volume = h['atmos_volume']
    if 'atmos_connection' in h: g.atmosphere_connection = h['atmos_connection']
    g.setup_block_name_index()
    g.setup_block_connection_name_index()
    return g


def apply_op(g, op, rc=None):
    import numpy as np
    k = op['op']
    chars = CHARS[(rc or {}).get('chars', 'lower')]
    if k == 'refine':
        if op.get('region') is not None:
            cols = region_columns(g, op['region'], rc)
            if op['region'].get('shape') == 'all' and op['region'].get('implicit'): cols = []
        else:
            cols = columns_at(g, op['cols'], rc) if op.get('cols') is not None else []
        cols = list(dict((c.name, c) for c in cols).values())
        kw = {}
        if op.get('edge_pick'):
            cand = transition_candidates(g, cols, op.get('bisect', False), rc)
            if cand:
                kw['bisect_edge_columns'] = list(dict((c.name, c) for c in
                                                      [cand[i % len(cand)] for i in op['edge_pick']]).values())
        elif op.get('edge'):
            kw['bisect_edge_columns'] = list(dict((c.name, c) for c in
                                                  columns_at(g, op['edge'], rc)).values())
        g.refine(cols, bisect=op.get('bisect', False), chars=chars, **kw)
    elif k == 'rotate':
        g.rotate(op['angle'], wells=True)
    elif k == 'translate':
        g.translate(np.array(op['shift'], dtype=float), wells=True)
    elif k == 'refine_layers':
        und = g.layerlist[1:]
        lays = list(dict((l.name, l) for l in [und[i % len(und)] for i in op['layers']]).values())
        g.refine_layers(lays, factor=op.get('factor', 2), chars=chars)
    elif k == 'drop_connection':
        # a connection taken out of the table (shipped g3.dat has 20 interior sides without one): the columns still share the side
        if g.connectionlist:
            con = g.connectionlist[op['con'] % len(g.connectionlist)]
            g.delete_connection(tuple(c.name for c in con.column))
            g.setup_block_connection_name_index()
    elif k == 'drop_layer':
        # the bottom layer taken away with the raw list mutator, the name lists refreshed the documented way (the cached
        # per-column layer counts are left as delete_layer() leaves them: see C10-K2)
        und = g.layerlist[1:]
        if len(und) >= 2 and all(c.surface is None or c.surface > und[-2].bottom for c in g.columnlist):
            g.delete_layer(und[-1].name)
            g.setup_block_name_index(); g.setup_block_connection_name_index()
    elif k == 'relayer':
        # another layer structure, whose top may lie above or below the present one: columns that still carry their
        # default surface then have it inside a layer (truncated) or above the new top (extended)
        import mulgrids
        other = mulgrids.mulgrid().rectangular([10.], [10.], list(op['dz']), convention=g.convention,
                                               origin=[0., 0., g.layerlist[0].bottom + op.get('top', 0.)])
        g.copy_layers_from(other)
    elif k == 'decompose':
        if op.get('cols') or op.get('convex_only'):
            cols = decompose_targets(g, op, rc)
            if cols: g.decompose_columns(cols, chars=chars)
        else:
            g.decompose_columns(chars=chars)
    elif k == 'delete':
        # remove columns (holes, notches): reduce() to the remaining ones
        drop = set(c.name for c in columns_at(g, op['cols'], rc))
        keep = [c for c in g.columnlist if c.name not in drop]
        if keep and len(keep) < g.num_columns: g.reduce(keep)
    elif k == 'split':
        quads = [c for c in (ordered_columns(g) if (rc or {}).get('det') else g.columnlist) if c.num_nodes == 4]
        if quads:
            col = quads[op['col'] % len(quads)]
            return g.split_column(col.name, col.node[op.get('node', 0) % 4].name, chars=chars)
        return None
    elif k == 'triangulate':
        col = column_at(g, op['col'], rc)
        return g.triangulate_column(col.name, chars=chars)
    else:
        raise ValueError('unknown op %r' % (op,))


def extract(g):
    """mulgrid -> plain data (everything the MULgraph file carries, plus the derived name lists)."""
    def f(x): return None if x is None else float(x)
    return {
        'header': {'type': g.type, 'convention': g.convention, 'atmosphere_type': g.atmosphere_type,
                   'atmosphere_volume': f(g.atmosphere_volume), 'atmosphere_connection': f(g.atmosphere_connection),
                   'unit_type': g.unit_type, 'gdcx': f(g.gdcx), 'gdcy': f(g.gdcy),
                   'permeability_angle': f(g.permeability_angle), 'block_order': g.block_order},
        'nodes': [[n.name, float(n.pos[0]), float(n.pos[1])] for n in g.nodelist],
        'columns': [{'name': c.name, 'nodes': [n.name for n in c.node], 'centre_specified': int(c.centre_specified),
                     'centre': [float(c.centre[0]), float(c.centre[1])],
                     'surface': None if c.default_surface else float(c.surface),
                     'num_layers': int(c.num_layers)} for c in g.columnlist],
        'connections': [[c.column[0].name, c.column[1].name] for c in g.connectionlist],
        'layers': [{'name': l.name, 'bottom': float(l.bottom), 'centre': float(l.centre), 'top': float(l.top)}
                   for l in g.layerlist],
        'wells': [{'name': w.name, 'pos': [[float(x) for x in p] for p in w.pos]} for w in g.welllist],
        'block_name_list': list(g.block_name_list),
        'block_connection_name_list': [list(t) for t in g.block_connection_name_list],
    }


# ---------------------------------------------------------------------- strategies

def spacing(n_min, n_max, lo=1.0, hi=500.0):
    """list of positive spacings: uniform, geometric or random over ~2.5 orders of magnitude"""
    val = st.floats(min_value=lo, max_value=hi, allow_nan=False, allow_infinity=False).map(lambda x: round(x, 2))

    @st.composite
    def s(draw):
        n = draw(st.integers(n_min, n_max))
        kind = draw(st.sampled_from(['uniform', 'geometric', 'random']))
        if kind == 'uniform': return [draw(val)] * n
        if kind == 'geometric':
            a = draw(st.floats(min_value=lo, max_value=min(hi, 50.0))); r = draw(st.sampled_from([1.2, 1.5, 2.0]))
            return [round(min(a * r ** i, hi), 2) for i in range(n)]
        return [draw(val) for _ in range(n)]
    return s()


@st.composite
def rect_base(draw, max_nx=6, max_ny=6, max_nz=6, conv=0, min_nx=1, min_ny=1, min_nz=1):
    cap = node_capacity(conv)
    dx = draw(spacing(min_nx, max_nx))
    dy = draw(spacing(min_ny, max_ny))
    while (len(dx) + 1) * (len(dy) + 1) > cap:
        if len(dx) >= len(dy): dx = dx[:-1]
        else: dy = dy[:-1]
    dz = draw(spacing(min_nz, max_nz, 0.5, 200.0))
    big = draw(st.sampled_from([0, 0, 1, 2, 3]))
    if big == 0: org = [0., 0., 0.]
    elif big == 3:      # first column centred on the origin: coordinates that are exactly zero
        org = [-dx[0] / 2, -dy[0] / 2, draw(st.sampled_from([0.0, dz[0], 100.0]))]
    elif big == 1:
        org = [draw(st.integers(-5000, 5000)) * 1.0, draw(st.integers(-5000, 5000)) * 1.0,
               draw(st.integers(-2000, 3000)) * 0.5]
    else:
        org = [draw(st.integers(1000000, 9000000)) * 1.0 + 0.25, draw(st.integers(1000000, 9000000)) * 1.0 + 0.5,
               draw(st.integers(-500, 2500)) * 1.0]
    return {'kind': 'rect', 'dx': dx, 'dy': dy, 'dz': dz, 'origin': org}


@st.composite
def surfaces(draw, max_n=8):
    n = draw(st.integers(0, max_n))
    out = []
    for _ in range(n):
        kind = draw(st.sampled_from(['boundary', 'mid', 'mid', 'above', 'bottom', 'twin']))
        ci, li = draw(st.integers(0, 400)), draw(st.integers(0, 30))
        if kind == 'twin':
            # two consecutive columns (usually neighbours) cut in the same layer at almost, but not quite, the same elevation
            fr = draw(st.sampled_from([0.3, 0.5, 0.8]))
            out.append([ci, li, fr]); out.append([ci + 1, li, fr + draw(st.sampled_from([1e-4, 3e-4, -2e-4, 2e-3]))])
            continue
        if kind == 'boundary': fr = 0.0
        elif kind == 'above': fr = 1.0 + draw(st.sampled_from([0.0, 0.5, 1.75]))
        elif kind == 'bottom': li, fr = -1, draw(st.sampled_from([0.25, 0.5, 0.9]))
        else: fr = draw(st.sampled_from([0.1, 0.25, 0.5, 0.75, 0.9]))
        out.append([ci, li, fr])
    return out


@st.composite
def wells(draw, max_n=3):
    out = []
    for i in range(draw(st.integers(0, max_n))):
        npt = draw(st.integers(2, 6))
        fz = sorted(draw(st.lists(st.floats(0.0, 1.0), min_size=npt, max_size=npt)))
        if npt >= 3 and draw(st.integers(0, 3)) == 0:
            # a track that comes up again (an undulating lateral), or two points at one elevation: tracks are ordered lists
            j = draw(st.integers(1, npt - 1)); fz[j], fz[j - 1] = fz[j - 1], fz[j]
            if draw(st.booleans()): fz[-1] = fz[0] if npt > 3 else fz[-1]
        pts = [[round(draw(st.floats(0.02, 0.98)), 3), round(draw(st.floats(0.02, 0.98)), 3), round(z, 3)] for z in fz]
        out.append({'name': 'W%4d' % (i + 1), 'pts': pts})
    return out


@st.composite
def geometry(draw, max_nx=6, max_ny=6, max_nz=6, shipped=True, ops=True, with_surfaces=True, with_wells=False,
             max_shipped_cols=60, justify=('r',), block_orders=(None, 'layer_column', 'dmplex'),
             conventions=(0, 1, 2, 3), header=False, tiny_ok=True, min_nz=1, relayer=False):
    kind = draw(st.sampled_from(['rect', 'rect', 'rect'] + (['shipped'] if shipped else []) + (['tiny'] if tiny_ok else [])))
    rc = {}
    if kind == 'rect':
        conv = draw(st.sampled_from(list(conventions)))
        rc['convention'] = conv
        rc['base'] = draw(rect_base(max_nx, max_ny, max_nz, conv, min_nz=min_nz))
        rc['justify'] = draw(st.sampled_from(list(justify)))
        rc['chars'] = draw(st.sampled_from(['lower', 'lower', 'upper']))
        rc['spaces'] = True
    elif kind == 'shipped':
        rc['base'] = {'kind': 'shipped', 'file': draw(st.sampled_from(SHIPPED)), 'seed': draw(st.integers(0, 2000)),
                      'ncols': draw(st.integers(3, max_shipped_cols))}
    else:
        rc['base'] = {'kind': 'tiny', 'which': draw(st.integers(0, 2))}
    rc['atmos'] = draw(st.sampled_from([0, 1, 2]))
    rc['block_order'] = draw(st.sampled_from(list(block_orders)))
    if rc['block_order'] == 'dmplex' and (kind == 'tiny' and rc['base']['which'] != 2 or
                                          kind == 'shipped' and rc['base']['file'] in MANY_SIDED):
        rc['block_order'] = 'layer_column'      # dmplex ordering is documented for 3- and 4-sided columns only
    rc['ops'] = []
    if ops and draw(st.integers(0, 2)) == 0:
        for _ in range(draw(st.integers(1, 2))):
            o = draw(st.sampled_from(['refine', 'rotate', 'translate', 'refine_layers']))
            if o == 'refine':
                if kind == 'shipped' and rc['base']['file'] in MANY_SIDED:
                    continue     # contain columns with more than 4 sides (refine needs 3- or 4-sided columns)
                if kind == 'tiny' and rc['base']['which'] != 2: continue
                rc['ops'].append({'op': 'refine', 'cols': draw(st.lists(st.integers(0, 200), min_size=1, max_size=4)),
                                  'bisect': draw(st.sampled_from([False, False, True, 'x', 'y']))})
            elif o == 'rotate':
                rc['ops'].append({'op': 'rotate', 'angle': draw(st.sampled_from([30.0, 45.0, 90.0, -17.5, 123.0]))})
            elif o == 'translate':
                rc['ops'].append({'op': 'translate', 'shift': [draw(st.integers(-300, 300)) * 1.0,
                                                               draw(st.integers(-300, 300)) * 1.0,
                                                               draw(st.integers(-50, 50)) * 1.0]})
            else:
                rc['ops'].append({'op': 'refine_layers', 'layers': draw(st.lists(st.integers(0, 20), min_size=1, max_size=2)),
                                  'factor': draw(st.sampled_from([2, 3]))})
    if relayer and draw(st.integers(0, 4)) == 0:
        rc['ops'].append({'op': 'relayer', 'dz': draw(st.lists(st.sampled_from([2., 5., 10., 12.5]), min_size=1, max_size=5)),
                          'top': draw(st.sampled_from([0., 5., 12., -5., -12., 2.5]))})
    if with_surfaces: rc['surfaces'] = draw(surfaces())
    if with_wells: rc['wells'] = draw(wells())
    if header:
        rc['header'] = {'unit': draw(st.sampled_from(['', '', 'FEET '])),
                        'perm_angle': draw(st.sampled_from([0.0, 0.0, 30.0, 45.5, -20.25, 90.0])),
                        'atmos_volume': draw(st.sampled_from([1e25, 1e20, 1.5e30, 1e50])),
                        'atmos_connection': draw(st.sampled_from([1e-6, 1e-3, 2.5e-6, 1.0]))}
    return rc


def describe(rc):
    """labels for the evidence histogram"""
    b = rc['base']
    out = ['base:' + b['kind'] + (':' + b['file'] if b['kind'] == 'shipped' else '')]
    out.append('conv:%s' % rc.get('convention', 'file'))
    out.append('atmos:%s' % rc.get('atmos'))
    out.append('order:%s' % rc.get('block_order'))
    for o in rc.get('ops', []): out.append('op:' + o['op'])
    ns = len(rc.get('surfaces', []))
    out.append('surfaces:%s' % ('0' if ns == 0 else 'some'))
    if any(fr >= 1 for _c, _l, fr in rc.get('surfaces', [])): out.append('surface:above-top')
    if any(fr == 0 for _c, _l, fr in rc.get('surfaces', [])): out.append('surface:on-boundary')
    if rc.get('sunk'): out.append('surface:below-model-bottom')
    if rc.get('layer_centres'): out.append('layer-centres:off-mid-point' + (':one-exactly-zero' if rc.get('zero_centre') is not None else ''))
    if rc.get('wells'): out.append('wells')
    if rc.get('header', {}).get('unit'): out.append('feet')
    return out


def input_defects(g):
    """Reasons why a built geometry is not a valid *input* for properties that consume geometries
    (it was already broken by the operations that built it - those defects belong to C10/C11/C17
    and are judged there; here they are only counted)."""
    out = []
    for what, lst in (('node', g.nodelist), ('column', g.columnlist), ('layer', g.layerlist)):
        names = [x.name for x in lst]
        if len(set(names)) != len(names): out.append('duplicate-%s-names' % what)
    if len(set(g.block_name_list)) != len(g.block_name_list): out.append('duplicate-block-names')
    return out
