"""TOUGH2 / AUTOUGH2 data models: Hypothesis strategy, builder (model -> t2data through public attributes),
extractor (t2data -> model shape) and comparison.  The model shape is the one refs/t2_ref.py reads."""
import math
from hypothesis import strategies as st
from refs import ffmt

# precision the library's own formats carry, per section/field: (width, decimals); default is 10.4e
P3 = (10, 3); P4 = (10, 4)
FMT = {
    'rocks': dict(rp=P3, cp=P3),
    'param': dict(diff0=P3, texp=P3, be=P3, tstart=P3, tstop=P3, const_timestep=P3, max_timestep=P3,
                  default_incons=(20, 14)),
    'rpcap': dict(rp=P3, cp=P3),
    'selec': dict(float=P3), 'diffu': dict(row=P3),
    'blocks': dict(x=P3, y=P3, z=P3),
    'connections': dict(sigma=P3, dircos=('f', 10, 7)),
    'generators': dict(gx=P3, ex=P3, hg=P3, fg=P3, time=(14, 7), rate=(14, 7), enthalpy=(14, 7)),
    'incon': dict(porosity=(15, 9), vars=(20, 14)),
    'indom': dict(vars=(20, 13)),
}
XPFMT = (15, 8)
XP_SECTIONS = {'ROCKS': 'rocks', 'ELEME': 'blocks', 'CONNE': 'connections', 'RPCAP': 'rpcap', 'GENER': 'generators'}


def carried(section, key, v, xp=False):
    """value a real field holds after the library has written v with its own format (full precision when it
    fits, reduced precision otherwise)"""
    if v is None: return None
    f = FMT.get(section, {}).get(key, P4)
    if xp and section in XP_SECTIONS.values():
        f = ('f', 15, 8) if f[0] == 'f' else XPFMT
    if f[0] == 'f':
        for k in range(f[2], -1, -1):
            s = '%.*f' % (k, v)
            if len(s) <= f[1]: return float(s)
        return None
    return ffmt.py_e_expected(v, f[0], f[1])


# ---------------------------------------------------------------------------------------------- strategies
_MEMO = {}


def _gap(draw, vals):
    """now and then one absent value inside a 4-per-line list of primary variables (legal: the field is blank); never the
    last value of the list and never the last field of a line that another line follows (the reader joins the lines
    after dropping each line's trailing blanks)"""
    ok = [i for i in range(len(vals) - 1) if i % 4 != 3]
    if ok and draw(st.integers(0, 5)) == 0: vals[draw(st.sampled_from(ok))] = None


def _memo(key, make):
    """strategies are built once and reused: constructing them inside a composite costs far more than drawing"""
    if key not in _MEMO: _MEMO[key] = make()
    return _MEMO[key]


def I(a, b): return _memo(('I', a, b), lambda: st.integers(a, b))
def B(): return _memo(('B',), st.booleans)


def SF(seq):
    seq = list(seq)
    try: key = ('SF', tuple(seq))
    except TypeError: key = ('SF', repr(seq))
    try: return _memo(key, lambda: st.sampled_from(seq))
    except TypeError: return st.sampled_from(seq)


def pos(lo=1e-20, hi=1e20):
    return _memo(('pos', lo, hi), lambda: _pos(lo, hi))


def _pos(lo, hi):
    return st.one_of(st.floats(min_value=lo, max_value=hi, allow_nan=False),
                     SF([1.0, 2600.0, 0.1, 1e-15, 1.5e-13, 900.0, 9.9999e9, 1.00005, 9.99995e-5, 1e-99, 9.9999e99]))


def anyreal():
    return _memo(('anyreal',), _anyreal)


def _anyreal():
    return st.one_of(pos(), pos().map(lambda x: -x), SF([0.0, -1.0, 1e100, -1e-100, 1.2345678901234567e5, -9.81]))


NAME3 = st.text(alphabet='abcxyzABC', min_size=3, max_size=3)


@st.composite
def block_names(draw, n):
    out, seen = [], set()
    styles = draw(SF(['conv0', 'conv0', 'conv2', 'mixed']))
    while len(out) < n:
        if styles == 'conv0': nm = draw(NAME3) + '%2d' % draw(I(1, 99))
        elif styles == 'conv2': nm = draw(st.text(alphabet='abqz', min_size=2, max_size=2)) + '%3d' % draw(I(1, 999))
        else: nm = draw(SF(['ab1 5', 'AB 01', 'abc05', 'a 100', 'zz905', ' a1 1', 'KA  1', 'xy9 9'])) if draw(B()) \
            else draw(NAME3) + '%2d' % draw(I(1, 99))
        from refs.incon_ref import a3i2_print, quirk_repair
        key = quirk_repair(a3i2_print(nm))
        if key in seen or nm in seen: continue
        seen.add(key); seen.add(nm); out.append(nm)
    return out


def opt(s, p=4):
    """optional value: None about once in p"""
    return _memo(('opt', id(s), p), lambda: st.one_of(*([s] * (p - 1) + [st.none()])))


@st.composite
def rp7(draw, exact7=False):
    n = 7 if exact7 else draw(SF([7, 7, 6, 3, 1]))
    vals = [draw(pos(1e-6, 1e6)) for _ in range(n)]
    return vals + [None] * (7 - n)


@st.composite
def model(draw, flavour=None, max_blocks=10):
    au = draw(B()) if flavour is None else (flavour == 'AUTOUGH2')
    m = {'title': draw(SF(['test model', 'A title with  two spaces', 'x' * 80, 'T'])), 'end': 'ENDCY'}
    present = set(['PARAM', 'ELEME', 'CONNE'])
    if au:
        m['simulator'] = draw(SF(['AUTOUGH2.2', 'AUTOUGH2.2EW', 'AUTOUGH2.2EWAV', 'AUTOUGH2.2EWC', 'AUTOUGH2.2EW', 'MULKOM    EW', 'autough2.2ew', 'SIM']))     # (any text in the SIMUL record makes the file an AUTOUGH2 one)
        present.add('SIMUL')
    # rocks
    nr = draw(I(0, 4))
    rocks = []
    # five-character (A5) names; shorter names are held blank-padded ('SAND ', '  cap'), as the reader stores them
    rnames = draw(st.lists(_memo('rockname', lambda: st.one_of(
        st.text(alphabet='abcdRKX12', min_size=5, max_size=5), st.text(alphabet='abcdRKX12', min_size=5, max_size=5),
        st.text(alphabet='abcdRKX12', min_size=2, max_size=4).map(lambda t: t.ljust(5)),
        st.text(alphabet='abcdRKX12', min_size=3, max_size=4).map(lambda t: t.rjust(5)),
        # legal names that read like something else: a rock type index (TOUGH2 allows 'MA1 blank, MA2 a number'), a number, a keyword
        st.sampled_from(['    1', '    2', '    3', '   12', '    0', '00002', '2    ', '1e  2', 'ROCKS', 'ELEME', 'SEED ']))),
        min_size=nr, max_size=nr, unique=True))
    for nm in rnames:
        nad = draw(SF([None, 0, 0, 1, 2, 2]))
        r = {'name': nm, 'nad': nad, 'density': draw(pos(1, 1e4)), 'porosity': draw(pos(1e-4, 1.0)),
             'k1': draw(pos(1e-20, 1e-9)), 'k2': draw(opt(pos(1e-20, 1e-9), 8)), 'k3': draw(opt(pos(1e-20, 1e-9), 8)),      # (blank k2 / k3: legal)
             'conductivity': draw(pos(0.1, 10)), 'specific_heat': draw(pos(100, 5000))}
        if nad and nad >= 1:
            for k in ('compressibility', 'expansivity', 'dry_conductivity', 'tortuosity'):
                r[k] = draw(_memo('zero_or_small', lambda: st.one_of(st.just(0.0), pos(1e-12, 10))))
            for k in ('klinkenberg', 'xkd3', 'xkd4'):
                r[k] = draw(opt(pos(1e-8, 1e8), 2))
        if nad and nad >= 2:
            r['rp_type'] = draw(I(1, 11)); r['rp'] = draw(rp7())
            r['cp_type'] = draw(I(1, 11)); r['cp'] = draw(rp7())
        rocks.append(r)
    if rocks: m['rocks'] = rocks; present.add('ROCKS')
    # parameters
    mop = ''.join(str(draw(I(0, 9))) for _ in range(24))
    dt = draw(SF([0.0, 1.0, 86400.0, -1.0, -2.0, -3.0]))
    p = {'max_iterations': draw(opt(I(0, 99))), 'print_level': draw(opt(I(0, 9))),
         'max_timesteps': draw(opt(I(0, 9999))), 'max_duration': draw(opt(I(0, 9999))),
         'print_interval': draw(opt(I(0, 9999))), 'mop': mop,
         'texp': draw(opt(pos(0.1, 10))), 'be': draw(opt(pos(0.1, 10))),
         'tstart': draw(SF([0.0, 100.0, 3.15576e7])), 'tstop': draw(opt(pos(1.0, 1e15))),
         'const_timestep': dt, 'max_timestep': draw(opt(pos(1.0, 1e15))),
         'print_block': None, 'gravity': draw(SF([0.0, 9.81, 9.80665])),
         'timestep_reduction': draw(opt(pos(1.1, 10))), 'scale': draw(opt(pos(0.1, 10))),
         'relative_error': draw(opt(pos(1e-9, 1e-2))), 'absolute_error': draw(opt(pos(1e-3, 10))),
         'pivot': draw(opt(pos(1e-3, 1))), 'upstream_weight': draw(opt(pos(0.1, 1))),
         'newton_weight': draw(opt(pos(0.1, 1))), 'derivative_increment': draw(opt(pos(1e-10, 1e-5)))}
    if au: p['diff0'] = draw(opt(pos(1e-8, 1e-3)))
    if dt < 0:
        n = int(-dt)
        # the announced records may be only partly used (DELTEN = -2 with three DLT values: the second record is blank)
        nts = draw(I(8 * (n - 1) + 1, 8 * n)) if draw(I(0, 3)) else draw(I(1, 8 * n))
        p['timestep'] = [draw(pos(1.0, 1e9)) for _ in range(nts)]
    else:
        p['timestep'] = [dt]
    ninc = draw(SF([0, 1, 2, 3, 4, 5, 8, 9, 12]))
    p['default_incons'] = [draw(_memo('incval', lambda: st.one_of(pos(1e-3, 1e8), SF([0.0, 1.013e5, 20.0, -1.5])))) for _ in range(ninc)]
    _gap(draw, p['default_incons'])
    m['param'] = p
    if draw(I(0, 3)) == 0:
        m['momop'] = ''.join(str(draw(I(0, 9))) for _ in range(21))
        if m['momop'].strip('0'): present.add('MOMOP')
        else: del m['momop']
    if draw(B()): m['start'] = True; present.add('START')
    if draw(I(0, 3)) == 0: m['nover'] = True; present.add('NOVER')
    if draw(B()):
        m['rpcap'] = {'rp_type': draw(I(1, 11)), 'rp': draw(rp7(True)), 'cp_type': draw(I(1, 11)), 'cp': draw(rp7(True))}
        present.add('RPCAP')
    if au and draw(B()):
        m['lineq'] = {'type': draw(I(0, 9)), 'epsilon': draw(opt(pos(1e-12, 1e-3))), 'max_iterations': draw(opt(I(1, 9999))),
                      'gauss': draw(opt(I(0, 1))), 'num_orthog': draw(opt(I(1, 999)))}
        present.add('LINEQ')
    if (not au) and draw(B()):
        m['solver'] = {'type': draw(I(1, 6)), 'z_precond': draw(SF(['Z0', 'Z1', 'Z4'])),
                       'o_precond': draw(SF(['O0', 'O1', 'O4'])), 'relative_max_iterations': draw(opt(pos(0.01, 1))),
                       'closure': draw(opt(pos(1e-12, 1e-4)))}
        present.add('SOLVR')
    nk, nph = draw(I(1, 4)), draw(I(1, 3))
    if draw(B()):
        m['multi'] = {'num_components': nk, 'num_equations': nk + 1, 'num_phases': nph, 'num_secondary_parameters': draw(SF([6, 8]))}
        if au: m['multi']['eos'] = draw(SF(['EW', 'EWAV', 'EWC', 'EWSG']))
        else: m['multi']['num_inc'] = draw(opt(I(1, 9), 2))
        present.add('MULTI')
    if draw(B()):
        nt = draw(SF([1, 2, 7, 8, 9, 16, 17]))
        m['times'] = {'num_times_specified': nt, 'num_times': draw(opt(I(nt, 99), 2)), 'max_timestep': draw(opt(pos(1, 1e9), 2)),
                      'time_increment': draw(opt(pos(1, 1e9), 2)), 'time': sorted(draw(pos(1.0, 1e12)) for _ in range(nt))}
        present.add('TIMES')
    if draw(I(0, 2)) == 0:
        nl = draw(I(0, 3))
        ints = [nl] + [draw(opt(I(-9999, 99999))) for _ in range(15)]
        m['selec'] = {'integer': ints, 'float': [draw(_memo('selecf', lambda: opt(anyreal().filter(lambda v: abs(v) < 1e99 and (v == 0 or abs(v) > 1e-98))))) for _ in range(8 * nl)]}
        present.add('SELEC')
    if 'MULTI' in present and draw(I(0, 2)) == 0:
        m['diffu'] = [[draw(pos(1e-9, 1e-3)) for _ in range(nph)] for _ in range(nk)]
        present.add('DIFFU')
    # grid
    nb = draw(I(0, max_blocks)) if rocks else 0
    names = draw(block_names(nb))
    blocks = []
    with_centres = draw(B())
    for nm in names:
        b = {'name': nm, 'nseq': draw(opt(I(1, 99), 2)) if draw(I(0, 5)) == 0 else None, 'nadd': None,
             'rocktype': draw(SF(rnames)), 'volume': draw(pos(1e-3, 1e12)),
             'ahtx': draw(opt(pos(1e-3, 1e6), 2)), 'pmx': draw(opt(pos(1e-3, 10), 2))}
        if b['nseq'] is not None: b['nadd'] = draw(I(1, 99))
        if with_centres:
            b['x'], b['y'], b['z'] = draw(_memo('xcoord', lambda: anyreal().filter(lambda v: abs(v) < 1e9))), draw(pos(1e-3, 1e7)), -draw(pos(1e-3, 1e4))
        else:
            b['x'] = b['y'] = b['z'] = None
        blocks.append(b)
    m['blocks'] = blocks
    cons = []
    if nb >= 2:
        pairs = set()
        for _ in range(draw(I(0, min(14, nb * 2)))):
            i, j = draw(I(0, nb - 1)), draw(I(0, nb - 1))
            if i == j or (i, j) in pairs or (j, i) in pairs: continue
            pairs.add((i, j))
            c = {'block1': names[i], 'block2': names[j], 'nseq': None, 'nad1': None, 'nad2': None, 'direction': draw(I(1, 3)),
                 'distance1': draw(pos(1e-6, 1e5)), 'distance2': draw(pos(1e-6, 1e5)), 'area': draw(pos(1e-6, 1e9)),
                 'dircos': draw(SF([0.0, -1.0, 1.0, 0.5, -0.1234567, 0.7071068])), 'sigma': draw(opt(pos(1e-3, 1), 2))}
            if draw(I(0, 6)) == 0:
                c['nseq'], c['nad1'], c['nad2'] = draw(I(1, 99)), draw(I(1, 99)), draw(I(1, 99))
            cons.append(c)
    m['connections'] = cons
    # meshmaker
    if draw(I(0, 3)) == 0:
        mm = []
        for _ in range(draw(I(1, 2))):
            k = draw(SF(['rz2d', 'xyz', 'minc']))
            if k == 'rz2d':
                sub = []
                for s in draw(st.lists(SF(['radii', 'equid', 'logar']), min_size=0, max_size=3)):
                    if s == 'radii': sub.append(['radii', {'radii': sorted(draw(pos(0.1, 1e4)) for _ in range(draw(SF([1, 3, 8, 9])))) }])
                    elif s == 'equid': sub.append(['equid', {'nequ': draw(I(1, 99)), 'dr': draw(pos(0.1, 100))}])
                    else: sub.append(['logar', {'nlog': draw(I(1, 99)), 'rlog': draw(pos(1, 1e4)), 'dr': draw(opt(pos(0.1, 100), 2))}])
                sub.append(['layer', {'layer': [draw(pos(0.1, 500)) for _ in range(draw(SF([1, 2, 3, 8, 9, 12])))] }])
                mm.append(['rz2d', sub])
            elif k == 'xyz':
                dirs = []
                for nt in draw(st.lists(SF(['NX', 'NY', 'NZ']), min_size=1, max_size=3, unique=True)):
                    if draw(B()):
                        dirs.append({'ntype': nt, 'no': draw(I(1, 99)), 'del': draw(pos(0.1, 1e3))})
                    else:
                        n = draw(SF([1, 7, 8, 9, 16]))
                        dirs.append({'ntype': nt, 'no': n, 'del': 0.0, 'deli': [draw(pos(0.1, 1e3)) for _ in range(n)]})
                mm.append(['xyz', {'deg': draw(SF([0.0, 30.0, 45.0])), 'dirs': dirs}])
            else:
                nv = draw(SF([1, 2, 8, 9]))
                mm.append(['minc', {'type': draw(SF(['ONE-D', 'TWO-D', 'THRED'])), 'dual': draw(SF(['     ', 'MMALL', 'MMVER'])),
                                    'num_continua': nv + 1, 'where': draw(SF(['OUT ', 'IN  '])),
                                    'spacing': [draw(pos(1, 500))] + [draw(opt(pos(1, 500), 2)) for _ in range(6)],
                                    'vol': [draw(pos(0.01, 1.0)) for _ in range(nv)]}])
        m['meshmaker'] = mm; present.add('MESHM')
    # generators
    gens = []
    if names and draw(B()):
        seen = set()
        for gi in range(draw(I(1, 6))):
            blk = draw(SF(names))
            gname = '%3s%2d' % (draw(SF(['wel', 'inj', 'src'])), gi + 1)
            typ = draw(SF(['MASS', 'HEAT', 'MASS', 'WATE', 'COM1', 'DELV'] + (['CO2 ', 'DELG', 'RECH'] if au else ['AIR ', 'COM2'])))
            seqs = [None, None, None]
            if draw(I(0, 3)) == 0: seqs = [draw(opt(I(0, 99), 2)) for _ in range(3)]       # NSEQ, NADD, NADS (rarely used, all optional)
            g = {'block': blk, 'name': gname, 'nseq': seqs[0], 'nadd': seqs[1], 'nads': seqs[2], 'ltab': None, 'type': typ, 'itab': ' ',
                 'gx': draw(_memo('pm', lambda: st.one_of(pos(1e-6, 1e6), pos(1e-6, 1e6).map(lambda v: -v)))), 'ex': draw(opt(pos(1e3, 3e6), 2)),
                 'hg': draw(opt(pos(1e-3, 1e3), 3)), 'fg': draw(opt(pos(1e-3, 1e3), 3)), 'time': [], 'rate': [], 'enthalpy': []}
            if typ == 'DELV':
                g['ltab'] = draw(I(1, 9))
            elif draw(B()):
                n = draw(SF([2, 3, 4, 5, 8, 9, 12]))
                g['ltab'] = n
                g['time'] = sorted(draw(pos(0.1, 1e12)) for _ in range(n))
                g['rate'] = [draw(_memo('pm0', lambda: st.one_of(pos(1e-6, 1e6), pos(1e-6, 1e6).map(lambda v: -v), st.just(0.0)))) for _ in range(n)]
                if draw(B()):
                    # enthalpy tables of zeros (and tables with some zeros) are legal and must be written in full
                    emode = draw(SF(['pos', 'pos', 'pos', 'zero', 'mixed']))
                    g['itab'] = 'E'
                    g['enthalpy'] = [0.0 if emode == 'zero' or (emode == 'mixed' and draw(B())) else draw(pos(1e3, 3e6)) for _ in range(n)]
            gens.append(g)
        m['generators'] = gens; present.add('GENER')
    # short output / history
    mesh_mode = draw(SF(['infile', 'infile', 'meshfile', 'binary', 'binary'])) if (nb >= 1 and with_centres) else \
        draw(SF(['infile', 'infile', 'meshfile'])) if nb >= 1 else 'infile'
    if mesh_mode == 'binary':
        from refs.incon_ref import a3i2_print
        if any(a3i2_print(n) != n for n in names): mesh_mode = 'meshfile'   # MESHA/MESHB hold names verbatim: only names already in (A3,I2) form
    m['mesh_mode'] = mesh_mode
    if au and mesh_mode == 'infile' and names and draw(I(0, 2)) == 0:
        sh = {'frequency': draw(I(1, 99))}
        if draw(B()): sh['block'] = draw(st.lists(SF(names), min_size=0, max_size=3, unique=True))
        if cons and draw(B()):
            cs = draw(st.lists(SF(range(len(cons))), min_size=0, max_size=3, unique=True))
            sh['connection'] = [[cons[i]['block1'], cons[i]['block2']] for i in cs]
        if gens and draw(B()):
            gs = draw(st.lists(SF(range(len(gens))), min_size=0, max_size=3, unique=True))
            sh['generator'] = [[gens[i]['block'], gens[i]['name']] for i in gs]
        m['short'] = sh; present.add('SHORT')
    if names and draw(I(0, 2)) == 0:
        m['foft'] = draw(st.lists(SF(names), min_size=1, max_size=4, unique=True)); present.add('FOFT')
    if cons and draw(I(0, 2)) == 0:
        cs = draw(st.lists(SF(range(len(cons))), min_size=1, max_size=3, unique=True))
        m['coft'] = [[cons[i]['block1'], cons[i]['block2']] for i in cs]; present.add('COFT')
    if names and draw(I(0, 3)) == 0:
        m['goft'] = draw(st.lists(SF(names), min_size=1, max_size=3, unique=True)); present.add('GOFT')
    if names and draw(I(0, 2)) == 0:
        sel = [n for n in names if draw(B())] or names[:1]
        nv = draw(I(1, 4))
        inc = []
        for n in sel:
            r = {'block': n, 'nseq': None, 'nadd': None, 'porosity': draw(opt(pos(1e-3, 1.0), 2)),
                 'vars': [draw(_memo('incval', lambda: st.one_of(pos(1e-3, 1e8), SF([0.0, 1.013e5, 20.0, -1.5])))) for _ in range(nv)]}
            _gap(draw, r['vars'])
            if draw(I(0, 5)) == 0: r['nseq'], r['nadd'] = draw(I(1, 99)), draw(I(1, 99))
            inc.append(r)
        m['incon'] = inc; present.add('INCON')
    if rnames and draw(I(0, 3)) == 0:
        m['indom'] = [{'rock': r, 'vars': [draw(pos(1e-3, 1e8)) for _ in range(draw(I(1, 4)))]}
                      for r in draw(st.lists(SF(rnames), min_size=1, max_size=3, unique=True))]
        for r in m['indom']: _gap(draw, r['vars'])
        present.add('INDOM')
    from refs.t2_ref import KEYWORDS
    canonical = [k for k in KEYWORDS if k in present]
    m['sections'] = canonical
    m['order'] = draw(SF(['canonical', 'canonical', 'shuffled']))
    if m['order'] == 'shuffled':
        m['sections'] = legal_order(draw, canonical)
    m['xp'] = 'off'
    if au:
        m['xp'] = draw(SF(['off', 'off', 'on', 'echo']))
        if m['xp'] != 'off':
            # a partial list must be readable: the companion file is read in one go when SIMUL is met, so ELEME
            # needs ROCKS in it and CONNE needs ELEME; sections are listed in canonical order; with an external
            # mesh file the mesh sections stay out of the list
            elig = [k for k in ('ROCKS', 'ELEME', 'CONNE', 'RPCAP', 'GENER') if k in present]
            if draw(B()) or not elig:
                m['xp_sections'] = 'all'      # also with the mesh in a side file: the companion file then holds ELEME/CONNE too
            else:
                pick = set(draw(st.lists(SF(elig), min_size=1, unique=True))) if elig else set()
                if 'CONNE' in pick: pick.add('ELEME')
                if 'ELEME' in pick: pick.add('ROCKS')
                if 'ELEME' in pick and mesh_mode != 'infile': pick.add('CONNE')   # a side mesh file is only read when the companion file gave no blocks
                pick = [k for k in ('ROCKS', 'ELEME', 'CONNE', 'RPCAP', 'GENER') if k in pick and k in present]
                if pick: m['xp_sections'] = pick
                else: m['xp'] = 'off'
    return m


def legal_order(draw, canonical):
    """a drawn permutation of the section keywords that respects what the reader needs to have seen first"""
    before = [('SIMUL', k) for k in canonical if k != 'SIMUL'] + [('MULTI', 'DIFFU'), ('ROCKS', 'ELEME'), ('ELEME', 'CONNE')] + \
             [(a, b) for a in ('ELEME', 'CONNE', 'GENER') for b in ('SHORT', 'FOFT', 'COFT', 'GOFT')]
    remaining = list(canonical); out = []
    while remaining:
        ok = [k for k in remaining if not any(a in remaining and b == k for a, b in before)]
        k = draw(SF(ok)); out.append(k); remaining.remove(k)
    return out


# ---------------------------------------------------------------------------------------------- builder / extractor
def build(m):
    import t2data, t2grids, numpy as np
    d = t2data.t2data()
    d.title = m['title']
    if m.get('simulator'): d.simulator = m['simulator']
    g = d.grid
    for r in m.get('rocks', []):
        rt = t2grids.rocktype(r['name'], r['nad'], r['density'], r['porosity'], [r['k1'], r['k2'], r['k3']],
                              r['conductivity'], r['specific_heat'])
        if r['nad'] and r['nad'] >= 1:
            for k in ('compressibility', 'expansivity', 'dry_conductivity', 'tortuosity'): setattr(rt, k, r[k])
            for k in ('klinkenberg', 'xkd3', 'xkd4'):
                if r.get(k) is not None: setattr(rt, k, r[k])
        if r['nad'] and r['nad'] >= 2:
            rt.relative_permeability = {'type': r['rp_type'], 'parameters': list(r['rp'])}
            rt.capillarity = {'type': r['cp_type'], 'parameters': list(r['cp'])}
        g.add_rocktype(rt)
    p = m['param']
    for k, v in p.items():
        if k in ('mop',): continue
        if k in ('timestep', 'default_incons'): d.parameter[k] = list(v)
        else: d.parameter[k] = v
    d.parameter['option'] = np.array([0] + [int(c) for c in p['mop']], np.int8)
    if 'momop' in m: d.more_option = np.array([0] + [int(c) for c in m['momop']], np.int8)
    d.start = bool(m.get('start')); d.noversion = bool(m.get('nover'))
    if 'rpcap' in m:
        d.relative_permeability = {'type': m['rpcap']['rp_type'], 'parameters': list(m['rpcap']['rp'])}
        d.capillarity = {'type': m['rpcap']['cp_type'], 'parameters': list(m['rpcap']['cp'])}
    for key, attr in (('lineq', 'lineq'), ('solver', 'solver'), ('multi', 'multi')):
        if key in m: setattr(d, attr, dict((k, v) for k, v in m[key].items() if v is not None))
    if 'times' in m: d.output_times = dict((k, (list(v) if k == 'time' else v)) for k, v in m['times'].items() if v is not None)
    if 'selec' in m: d.selection = {'integer': list(m['selec']['integer']), 'float': list(m['selec']['float'])}
    if 'diffu' in m: d.diffusion = [list(r) for r in m['diffu']]
    for b in m['blocks']:
        c = None if b['x'] is None else np.array([b['x'], b['y'], b['z']])
        g.add_block(t2grids.t2block(b['name'], b['volume'], g.rocktype[b['rocktype']], centre=c, ahtx=b['ahtx'], pmx=b['pmx'],
                                    nseq=b['nseq'], nadd=b['nadd']))
    for c in m['connections']:
        g.add_connection(t2grids.t2connection([g.block[c['block1']], g.block[c['block2']]], c['direction'],
                                              [c['distance1'], c['distance2']], c['area'], c['dircos'], c['sigma'],
                                              c['nseq'], c['nad1'], c['nad2']))
    if 'meshmaker' in m:
        mm = []
        for typ, dd in m['meshmaker']:
            if typ == 'rz2d': mm.append(('rz2d', [(s, dict((k, (list(v) if isinstance(v, list) else v)) for k, v in sd.items())) for s, sd in dd]))
            elif typ == 'xyz': mm.append(('xyz', [dd['deg']] + [dict((k, (list(v) if isinstance(v, list) else v)) for k, v in x.items()) for x in dd['dirs']]))
            else: mm.append(('minc', dict((k, (list(v) if isinstance(v, list) else v)) for k, v in dd.items())))
        d.meshmaker = mm
    for gm in m.get('generators', []):
        d.add_generator(t2data.t2generator(name=gm['name'], block=gm['block'], nseq=gm['nseq'], nadd=gm['nadd'], nads=gm['nads'],
                                           type=gm['type'], ltab=gm['ltab'], itab=gm['itab'], gx=gm['gx'], ex=gm['ex'], hg=gm['hg'],
                                           fg=gm['fg'], time=list(gm['time']), rate=list(gm['rate']), enthalpy=list(gm['enthalpy'])))
    if 'short' in m:
        sh = {}
        if m['short'].get('frequency') is not None: sh['frequency'] = m['short']['frequency']
        if 'block' in m['short']: sh['block'] = [g.block[n] for n in m['short']['block']]
        if 'connection' in m['short']: sh['connection'] = [g.connection[tuple(c)] for c in m['short']['connection']]
        if 'generator' in m['short']: sh['generator'] = [d.generator[tuple(x)] for x in m['short']['generator']]
        if not sh: sh['frequency'] = 1
        d.short_output = sh
    if 'foft' in m: d.history_block = [g.block[n] for n in m['foft']]
    if 'coft' in m: d.history_connection = [g.connection[tuple(c)] for c in m['coft']]
    if 'goft' in m: d.history_generator = [g.block[n] for n in m['goft']]
    for r in m.get('incon', []):
        d.incon[r['block']] = [r['porosity'], list(r['vars'])] + ([r['nseq'], r['nadd']] if r['nseq'] is not None else [])
    for r in m.get('indom', []): d.indom[r['rock']] = list(r['vars'])
    return d


def _f(x): return None if x is None else float(x)
def _i(x): return None if x is None else int(x)


def extract(d):
    """t2data -> model shape (reads public attributes only; '_sections' is the documented section order holder)"""
    import numpy as np
    m = {'title': d.title, 'sections': list(d._sections), 'end': d.end_keyword}
    if d.simulator: m['simulator'] = d.simulator
    g = d.grid
    rocks = []
    for rt in g.rocktypelist:
        r = {'name': rt.name, 'nad': _i(rt.nad), 'density': _f(rt.density), 'porosity': _f(rt.porosity),
             'k1': _f(rt.permeability[0]), 'k2': _f(rt.permeability[1]), 'k3': _f(rt.permeability[2]),
             'conductivity': _f(rt.conductivity), 'specific_heat': _f(rt.specific_heat)}
        if rt.nad and rt.nad >= 1:
            for k in ('compressibility', 'expansivity', 'dry_conductivity', 'tortuosity', 'klinkenberg', 'xkd3', 'xkd4'):
                r[k] = _f(getattr(rt, k, None))
        if rt.nad and rt.nad >= 2:
            r['rp_type'] = _i(rt.relative_permeability.get('type')); r['rp'] = [_f(v) for v in rt.relative_permeability.get('parameters', [])]
            r['cp_type'] = _i(rt.capillarity.get('type')); r['cp'] = [_f(v) for v in rt.capillarity.get('parameters', [])]
        rocks.append(r)
    if rocks: m['rocks'] = rocks
    P = d.parameter
    p = {}
    for k in ('max_iterations', 'print_level', 'max_timesteps', 'max_duration', 'print_interval'): p[k] = _i(P.get(k))
    for k in ('diff0', 'texp', 'be', 'tstart', 'tstop', 'const_timestep', 'max_timestep', 'gravity', 'timestep_reduction', 'scale',
              'relative_error', 'absolute_error', 'pivot', 'upstream_weight', 'newton_weight', 'derivative_increment'): p[k] = _f(P.get(k))
    p['print_block'] = P.get('print_block')
    p['mop'] = ''.join(str(int(x)) for x in P['option'][1:25])
    p['timestep'] = [_f(v) for v in P.get('timestep', [])]
    p['default_incons'] = [_f(v) for v in P.get('default_incons', [])]
    m['param'] = p
    if np.any(d.more_option): m['momop'] = ''.join(str(int(x)) for x in d.more_option[1:22])
    if d.start: m['start'] = True
    if d.noversion: m['nover'] = True
    if d.relative_permeability or d.capillarity:
        m['rpcap'] = {'rp_type': _i(d.relative_permeability.get('type')), 'rp': [_f(v) for v in d.relative_permeability.get('parameters', [])],
                      'cp_type': _i(d.capillarity.get('type')), 'cp': [_f(v) for v in d.capillarity.get('parameters', [])]}
    for key, attr, names in (('lineq', 'lineq', ('type', 'epsilon', 'max_iterations', 'gauss', 'num_orthog')),
                             ('solver', 'solver', ('type', 'z_precond', 'o_precond', 'relative_max_iterations', 'closure')),
                             ('multi', 'multi', ('num_components', 'num_equations', 'num_phases', 'num_secondary_parameters', 'num_inc', 'eos'))):
        v = getattr(d, attr)
        if v: m[key] = dict((n, v.get(n)) for n in names)
    if d.output_times:
        m['times'] = dict((n, d.output_times.get(n)) for n in ('num_times_specified', 'num_times', 'max_timestep', 'time_increment'))
        m['times']['time'] = [_f(v) for v in d.output_times.get('time', [])]
    if d.selection: m['selec'] = {'integer': list(d.selection['integer']), 'float': [_f(v) for v in d.selection['float']]}
    if d.diffusion: m['diffu'] = [[_f(v) for v in row] for row in d.diffusion]
    m['blocks'] = [{'name': b.name, 'nseq': _i(b.nseq), 'nadd': _i(b.nadd), 'rocktype': b.rocktype.name, 'volume': _f(b.volume),
                    'ahtx': _f(b.ahtx), 'pmx': _f(b.pmx),
                    'x': None if b.centre is None else _f(b.centre[0]), 'y': None if b.centre is None else _f(b.centre[1]),
                    'z': None if b.centre is None else _f(b.centre[2])} for b in g.blocklist]
    m['connections'] = [{'block1': c.block[0].name, 'block2': c.block[1].name, 'nseq': _i(c.nseq), 'nad1': _i(c.nad1), 'nad2': _i(c.nad2),
                         'direction': _i(c.direction), 'distance1': _f(c.distance[0]), 'distance2': _f(c.distance[1]), 'area': _f(c.area),
                         'dircos': _f(c.dircos), 'sigma': _f(c.sigma)} for c in g.connectionlist]
    if d.meshmaker:
        mm = []
        for typ, dd in d.meshmaker:
            if typ == 'rz2d': mm.append(['rz2d', [[s, dict(sd)] for s, sd in dd]])
            elif typ == 'xyz': mm.append(['xyz', {'deg': dd[0], 'dirs': [dict(x) for x in dd[1:]]}])
            else: mm.append(['minc', dict(dd)])
        m['meshmaker'] = mm
    if d.generatorlist:
        m['generators'] = [{'block': x.block, 'name': x.name, 'nseq': _i(x.nseq), 'nadd': _i(x.nadd), 'nads': _i(x.nads), 'ltab': _i(x.ltab),
                            'type': x.type, 'itab': x.itab, 'gx': _f(x.gx), 'ex': _f(x.ex), 'hg': _f(x.hg), 'fg': _f(x.fg),
                            'time': [_f(v) for v in x.time], 'rate': [_f(v) for v in x.rate], 'enthalpy': [_f(v) for v in x.enthalpy]}
                           for x in d.generatorlist]
    if d.short_output:
        sh = {'frequency': d.short_output.get('frequency')}
        if 'block' in d.short_output: sh['block'] = [b.name for b in d.short_output['block']]
        if 'connection' in d.short_output: sh['connection'] = [[c.block[0].name, c.block[1].name] for c in d.short_output['connection']]
        if 'generator' in d.short_output: sh['generator'] = [[x.block, x.name] for x in d.short_output['generator']]
        m['short'] = sh
    nm = lambda b: b if isinstance(b, str) else b.name
    if d.history_block: m['foft'] = [nm(b) for b in d.history_block]
    if d.history_connection: m['coft'] = [list(c) if isinstance(c, tuple) else [c.block[0].name, c.block[1].name] for c in d.history_connection]
    if d.history_generator: m['goft'] = [nm(b) for b in d.history_generator]
    if d.incon:
        m['incon'] = [{'block': k, 'porosity': _f(v[0]), 'vars': [_f(x) for x in v[1]], 'nseq': _i(v[2]) if len(v) > 2 else None,
                       'nadd': _i(v[3]) if len(v) > 3 else None} for k, v in d.incon.items()]
    if d.indom: m['indom'] = [{'rock': k, 'vars': [_f(x) for x in v]} for k, v in d.indom.items()]
    return m


# ---------------------------------------------------------------------------------------------- comparison
def _s(x):
    return '' if x is None else str(x).rstrip()


def _blank(x):
    return x is None or (isinstance(x, str) and x.strip() == '')


def same(a, b, zero_is_none=False, strip=False):
    if _blank(a) and _blank(b): return True
    if zero_is_none and ((a in (0, None)) and (b in (0, None))): return True
    if isinstance(a, str) or isinstance(b, str):
        return (_s(a).strip() == _s(b).strip()) if strip else (_s(a) == _s(b))
    if a is None or b is None: return False
    return float(a) == float(b)


def same_list(a, b):
    a = list(a or []); b = list(b or [])
    while a and _blank(a[-1]): a.pop()
    while b and _blank(b[-1]): b.pop()
    return len(a) == len(b) and all(same(x, y) for x, y in zip(a, b))


ZERO_NONE = {'nseq', 'nadd', 'nad1', 'nad2', 'nads'}
STRIP_KEYS = {'eos', 'z_precond', 'o_precond', 'ntype', 'type', 'dual', 'where', 'itab'}   # free text, not names


def cmp_record(R, sig, a, b, ctx):
    for k in sorted(set(a) | set(b)):
        x, y = a.get(k), b.get(k)
        if isinstance(x, list) or isinstance(y, list):
            if x and isinstance(x[0], list) or y and isinstance(y[0], list):
                ok = len(x or []) == len(y or []) and all(same_list(p, q) for p, q in zip(x or [], y or []))
            else: ok = same_list(x, y)
        else: ok = same(x, y, k in ZERO_NONE and not sig.endswith(':generators'), k in STRIP_KEYS)      # (a generator's 0 stays a 0; for blocks, connections and incons the reader documents 0 -> None)
        R.check(ok, '%s:%s' % (sig, k), '%s: %s = %r, expected %r' % (ctx, k, x, y))


def compare(R, tag, got, exp, name_map=None, skip=()):
    """got, exp in model shape.  name_map: canonical form of block names (A3,I2 quirk)."""
    nm = name_map or (lambda n: n)
    R.check(_s(got.get('title')) == _s(exp.get('title')).strip(), tag + ':title', '%r expected %r' % (got.get('title'), exp.get('title')))
    R.check(_s(got.get('simulator')) == _s(exp.get('simulator')), tag + ':simulator', '%r expected %r' % (got.get('simulator'), exp.get('simulator')))
    for key in ('rocks', 'blocks', 'connections', 'generators', 'incon', 'indom'):
        if key in skip: continue
        a, b = got.get(key) or [], exp.get(key) or []
        if not R.check(len(a) == len(b), '%s:%s:count' % (tag, key), '%d entries, expected %d' % (len(a), len(b))): continue
        for i, (x, y) in enumerate(zip(a, b)):
            y = dict(y)
            for nk in ('name', 'block', 'block1', 'block2'):
                if nk in y and key in ('blocks', 'connections', 'generators', 'incon') and not (key == 'generators' and nk == 'name' and False):
                    y[nk] = nm(y[nk])
            if key == 'rocks':
                for pk in ('rp', 'cp'):
                    if pk in y: y[pk] = list(y[pk]) + [None] * (7 - len(y[pk]))
                    if pk in x: x = dict(x); x[pk] = list(x[pk]) + [None] * (7 - len(x[pk]))
            cmp_record(R, '%s:%s' % (tag, key), x, y, '%s[%d]' % (key, i))
    # an INDOM entry is addressed by rock type: its key must be, character for character, the name of a rock type of the same model
    rn = [r['name'] for r in got.get('rocks') or []]
    if rn and exp.get('rocks'):
        for x in got.get('indom') or []:
            if [y for y in exp.get('indom') or [] if _s(y['rock']) == _s(x['rock'])] and \
                    any(_s(y['name']) == _s(x['rock']) for y in exp['rocks']):
                R.check(x['rock'] in rn, tag + ':indom:rock-not-a-rock-type-name',
                        'INDOM entry %r: the rock types of the model are %r' % (x['rock'], rn))
    for key in ('param', 'rpcap', 'lineq', 'solver', 'multi', 'times', 'selec'):
        a, b = got.get(key), exp.get(key)
        if a is None and b is None: continue
        if not R.check(a is not None and b is not None, '%s:%s:presence' % (tag, key), '%r expected %r' % (a, b)): continue
        b = dict(b)
        if key == 'param' and b.get('print_block') is not None: b['print_block'] = nm(b['print_block'])
        cmp_record(R, '%s:%s' % (tag, key), a, b, key)
    R.check(_s(got.get('momop')).ljust(21, '0') == _s(exp.get('momop')).ljust(21, '0'), tag + ':momop', '%r expected %r' % (got.get('momop'), exp.get('momop')))
    for key in ('start', 'nover'):
        R.check(bool(got.get(key)) == bool(exp.get(key)), '%s:%s' % (tag, key), '%r expected %r' % (got.get(key), exp.get(key)))
    a, b = got.get('diffu') or [], exp.get('diffu') or []
    R.check(len(a) == len(b) and all(same_list(x, y) for x, y in zip(a, b)), tag + ':diffu', '%r expected %r' % (a, b))
    for key in ('foft', 'goft'):
        R.check([_s(x) for x in got.get(key) or []] == [_s(nm(x)) for x in exp.get(key) or []], '%s:%s' % (tag, key),
                '%r expected %r' % (got.get(key), exp.get(key)))
    R.check([[_s(x) for x in c] for c in got.get('coft') or []] == [[_s(nm(x)) for x in c] for c in exp.get('coft') or []], tag + ':coft',
            '%r expected %r' % (got.get('coft'), exp.get('coft')))
    a, b = got.get('short'), exp.get('short')
    if (a is None) != (b is None): R.fail(tag + ':short:presence', '%r expected %r' % (a, b))
    elif a is not None:
        R.check(same(a.get('frequency'), b.get('frequency'), True), tag + ':short:frequency', '%r expected %r' % (a.get('frequency'), b.get('frequency')))
        R.check([_s(x) for x in a.get('block') or []] == [_s(nm(x)) for x in b.get('block') or []], tag + ':short:block', '%r expected %r' % (a.get('block'), b.get('block')))
        for k in ('connection', 'generator'):
            R.check([[_s(x) for x in c] for c in a.get(k) or []] == [[_s(nm(x)) for x in c] for c in b.get(k) or []], '%s:short:%s' % (tag, k),
                    '%r expected %r' % (a.get(k), b.get(k)))
    a, b = got.get('meshmaker') or [], exp.get('meshmaker') or []
    if R.check([x[0] for x in a] == [x[0] for x in b], tag + ':meshmaker:kinds', '%r expected %r' % ([x[0] for x in a], [x[0] for x in b])):
        for i, ((t, x), (_t, y)) in enumerate(zip(a, b)):
            if t == 'rz2d':
                if R.check([s[0] for s in x] == [s[0] for s in y], tag + ':meshmaker:rz2d:kinds', '%r expected %r' % (x, y)):
                    for (s, p), (_s2, q) in zip(x, y): cmp_record(R, '%s:meshmaker:rz2d:%s' % (tag, s), p, q, 'meshmaker[%d] %s' % (i, s))
            elif t == 'xyz':
                R.check(same(x.get('deg'), y.get('deg')), tag + ':meshmaker:xyz:deg', '%r expected %r' % (x.get('deg'), y.get('deg')))
                if R.check(len(x['dirs']) == len(y['dirs']), tag + ':meshmaker:xyz:count', '%d direction entries, expected %d' % (len(x['dirs']), len(y['dirs']))):
                    for p, q in zip(x['dirs'], y['dirs']): cmp_record(R, tag + ':meshmaker:xyz', p, q, 'meshmaker[%d] xyz' % i)
            else:
                cmp_record(R, tag + ':meshmaker:minc', x, y, 'meshmaker[%d] minc' % i)


def through_format(m, xp_sections=()):
    """the model as the library's own formats carry it (what a correct write must put in the file)"""
    import copy
    e = copy.deepcopy(m)

    def conv(section, rec, keys=None):
        xp = section in xp_sections
        for k, v in list(rec.items()):
            if isinstance(v, float): rec[k] = carried(section, k, v, xp)
            elif isinstance(v, list) and v and all(isinstance(x, float) or x is None for x in v) and any(isinstance(x, float) for x in v):
                rec[k] = [carried(section, k, x, xp) for x in v]
    for r in e.get('rocks', []): conv('rocks', r)
    conv('param', e['param'])
    if 'rpcap' in e: conv('rpcap', e['rpcap'])
    for key in ('lineq', 'solver', 'times'):
        if key in e: conv(key, e[key])
    if 'selec' in e: conv('selec', e['selec'])
    if 'diffu' in e: e['diffu'] = [[carried('diffu', 'row', v) for v in row] for row in e['diffu']]
    for b in e['blocks']: conv('blocks', b)
    for c in e['connections']: conv('connections', c)
    for g in e.get('generators', []): conv('generators', g)
    for r in e.get('incon', []): conv('incon', r)
    for r in e.get('indom', []): conv('indom', r)
    for typ, d in e.get('meshmaker', []):
        if typ == 'rz2d':
            for s, sd in d: conv('meshmaker', sd)
        elif typ == 'xyz':
            d['deg'] = carried('meshmaker', 'deg', d['deg'])
            for x in d['dirs']: conv('meshmaker', x)
        else: conv('meshmaker', d)
    return e


def with_defaults(r):
    """A model as read independently from a file, with the defaults the library documents for blank fields
    (PARAM: tstart, const_timestep, gravity 0.0; blank MOP digits are 0; constant time step listed as the single
    time step; ROCKS line 1.1: blank compressibility/expansivity/dry conductivity/tortuosity are 0.0)."""
    import copy
    e = copy.deepcopy(r)
    p = e.get('param')
    if p is not None:
        for k in ('tstart', 'const_timestep', 'gravity'):
            if p.get(k) is None: p[k] = 0.0
        p['mop'] = (p.get('mop') or '').rstrip().ljust(24).replace(' ', '0')
        if p['const_timestep'] >= 0: p['timestep'] = [p['const_timestep']]
    if e.get('momop') is not None: e['momop'] = e['momop'].rstrip().ljust(21).replace(' ', '0')
    for rk in e.get('rocks', []):
        if rk.get('nad') and rk['nad'] >= 1:
            for k in ('compressibility', 'expansivity', 'dry_conductivity', 'tortuosity'):
                if rk.get(k) is None: rk[k] = 0.0
    return e
