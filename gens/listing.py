"""Shared helpers for the listing-file properties C05/C06/C07: shipped files, opening the reader under
test, snapshots of its observable state, truncated copies, and the end-of-file read counter."""
import os, io, shutil
import numpy as np
from vlib import core
from vlib.core import HarnessError


def listing_dir():
    return os.path.join(core.REPO, 'tests', 'listing')


_shipped = None


def shipped():
    """relative paths of the 37 shipped listings (editor backups '*~' excluded: one of them is not
    recognisable as any simulator and makes the reader spin on open)."""
    global _shipped
    if _shipped is None:
        out = []
        base = listing_dir()
        for r, d, fs in os.walk(base):
            for f in fs:
                if f.endswith('.npy') or f.endswith('~'): continue
                out.append(os.path.relpath(os.path.join(r, f), base))
        _shipped = sorted(out)
        if len(_shipped) != 37:
            raise HarnessError('expected 37 shipped listings, found %d' % len(_shipped))
    return _shipped


def path_of(rel):
    return os.path.join(listing_dir(), rel)


def family(rel):
    return rel.split(os.sep)[0]


def size_of(rel):
    return os.path.getsize(path_of(rel))


def open_listing(path, **kw):
    from t2listing import t2listing
    return t2listing(path, **kw)


def table_state(t):
    return (tuple(t.row_name), tuple(t.column_name), np.array(t._data, copy=True))


def snapshot(lst):
    """everything the properties call 'what the listing shows'"""
    return {'index': lst.index, 'time': lst.time, 'step': lst.step,
            'tables': dict((n, table_state(lst._table[n])) for n in sorted(lst._table))}


def same_array(a, b):
    if a.shape != b.shape: return False
    return bool(np.all((a == b) | (np.isnan(a) & np.isnan(b))))


def diff_snapshot(a, b, what=('index', 'time', 'step', 'tables')):
    """list of (field, detail) where two snapshots differ"""
    out = []
    for k in ('index', 'time', 'step'):
        if k in what and not (a[k] == b[k]):
            out.append((k, '%s: %r != %r' % (k, a[k], b[k])))
    if 'tables' in what:
        if sorted(a['tables']) != sorted(b['tables']):
            out.append(('tablenames', '%r != %r' % (sorted(a['tables']), sorted(b['tables']))))
        for n in sorted(set(a['tables']) & set(b['tables'])):
            ra, ca, da = a['tables'][n]
            rb, cb, db = b['tables'][n]
            if ra != rb: out.append(('rows:' + n, 'row names differ'))
            elif ca != cb: out.append(('columns:' + n, 'column names differ'))
            elif not same_array(da, db):
                bad = np.argwhere(~((da == db) | (np.isnan(da) & np.isnan(db))))
                i, j = bad[0]
                out.append(('data:' + n, '%s[%r][%r]: %r != %r (%d cells differ)' % (
                    n, ra[i], ca[j], da[i, j], db[i, j], len(bad))))
    return out


_baseline = {}


def baseline(path, key=None):
    """snapshots of a freshly opened listing positioned directly at each index (cached per process;
    `key` must identify the file contents)."""
    key = key or path
    if key not in _baseline:
        lst = open_listing(path)
        try:
            snaps = []
            n = lst.num_fulltimes
            for i in range(n):
                f = open_listing(path) if i else lst
                try:
                    if i: f.index = i
                    snaps.append(snapshot(f))
                finally:
                    if f is not lst: f.close()
            info = {'n': n, 'fulltimes': np.array(lst.fulltimes, copy=True),
                    'fullsteps': np.array(lst.fullsteps, copy=True),
                    'times': np.array(lst.times, copy=True), 'simulator': lst.simulator,
                    'tablenames': list(lst._tablenames), 'short_types': list(lst.short_types),
                    'snaps': snaps}
        finally:
            lst.close()
        _baseline[key] = info
    return _baseline[key]


def forget_baseline(key):
    _baseline.pop(key, None)


# ------------------------------------------------------------------------------------------------
# truncated copies

def banner_lines(path):
    """byte offsets of the starts of the lines that open each full result set"""
    with open(path, 'rb') as f:
        data = f.read()
    offs, pos = [], 0
    aut = None
    lines = data.split(b'\n')
    for k, l in enumerate(lines):
        s = l.lstrip().lower()
        if s.startswith(b'output data after'):
            offs.append(pos)
        elif l[1:6] == b'EEEEE' and l[1:40].strip(b'E') == b'':
            # AUTOUGH2 element banners come in triples (open, mid, close): keep each first one
            if aut is None: aut = 0
            if aut % 3 == 0: offs.append(pos)
            aut += 1
        pos += len(l) + 1
    return offs, len(data)


def truncate_copy(path, ntimes, dest_dir):
    """copy of a listing cut just before its (ntimes+1)-th result banner"""
    offs, size = banner_lines(path)
    if not (1 <= ntimes < len(offs)):
        raise HarnessError('cannot cut %s to %d of %d times' % (path, ntimes, len(offs)))
    dest = os.path.join(dest_dir, os.path.basename(path))
    with open(path, 'rb') as f:
        data = f.read(offs[ntimes])
    with open(dest, 'wb') as f:
        f.write(data)
    return dest


# ------------------------------------------------------------------------------------------------
# termination: count consecutive reads at end of file

class Hang(Exception):
    pass


class EOFWatch(object):
    """Proxy for listing._file.  Every read that returns nothing (end of file) increments a counter;
    only a read that returns data resets it (seeks do not, the looping code seeks as well).  More than
    `limit` consecutive empty reads refute termination deterministically, without a clock: legitimate
    code reads at end of file a handful of times, the looping code does nothing else."""

    def __init__(self, f, limit=1000):
        self._f = f
        self._limit = limit
        self.empty_reads = 0
        self.max_empty = 0
        self.reads = 0

    def _note(self, data):
        self.reads += 1
        if data: self.empty_reads = 0
        else:
            self.empty_reads += 1
            if self.empty_reads > self.max_empty: self.max_empty = self.empty_reads
            if self.empty_reads > self._limit:
                raise Hang('%d consecutive reads at end of file' % self.empty_reads)
        return data

    def readline(self, *a): return self._note(self._f.readline(*a))
    def read(self, *a): return self._note(self._f.read(*a))
    def seek(self, *a): return self._f.seek(*a)
    def tell(self): return self._f.tell()
    def close(self): return self._f.close()
    def __getattr__(self, n): return getattr(self._f, n)
